"""C08 - channel representations describe one and the same map.

Proof step : Props/C08.v (index model, stdlib) and Props/C08_alg.v (MathComp
             algebra over any commutative ring with involution).
Tie (T)    : tools/tx_c08_shuffle.py re-reads the literal reshape / transpose /
             new_dims of `_super_tofrom_choi` from the source with `ast`; the
             generated file must agree with the constants the theorems are
             about (one obligation per constant).
Tie (K)    : the executable model (coq/Model/C08.v, vm_compute) against the
             real to_choi / to_super / to_chi / kraus_to_choi / _superpauli_basis
             / _svd_u_to_kraus / _choi_to_stinespring / _choi_to_kraus (after the
             eigen-solver) / Qobj.ishp / Qobj.istp / Qobj.dual_chan on
             generated Gaussian-integer inputs, compared exactly (data, dims
             labels, superrep tag, error class).
Oracle     : the property itself on real qutip objects: every representation
             of a random exactly-representable map is compared with an
             independent NumPy description of the map (see oracle_map).
"""
import itertools
import json
import os
import random
import sys
import warnings
from fractions import Fraction

import numpy as np

import vlib
from vlib import cnat, clist

HEADER = ("From Coq Require Import List ZArith Bool.\nImport ListNotations.\n"
          "From QV Require Import Model.C08 Model.C08_ext Model.C08_kraus.\nLocal Open Scope Z_scope.\n")

VAL_TOL = 1e-9          # labelled validation tolerance where eig / SVD enter


# =========================================================== small helpers
def prod(l):
    p = 1
    for x in l:
        p *= int(x)
    return p


def gz_list(arr):
    """complex ndarray (any shape) -> flat list of [re, im] ints; None when
    an entry is not an exactly representable Gaussian integer."""
    a = np.asarray(arr, dtype=complex).reshape(-1)
    re, im = a.real, a.imag
    if not (np.array_equal(re, np.round(re)) and np.array_equal(im, np.round(im))):
        return None
    return [[int(x), int(y)] for x, y in zip(re, im)]


def from_gz(flat, shape):
    a = np.array([complex(x, y) for x, y in flat], dtype=complex)
    return a.reshape(shape)


def c_gz(flat):
    return "[" + "; ".join("(%d,%d)" % (x, y) for x, y in flat) + "]"


def c_nl(l):
    return "(" + clist(l, lambda x: "%d" % x) + ")%nat"


def c_rep(r):
    return {"super": "Super", "choi": "Choi", "chi": "Chi"}[r]


def c_sobj(o):
    a, b, c, d = o["dims"]
    return "(mkS %s ((%s, %s), (%s, %s)) %s)" % (
        c_gz(o["data"]), c_nl(a), c_nl(b), c_nl(c), c_nl(d), c_rep(o["rep"]))


def c_oper(o):
    return "(mkO %s %s %s %s %s)" % (cnat(o["m"]), cnat(o["n"]), c_nl(o["dl"]),
                                    c_nl(o["dr"]), c_gz(o["data"]))


def c_qobj(o):
    if o["kind"] == "oper":
        return "(QOper %s)" % c_oper(o)
    if o["kind"] == "super":
        return "(QSuper %s)" % c_sobj(o)
    return "QOther"


REP_CODE = {"super": 0, "choi": 1, "chi": 2}


def mk_qobj(o):
    import qutip
    if o["kind"] in ("oper", "other"):
        return qutip.Qobj(from_gz(o["data"], (o["m"], o["n"])), dims=[o["dl"], o["dr"]])
    if o["kind"] == "super":
        a, b, c, d = o["dims"]
        return qutip.Qobj(from_gz(o["data"], (prod(a) * prod(b), prod(c) * prod(d))),
                          dims=[[a, b], [c, d]], superrep=o["rep"])
    return qutip.basis(2, 0)


def err_name(e):
    if isinstance(e, ValueError):
        return 1
    if isinstance(e, TypeError):
        return 2
    if isinstance(e, IndexError):
        return 3
    return "other:" + type(e).__name__


def canon_super(q, scale=1):
    """observable form of a super-type Qobj: (flat data, 4 dims lists, tag)"""
    d = q.dims
    data = gz_list(q.full() * scale)
    if data is None:
        return ("inexact",)
    if not (len(d) == 2 and all(isinstance(x, list) and len(x) == 2 and
                                all(isinstance(y, list) for y in x) for x in d)):
        return ("not-super-dims", d)
    return (data, [list(map(int, d[0][0])), list(map(int, d[0][1])),
                   list(map(int, d[1][0])), list(map(int, d[1][1]))],
            REP_CODE.get(q.superrep, "rep:%s" % q.superrep))


def canon_model_obs(v):
    """parsed `(observe r, err_code r)`"""
    obs, err = v
    if obs is None:
        return ("err", err)
    assert obs[0] == "Some"
    data, dims, rep = obs[1]
    return ([list(x) for x in data], [list(x) for x in dims], rep)


# ============================================================ generators
def rgz(rng, n, lo=-3, hi=3, pz=0.3, real=False):
    out = []
    for _ in range(n):
        if rng.random() < pz:
            out.append([0, 0])
        else:
            out.append([rng.randint(lo, hi), 0 if real else rng.randint(lo, hi)])
    return out


SUBSYS = [[1], [2], [3], [2, 2], [2, 3], [3, 2], [4], [2, 1], [2, 2, 2], [5]]
QSUB = [[2], [2, 2], [4], [2], [2]]


def pick_dims(rng, maxdim):
    while True:
        d = rng.choice(SUBSYS)
        if prod(d) <= maxdim:
            return list(d)


def gen_oper(rng, maxdim=4, qubit=False):
    if qubit:
        dl = list(rng.choice(QSUB))
        dr = list(dl) if rng.random() < 0.8 else list(rng.choice(QSUB))
    else:
        dl = pick_dims(rng, maxdim)
        dr = list(dl) if rng.random() < 0.4 else pick_dims(rng, maxdim)
    m, n = prod(dl), prod(dr)
    kind = "oper" if (m > 1 and n > 1) else "other"     # kets, bras, scalars are not maps
    return {"kind": kind, "m": m, "n": n, "dl": dl, "dr": dr,
            "data": rgz(rng, m * n)}


def gen_super(rng, maxdim=4, qubit=False, malformed=False):
    if qubit:
        i = list(rng.choice(QSUB))
        o = list(i) if rng.random() < 0.85 else list(rng.choice(QSUB))
    else:
        i = pick_dims(rng, maxdim)
        o = list(i) if rng.random() < 0.4 else pick_dims(rng, maxdim)
    rep = rng.choice(["super", "choi"])
    if malformed:
        # general [[a, b], [c, d]]: the code only looks at a and d
        a, b, c, d = (pick_dims(rng, 3) for _ in range(4))
        rep = rng.choice(["super", "choi", "chi"])
    elif rep == "super":
        a, b, c, d = o, o, i, i
    else:
        a, b, c, d = i, o, i, o
    size = prod(a) * prod(b) * prod(c) * prod(d)
    if (prod(a) * prod(b) == 1 or prod(c) * prod(d) == 1 or prod(d) * prod(b) == 1
            or prod(c) * prod(a) == 1):
        return gen_super(rng, maxdim, qubit, malformed)   # operator-ket / -bra, not a map
    return {"kind": "super", "dims": [list(a), list(b), list(c), list(d)], "rep": rep,
            "data": rgz(rng, size)}


# ============================================== correspondence: impl side
def impl_conv(op, o):
    import qutip
    from qutip.core import superop_reps as sr
    with warnings.catch_warnings():
        warnings.simplefilter("ignore")
        try:
            q = mk_qobj(o)
        except Exception as e:
            return ("ctor", type(e).__name__)
        try:
            if op == "to_choi":
                return canon_super(qutip.to_choi(q))
            if op == "to_super":
                return canon_super(qutip.to_super(q))
            if op == "to_chi":
                return canon_super(qutip.to_chi(q))
            if op == "chi_to_choi":
                r = sr._chi_to_choi(q)
                c = canon_super(r, scale=q.shape[0])
                return c if c[0] == "inexact" else (c[0], c[1], c[2], int(q.shape[0]))
            if op == "ishp":
                return bool(q.ishp)
            if op == "istp":
                return bool(q.istp)
        except Exception as e:
            if o["kind"] == "other":
                return ("err", 2)          # not a map: any refusal counts
            if op == "istp":
                return ("err", 1)          # the model only says "raises"
            return ("err", err_name(e))
    raise AssertionError(op)


def model_conv_expr(op, o):
    x = c_qobj(o)
    if op in ("to_choi", "to_super", "to_chi"):
        return "let r := %s %s in (observe r, err_code r)" % (op, x)
    if op == "chi_to_choi":
        return ("let r := chi_to_choi %s in (match r with Ok (q, n) => Some (s_data q, "
                "show_dims (s_dims q), rep_code (s_rep q), n) | _ => None end, err_code r)"
                % c_sobj(o))
    if op == "ishp":
        return "ishp %s" % x
    if op == "istp":
        return "istp %s" % x
    raise AssertionError(op)


def model_conv_canon(op, v):
    if op in ("to_choi", "to_super", "to_chi"):
        return canon_model_obs(v)
    if op == "chi_to_choi":
        obs, err = v
        if obs is None:
            return ("err", err)
        data, dims, rep, n = obs[1]
        return ([list(x) for x in data], [list(x) for x in dims], rep, n)
    if op == "ishp":
        return bool(v)
    if op == "istp":
        if v is None:
            return ("err", 1)
        return bool(v[1])
    raise AssertionError(op)


def impl_kraus(ks):
    import qutip
    with warnings.catch_warnings():
        warnings.simplefilter("ignore")
        try:
            return canon_super(qutip.kraus_to_choi([mk_qobj(k) for k in ks]))
        except Exception as e:
            return ("err", err_name(e))


def impl_pauli(nq):
    from qutip.core import superop_reps as sr
    return gz_list(sr._superpauli_basis(nq).full())


def impl_choi_to_kraus(c):
    """_choi_to_kraus with the eigen-solver replaced by exact data (eigenvalues
    that are perfect squares, integer eigenvectors)"""
    import qutip
    from qutip.core import superop_reps as sr
    ind, outd = c["in"], c["out"]
    N = prod(ind) * prod(outd)
    J = qutip.Qobj(np.zeros((N, N)), dims=[[ind, outd], [ind, outd]], superrep="choi")
    vals = np.array([float(x * x) for x, _ in c["sq"]])
    vecs = [qutip.Qobj(from_gz(v, (N, 1))) for v in c["vecs"]]
    real = qutip.Qobj.eigenstates
    qutip.Qobj.eigenstates = lambda self, *a, **k: (vals, vecs)
    try:
        ks = sr._choi_to_kraus(J, 1e-9)
    finally:
        qutip.Qobj.eigenstates = real
    return [[gz_list(k.full()), k.dims[0], k.dims[1], list(k.shape)] for k in ks]


def impl_svdk(c):
    from qutip.core import superop_reps as sr
    U = from_gz(c["U"], (c["dO"] * c["dI"], c["dK"]))
    S = from_gz(c["S"], (c["dK"],))
    ks = sr._svd_u_to_kraus(U, S, c["dO"], c["dI"], c["dK"], c["indims"], c["outdims"])
    return [[gz_list(k.full()), k.dims[0], k.dims[1], list(k.shape)] for k in ks]


def impl_stine_block(c):
    """_choi_to_stinespring with _generalized_kraus replaced by exact lists"""
    import qutip
    from qutip.core import superop_reps as sr
    kU = [mk_qobj(k) for k in c["kU"]]
    kV = [mk_qobj(k) for k in c["kV"]]
    dims = c["jdims"]
    n = prod(dims[0][0]) * prod(dims[0][1])
    J = qutip.Qobj(np.zeros((n, n)), dims=dims, superrep="choi")
    real = sr._generalized_kraus
    sr._generalized_kraus = lambda q, threshold=1e-10: (kU, kV)
    try:
        A, B = sr._choi_to_stinespring(J)
    finally:
        sr._generalized_kraus = real
    return [gz_list(A.full()), A.dims, list(A.shape), gz_list(B.full()), B.dims, list(B.shape)]


# ========================================= independent description of a map
def term_arrays(spec):
    m, n = prod(spec["dout"]), prod(spec["din"])
    out = []
    for t in spec["terms"]:
        L = from_gz(t["L"], (m, n))
        R = L if t.get("R") is None else from_gz(t["R"], (m, n))
        out.append((t["c"], L, R))
    return out


def ref_apply(spec, X):
    m = prod(spec["dout"])
    Y = np.zeros((m, m), dtype=complex)
    for c, L, R in term_arrays(spec):
        Y = Y + c * (L @ X @ R.conj().T)
    return Y


def ref_choi(spec):
    """J = sum_ij E_ij (x) Lambda(E_ij), input factor first (QuTiP's column
    stacking convention), from the definition."""
    n, m = prod(spec["din"]), prod(spec["dout"])
    J = np.zeros((n * m, n * m), dtype=complex)
    for i in range(n):
        for j in range(n):
            E = np.zeros((n, n), dtype=complex)
            E[i, j] = 1
            J += np.kron(E, ref_apply(spec, E))
    return J


def ref_super(spec):
    """S[(b*m+a), (j*n+i)] = Lambda(E_ij)[a, b]"""
    n, m = prod(spec["din"]), prod(spec["dout"])
    S = np.zeros((m * m, n * n), dtype=complex)
    for i in range(n):
        for j in range(n):
            E = np.zeros((n, n), dtype=complex)
            E[i, j] = 1
            Y = ref_apply(spec, E)
            S[:, j * n + i] = Y.reshape(-1, order="F")
    return S


def exact_psd(H):
    """exact positive-semidefiniteness of an integer Hermitian matrix
    (Gaussian-rational symmetric elimination)."""
    n = H.shape[0]
    A = [[(Fraction(int(round(H[r, c].real))), Fraction(int(round(H[r, c].imag))))
          for c in range(n)] for r in range(n)]

    def mul(x, y):
        return (x[0] * y[0] - x[1] * y[1], x[0] * y[1] + x[1] * y[0])

    def sub(x, y):
        return (x[0] - y[0], x[1] - y[1])

    def conj(x):
        return (x[0], -x[1])
    for k in range(n):
        p = A[k][k][0]
        if p < 0:
            return False
        if p == 0:
            if any(A[k][c] != (0, 0) for c in range(k, n)):
                return False
            continue
        for r in range(k + 1, n):
            f = (A[r][k][0] / p, A[r][k][1] / p)
            if f == (0, 0):
                continue
            for c in range(k + 1, n):
                A[r][c] = sub(A[r][c], mul(f, A[k][c]))
            A[r][k] = (Fraction(0), Fraction(0))
    return True


def pauli_strings(nq):
    P1 = [np.eye(2, dtype=complex), np.array([[0, 1], [1, 0]], dtype=complex),
          np.array([[0, -1j], [1j, 0]]), np.array([[1, 0], [0, -1]], dtype=complex)]
    out = []
    for ks in itertools.product(range(4), repeat=nq):
        M = np.eye(1, dtype=complex)
        for k in ks:
            M = np.kron(M, P1[k])
        out.append(M)
    return out


def is_qubits(d):
    return all(x >= 1 and (x & (x - 1)) == 0 for x in d) and prod(d) >= 2


# ------------------------------------------------------- map generators
def perm_isometry(rng, m, n):
    """n <= m: columns are distinct basis vectors with phases in {1,-1,i,-i}"""
    rows = rng.sample(range(m), n)
    data = [[0, 0] for _ in range(m * n)]
    for c, r in enumerate(rows):
        data[r * n + c] = rng.choice([[1, 0], [-1, 0], [0, 1], [0, -1], [1, 0]])
    return data


def gen_map(rng, maxdim=4, want=None):
    kind = want or rng.choice(["cp", "cp", "hp", "gen", "unitary", "isometry",
                               "measure", "transpose", "tpmix", "cp1",
                               "spre", "spost", "sprepost_h"])
    def pd():
        while True:
            d = pick_dims(rng, maxdim)
            if 1 not in d:      # sprepost drops size-1 factors from the labels (documented)
                return d
    din = pd()
    if rng.random() < 0.35:
        din = list(rng.choice(QSUB))
    dout = list(din) if rng.random() < 0.5 else pd()
    n, m = prod(din), prod(dout)
    terms = []
    as_oper = False
    if kind in ("cp", "cp1"):
        for _ in range(1 if kind == "cp1" else rng.randint(1, 3)):
            terms.append({"c": 1, "L": rgz(rng, m * n, -2, 2), "R": None})
        as_oper = kind == "cp1"
    elif kind == "hp":
        for _ in range(rng.randint(2, 3)):
            terms.append({"c": rng.choice([1, -1]), "L": rgz(rng, m * n, -2, 2), "R": None})
        terms[0]["c"], terms[1]["c"] = 1, -1
    elif kind == "gen":
        for _ in range(rng.randint(1, 2)):
            terms.append({"c": 1, "L": rgz(rng, m * n, -2, 2), "R": rgz(rng, m * n, -2, 2)})
    elif kind in ("unitary", "isometry"):
        if kind == "unitary":
            dout = list(din)
            m = n
        elif m < n:
            din, dout = dout, din
            n, m = m, n
        terms.append({"c": 1, "L": perm_isometry(rng, m, n), "R": None})
        as_oper = True
    elif kind == "measure":
        # measure in the computational basis, prepare basis states: TP, CP
        for i in range(n):
            L = [[0, 0] for _ in range(m * n)]
            L[rng.randrange(m) * n + i] = [1, 0]
            terms.append({"c": 1, "L": L, "R": None})
    elif kind == "transpose":
        # X -> X^T : TP, HP, not CP for n >= 2 (sum_ij E_ji X E_ji^dag .. as L X R^dag)
        dout = list(din)
        m = n
        for i in range(n):
            for j in range(n):
                L = [[0, 0] for _ in range(n * n)]
                R = [[0, 0] for _ in range(n * n)]
                L[j * n + i] = [1, 0]        # E_ji
                R[i * n + j] = [1, 0]        # E_ij ; E_ji X E_ij^dag = E_ji X E_ji
                terms.append({"c": 1, "L": L, "R": R})
    elif kind == "tpmix":
        # 2 * (permutation conjugation) - (another one): TP, HP, usually not CP
        dout = list(din)
        m = n
        terms.append({"c": 1, "L": perm_isometry(rng, n, n), "R": None})
        terms.append({"c": 1, "L": list(terms[0]["L"]), "R": None})
        terms.append({"c": -1, "L": perm_isometry(rng, n, n), "R": None})
    elif kind in ("spre", "spost", "sprepost_h"):
        # maps built by qutip's constructors from operators whose isherm flag is
        # already known: X -> H X, X -> X H, X -> H1 X H2 (H Hermitian)
        dout = list(din)
        m = n

        def herm():
            a = np.array([complex(x, y) for x, y in rgz(rng, n * n, -2, 2)]).reshape(n, n)
            return gz_list(a + a.conj().T)
        eye = gz_list(np.eye(n))
        if kind == "spre":
            terms.append({"c": 1, "L": herm(), "R": eye})
        elif kind == "spost":
            terms.append({"c": 1, "L": eye, "R": herm()})
        else:
            terms.append({"c": 1, "L": herm(), "R": herm()})
        return {"din": din, "dout": dout, "terms": terms, "kind": kind, "as_oper": False,
                "build": kind}
    return {"din": din, "dout": dout, "terms": terms, "kind": kind, "as_oper": as_oper}


# =========================================================== the oracle
def _shape_class(spec):
    rect = prod(spec["din"]) != prod(spec["dout"]) or spec["din"] != spec["dout"]
    comp = len(spec["din"]) > 1 or len(spec["dout"]) > 1
    return ("rectangular" if rect else "square") + ("-composite" if comp else "")


def oracle_map(spec, stats=None):
    """The property, on the real implementation, for one exactly described
    map.  Returns a list of findings (site, signature, what, extra)."""
    import qutip
    from qutip import (Qobj, to_choi, to_super, to_chi, to_kraus, to_stinespring,
                       kraus_to_choi, sprepost)
    bad = []
    din, dout = spec["din"], spec["dout"]
    n, m = prod(din), prod(dout)
    sc_full = _shape_class(spec)
    rect = sc_full.startswith("rectangular")
    sc = "rectangular" if rect else "square"
    terms = term_arrays(spec)
    Jref = ref_choi(spec)
    Sref = ref_super(spec)
    scale = max(1.0, float(np.abs(Jref).max()))
    want_cdims = [[din, dout], [din, dout]]
    want_sdims = [[dout, dout], [din, din]]

    def note(k):
        if stats is not None:
            stats[k] = stats.get(k, 0) + 1

    def rep(site, sig, what, **extra):
        bad.append((site, sig, what, extra))

    def guarded(site, label, f):
        try:
            with warnings.catch_warnings():
                warnings.simplefilter("ignore")
                return f()
        except Exception as e:
            rep(site, "%s:raises-%s:%s" % (label, type(e).__name__, sc),
                "%s raises %s: %s" % (label, type(e).__name__, str(e)[:200]))
            return None

    # ---- build the supermatrix from qutip's own constructors
    qs = []
    for c, L, R in terms:
        Lq = Qobj(L, dims=[dout, din])
        Rq = Qobj(R, dims=[dout, din])
        qs.append(c * sprepost(Lq, Rq.dag()))
    S = qs[0]
    for q in qs[1:]:
        S = S + q
    cp_by_construction = all(c == 1 and R is L for c, L, R in terms)
    opers = None
    if spec.get("as_oper") and len(terms) == 1 and cp_by_construction:
        opers = Qobj(terms[0][1], dims=[dout, din])

    # ---- (a) super: data, dims, tag, action on an operator basis
    if not np.array_equal(S.full(), Sref):
        rep("superoperator.sprepost", "super-data:" + sc, "supermatrix differs from the definition")
    if S.dims != want_sdims or S.superrep != "super" or S.type != "super":
        rep("superoperator.sprepost", "super-dims:" + sc, "dims/tag %r %r" % (S.dims, S.superrep))
    for i in range(n):
        for j in range(n):
            E = np.zeros((n, n), dtype=complex)
            E[i, j] = 1 + 0j
            Y = guarded("qobj.Qobj.__call__", "super-call", lambda: S(Qobj(E, dims=[din, din])))
            if Y is None:
                break
            if not np.array_equal(Y.full(), ref_apply(spec, E)) or Y.dims != [dout, dout]:
                rep("qobj.Qobj.__call__", "super-call-wrong:" + sc,
                    "S(E_%d%d) differs from the map" % (i, j))
    note("apply")

    sources = [("super", S)]
    if opers is not None:
        sources.append(("oper", opers))

    # ---- (b) Choi from every source: matrix is the Choi matrix, labels, tag
    J = None
    for nm, src in sources:
        Jx = guarded("superop_reps.to_choi", "to_choi(%s)" % nm, lambda: to_choi(src))
        if Jx is None:
            continue
        if Jx.shape != (n * m, n * m) or not np.array_equal(Jx.full(), Jref):
            rep("superop_reps.to_choi", "choi-data:%s:%s" % (nm, sc),
                "to_choi(%s) is not sum_ij E_ij (x) L(E_ij)" % nm)
        if Jx.dims != want_cdims or Jx.superrep != "choi" or Jx.type != "super":
            rep("superop_reps.to_choi", "choi-dims:%s:%s" % (nm, sc),
                "to_choi(%s) dims/tag %r %r, expected %r choi" % (nm, Jx.dims, Jx.superrep, want_cdims))
        if J is None:
            J = Jx
        # direct call of a Choi object: must be the map or be refused
        try:
            Xq = Qobj(np.eye(n, dtype=complex), dims=[din, din])
            Y = Jx(Xq)
            if not np.array_equal(Y.full(), ref_apply(spec, np.eye(n))):
                rep("qobj.Qobj.__call__", "choi-call-silently-wrong:" + sc,
                    "calling a Choi-tagged Qobj on an operator applies the Choi matrix as a supermatrix")
        except (TypeError, ValueError):
            note("choi-call-refused")
        except Exception as e:
            rep("qobj.Qobj.__call__", "choi-call:raises-%s" % type(e).__name__, str(e)[:200])
    note("choi")

    # ---- (c) there and back
    if J is not None:
        S2 = guarded("superop_reps.to_super", "to_super(choi)", lambda: to_super(J))
        if S2 is not None:
            if not np.array_equal(S2.full(), Sref):
                rep("superop_reps.to_super", "roundtrip-data:" + sc, "to_super(to_choi(S)) != S")
            if S2.dims != want_sdims or S2.superrep != "super":
                rep("superop_reps.to_super", "roundtrip-dims:" + sc,
                    "to_super(to_choi(S)) dims/tag %r %r" % (S2.dims, S2.superrep))
            J2 = guarded("superop_reps.to_choi", "to_choi(to_super(choi))", lambda: to_choi(S2))
            if J2 is not None and (not np.array_equal(J2.full(), Jref) or J2.dims != want_cdims):
                rep("superop_reps.to_choi", "roundtrip2:" + sc, "to_choi(to_super(J)) != J")
        if to_choi(J) is not J and to_choi(J) != J:
            rep("superop_reps.to_choi", "choi-idempotent", "to_choi(choi) changes the object")
    if opers is not None:
        S3 = guarded("superop_reps.to_super", "to_super(oper)", lambda: to_super(opers))
        if S3 is not None and (not np.array_equal(S3.full(), Sref) or S3.dims != want_sdims
                               or S3.superrep != "super"):
            rep("superop_reps.to_super", "oper-to-super:" + sc, "to_super(A) is not A . A^dag")
        kk = guarded("superop_reps.to_kraus", "to_kraus(oper)", lambda: to_kraus(opers))
        if kk is not None and not (len(kk) == 1 and kk[0] == opers):
            rep("superop_reps.to_kraus", "oper-to-kraus", "to_kraus(A) != [A]")
    note("roundtrip")

    # ---- (e) Kraus -> Choi (CP maps given by their Kraus operators)
    if cp_by_construction:
        Ks = [Qobj(L, dims=[dout, din]) for _, L, _ in terms]
        Jk = guarded("superop_reps.kraus_to_choi", "kraus_to_choi", lambda: kraus_to_choi(Ks))
        if Jk is not None:
            same_data = Jk.shape == Jref.shape and np.array_equal(Jk.full(), Jref)
            if not same_data:
                rep("superop_reps.kraus_to_choi", "data:" + sc,
                    "kraus_to_choi(Ks) is not the Choi matrix of X -> sum K X K^dag")
            if Jk.superrep != "choi":
                rep("superop_reps.kraus_to_choi", "tag:" + sc, "superrep %r" % Jk.superrep)
            if Jk.dims != want_cdims:
                swapped = Jk.dims == [[dout, din], [dout, din]]
                rep("superop_reps.kraus_to_choi",
                    ("dims-in-out-swapped:" if (swapped and same_data) else "dims-differ:") +
                    ("rectangular" if rect else "square"),
                    "kraus_to_choi labels %r, to_choi labels %r (same matrix: %s)" % (
                        Jk.dims, want_cdims, same_data),
                    kraus_dims=Jk.dims, choi_dims=want_cdims)
            else:
                Sk = guarded("superop_reps.to_super", "to_super(kraus_to_choi)", lambda: to_super(Jk))
                if Sk is not None and not np.array_equal(Sk.full(), Sref):
                    rep("superop_reps.kraus_to_choi", "to-super-of-kraus-choi:" + sc,
                        "to_super(kraus_to_choi(Ks)) != sum sprepost(K, K^dag)")
            Ssp = guarded("superop_reps.kraus_to_super", "kraus_to_super(sparse)",
                          lambda: qutip.kraus_to_super(Ks, sparse=True))
            if Ssp is not None and (not np.array_equal(Ssp.full(), Sref) or Ssp.dims != want_sdims):
                rep("superop_reps.kraus_to_super", "sparse:" + sc, "kraus_to_super(sparse) wrong")
        note("kraus_to_choi")

    # ---- exact verdicts from the definition
    hp_def = bool(np.array_equal(Jref, Jref.conj().T))
    tr_out = np.einsum("iaja->ij", Jref.reshape(n, m, n, m))
    tp_def = bool(np.array_equal(tr_out, np.eye(n)))
    cp_def = hp_def and exact_psd(Jref)

    # ---- (f) to_kraus on CP maps [validation: eigen-solver inside]
    if cp_def and J is not None:
        ks = guarded("superop_reps.to_kraus", "to_kraus", lambda: to_kraus(S))
        if ks is not None:
            acc = np.zeros_like(Jref)
            okd = True
            for K in ks:
                okd = okd and K.dims == [dout, din]
                v = K.full().reshape(-1, order="F")
                acc = acc + np.outer(v, v.conj())
            if not okd:
                rep("superop_reps.to_kraus", "kraus-dims:" + sc,
                    "Kraus operator dims %r, expected %r" % (ks[0].dims if ks else None, [dout, din]))
            elif np.abs(acc - Jref).max() > VAL_TOL * scale * 10:
                rep("superop_reps.to_kraus", "kraus-map:" + sc,
                    "sum_k vec(K)vec(K)^dag differs from the Choi matrix by %.1e" % np.abs(acc - Jref).max())
        note("to_kraus")

    # ---- (g) chi (qubit systems, in == out)
    chi = None
    if is_qubits(din) and din == dout and n <= 4:
        nq = n.bit_length() - 1
        P = pauli_strings(nq)
        chi = guarded("superop_reps.to_chi", "to_chi", lambda: to_chi(S))
        if chi is not None:
            if chi.dims != want_cdims or chi.superrep != "chi" or chi.type != "super":
                rep("superop_reps.to_chi", "chi-dims:" + sc, "dims/tag %r %r" % (chi.dims, chi.superrep))
            C = chi.full()
            # textbook reading: L(X) = 1/d^2 sum_kl chi_kl P_k X P_l^dag
            Jtext = np.zeros_like(Jref)
            Jtrans = np.zeros_like(Jref)
            vP = [p.reshape(-1, order="F") for p in P]
            vPt = [p.T.reshape(-1, order="F") for p in P]
            for k in range(len(P)):
                for l in range(len(P)):
                    if C[k, l] != 0:
                        Jtext += C[k, l] * np.outer(vP[k], vP[l].conj())
                        Jtrans += C[k, l] * np.outer(vPt[k], vPt[l].conj())
            if not np.array_equal(Jtext, Jref * n * n):
                if np.array_equal(Jtrans, Jref * n * n):
                    rep("superop_reps._superpauli_basis", "chi-in-transposed-pauli-basis",
                        "chi_kl are the coefficients of P_k^T X conj(P_l), not of P_k X P_l^dag "
                        "(the sign of every entry with exactly one sigma_y index is flipped)")
                else:
                    rep("superop_reps.to_chi", "chi-map:" + sc,
                        "1/d^2 sum chi_kl P_k X P_l^dag is not the map")
            Jc = guarded("superop_reps.to_choi", "to_choi(chi)", lambda: to_choi(chi))
            if Jc is not None and (not np.array_equal(Jc.full(), Jref) or Jc.dims != want_cdims
                                   or Jc.superrep != "choi"):
                rep("superop_reps._chi_to_choi", "chi-to-choi:" + sc, "to_choi(to_chi(S)) != to_choi(S)")
            Sc = guarded("superop_reps.to_super", "to_super(chi)", lambda: to_super(chi))
            if Sc is not None and (not np.array_equal(Sc.full(), Sref) or Sc.dims != want_sdims
                                   or Sc.superrep != "super"):
                rep("superop_reps.to_super", "chi-to-super:" + sc, "to_super(to_chi(S)) != S")
            if Jc is not None:
                C2 = guarded("superop_reps.to_chi", "to_chi(to_choi(chi))", lambda: to_chi(Jc))
                if C2 is not None and not np.array_equal(C2.full(), C):
                    rep("superop_reps._choi_to_chi", "chi-roundtrip:" + sc, "to_chi(to_choi(chi)) != chi")
            if opers is not None:
                Co = guarded("superop_reps.to_chi", "to_chi(oper)", lambda: to_chi(opers))
                if Co is not None and not np.array_equal(Co.full(), C):
                    rep("superop_reps.to_chi", "chi-of-oper:" + sc, "to_chi(A) != to_chi(to_super(A))")
        note("chi")

    # ---- (h) Stinespring pair [validation: SVD inside]
    def stine():
        A, B = to_stinespring(S)
        return A, B
    if not Jref.any():
        # the zero map has no non-vanishing singular value: own stable signature
        try:
            AB = stine()
        except Exception as e:
            rep("superop_reps.to_stinespring", "to_stinespring:raises-%s:zero-map" % type(e).__name__,
                "to_stinespring of the zero map raises %s: %s" % (type(e).__name__, str(e)[:120]))
            AB = None
    else:
        AB = guarded("superop_reps.to_stinespring", "to_stinespring", stine)
    if AB is not None:
        A, B = AB
        dK = A.shape[0] // m if m else 0
        if A.dims != [dout + [dK], din] or B.dims != [dout + [dK], din] or A.shape != (m * dK, n):
            rep("superop_reps.to_stinespring", "stinespring-dims:" + sc,
                "A.dims %r B.dims %r shape %r" % (A.dims, B.dims, A.shape))
        else:
            Af, Bf = A.full().reshape(m, dK, n), B.full().reshape(m, dK, n)
            worst = 0.0
            for i in range(n):
                for j in range(n):
                    E = np.zeros((n, n), dtype=complex)
                    E[i, j] = 1
                    Y = np.einsum("aki,ij,bkj->ab", Af, E, Bf.conj())
                    worst = max(worst, np.abs(Y - ref_apply(spec, E)).max())
            if worst > VAL_TOL * scale * 10:
                rep("superop_reps.to_stinespring", "stinespring-map:" + sc,
                    "Tr_2(A X B^dag) differs from the map by %.1e" % worst)
        note("stinespring")

    # ---- (i) predicates: one verdict on every representation, = definition
    reps = [("super", S)]
    if J is not None:
        reps.append(("choi", J))
    if chi is not None:
        reps.append(("chi", chi))
    if opers is not None:
        reps.append(("oper", opers))
    for pname, pdef in (("ishp", hp_def), ("istp", tp_def), ("iscp", cp_def),
                        ("iscptp", cp_def and tp_def)):
        for rn, q in reps:
            try:
                with warnings.catch_warnings():
                    warnings.simplefilter("ignore")
                    v = bool(getattr(q, pname))
            except Exception as e:
                rep("qobj.Qobj." + pname, "%s:raises-%s:%s" % (rn, type(e).__name__, sc),
                    "%s on the %s representation raises %s" % (pname, rn, e))
                continue
            if v != pdef:
                rep("qobj.Qobj." + pname,
                    "chi:verdict-differs-from-definition" if rn == "chi" else
                    "%s:verdict-%s-definition-%s" % (rn, v, pdef),
                    "%s on the %s representation says %s, the definition says %s" % (
                        pname, rn, v, pdef))
    note("predicates")
    note("cp" if cp_def else ("hp-not-cp" if hp_def else "not-hp"))
    note("tp" if tp_def else "not-tp")

    # ---- (j) dual channel of a CP map
    if cp_def:
        D = guarded("qobj.Qobj.dual_chan", "dual_chan", lambda: S.dual_chan())
        if D is not None:
            dspec = {"din": dout, "dout": din,
                     "terms": [{"c": c, "L": gz_list(L.conj().T), "R": None} for c, L, R in terms]}
            if cp_by_construction:
                Dref = ref_choi(dspec)
                if D.shape != Dref.shape or not np.array_equal(D.full(), Dref):
                    rep("qobj.Qobj.dual_chan", "dual-data:" + sc,
                        "dual_chan is not the Choi matrix of Y -> sum K^dag Y K")
                if D.dims != [[dout, din], [dout, din]] or D.superrep != "choi":
                    rep("qobj.Qobj.dual_chan", "dual-dims:" + sc, "dims/tag %r %r" % (D.dims, D.superrep))
        note("dual")

    # ---- (k) history: the same conversions on objects whose cached flags were
    # evaluated beforehand (isherm / isunitary / str) and on objects built by
    # spre / spost / sprepost from operators with known flags.  Everything read
    # after a conversion is compared with a recomputation from the bare matrix
    # and with the never-inspected run above (Jref / Sref / chi).
    def touch(q):
        try:
            q.isherm
            q.isunitary
            str(q)
        except Exception:
            pass
        return q

    def build_fresh():
        qq = [c * sprepost(Qobj(L, dims=[dout, din]), Qobj(R, dims=[dout, din]).dag())
              for c, L, R in terms]
        out = qq[0]
        for q in qq[1:]:
            out = out + q
        return out

    def build_constructed():
        c, L, R = terms[0]
        Lq, Rq = touch(Qobj(L, dims=[dout, din])), touch(Qobj(R, dims=[dout, din]))
        if spec["build"] == "spre":
            return qutip.spre(Lq)
        if spec["build"] == "spost":
            return qutip.spost(Rq)
        return sprepost(Lq, Rq)

    def check_obj(site, label, q, Mref, want_dims_, want_tag):
        """flags / dag / data of one object against its bare matrix"""
        M = q.full()
        if Mref is not None and (M.shape != Mref.shape or not np.array_equal(M, Mref)):
            rep(site, "history:data:" + label, "%s: data differs from the never-inspected run" % label)
            return
        if want_dims_ is not None and (q.dims != want_dims_ or q.superrep != want_tag):
            rep(site, "history:dims:" + label, "%s: dims/tag %r %r" % (label, q.dims, q.superrep))
        sq = M.shape[0] == M.shape[1]
        herm = bool(sq and np.array_equal(M, M.conj().T))
        try:
            if bool(q.isherm) != herm:
                rep(site, "history:isherm-flag:" + label,
                    "%s: isherm says %s, the matrix is %sHermitian" % (label, q.isherm, "" if herm else "not "))
            if not np.array_equal(q.dag().full(), M.conj().T):
                rep(site, "history:dag:" + label, "%s: dag() is not the conjugate transpose" % label)
            if gz_list(M) is not None:
                # qutip defines isunitary as False for everything that is not type 'oper'
                unit = bool(q.type == "oper" and sq
                            and np.array_equal(M @ M.conj().T, np.eye(M.shape[0]))
                            and np.array_equal(M.conj().T @ M, np.eye(M.shape[0])))
                if bool(q.isunitary) != unit:
                    rep(site, "history:isunitary-flag:" + label,
                        "%s: isunitary says %s, recomputed %s" % (label, q.isunitary, unit))
        except Exception as e:
            rep(site, "history:raises-%s:%s" % (type(e).__name__, label), str(e)[:200])

    def check_preds(label, q):
        for pname, pdef in (("ishp", hp_def), ("istp", tp_def), ("iscp", cp_def),
                            ("iscptp", cp_def and tp_def)):
            try:
                with warnings.catch_warnings():
                    warnings.simplefilter("ignore")
                    v = bool(getattr(q, pname))
            except Exception as e:
                rep("qobj.Qobj." + pname, "history:raises-%s:%s" % (type(e).__name__, label), str(e)[:200])
                continue
            if v != pdef:
                rep("qobj.Qobj." + pname, "history:verdict:%s" % label,
                    "%s on %s says %s, the definition says %s (a never-inspected copy is checked above)"
                    % (pname, label, v, pdef))

    variants = []
    try:
        variants.append(("inspected", touch(build_fresh())))
        if spec.get("build"):
            variants.append(("constructed", build_constructed()))
    except Exception as e:
        rep("superoperator.sprepost", "history:build-raises-%s" % type(e).__name__, str(e)[:200])
    Cref = chi.full() if chi is not None else None
    for vn, Sv in variants:
        with warnings.catch_warnings():
            warnings.simplefilter("ignore")
            try:
                check_obj("superoperator.sprepost", "super:" + vn, Sv, Sref, want_sdims, "super")
                check_preds("super:" + vn, Sv)
                Jv = to_choi(Sv)
                check_obj("superop_reps.to_choi", "to_choi(super:%s)" % vn, Jv, Jref, want_cdims, "choi")
                check_preds("to_choi(super:%s)" % vn, Jv)
                # Jv has now been inspected: convert it back
                S2v = to_super(touch(Jv))
                check_obj("superop_reps.to_super", "to_super(choi:inspected)", S2v, Sref, want_sdims, "super")
                check_preds("to_super(choi:inspected)", S2v)
                if Cref is not None:
                    Cv = to_chi(Sv)
                    check_obj("superop_reps.to_chi", "to_chi(super:%s)" % vn, Cv, Cref, want_cdims, "chi")
                    check_preds("to_chi(super:%s)" % vn, Cv)
                    Cv2 = to_chi(Jv)
                    check_obj("superop_reps.to_chi", "to_chi(choi:inspected)", Cv2, Cref, want_cdims, "chi")
                    Jc = to_choi(touch(Cv))
                    check_obj("superop_reps.to_choi", "to_choi(chi:inspected)", Jc, Jref, want_cdims, "choi")
                    Sc2 = to_super(Cv)
                    check_obj("superop_reps.to_super", "to_super(chi:inspected)", Sc2, Sref, want_sdims, "super")
                if cp_def and cp_by_construction:
                    Dv = Sv.dual_chan()
                    dspec2 = {"din": dout, "dout": din,
                              "terms": [{"c": c, "L": gz_list(L.conj().T), "R": None} for c, L, R in terms]}
                    check_obj("qobj.Qobj.dual_chan", "dual_chan(super:%s)" % vn, Dv, ref_choi(dspec2),
                              [[dout, din], [dout, din]], "choi")
            except Exception as e:
                rep("superop_reps.to_choi", "history:raises-%s:%s:%s" % (type(e).__name__, vn, sc), str(e)[:200])
    if opers is not None:
        with warnings.catch_warnings():
            warnings.simplefilter("ignore")
            try:
                Ov = touch(Qobj(terms[0][1], dims=[dout, din]))
                check_preds("oper:inspected", Ov)
                check_obj("superop_reps.to_super", "to_super(oper:inspected)", to_super(Ov), Sref,
                          want_sdims, "super")
                Jo = to_choi(Ov)
                check_obj("superop_reps.to_choi", "to_choi(oper:inspected)", Jo, Jref, want_cdims, "choi")
                check_preds("to_choi(oper:inspected)", Jo)
                if Cref is not None:
                    check_obj("superop_reps.to_chi", "to_chi(oper:inspected)", to_chi(Ov), Cref,
                              want_cdims, "chi")
            except Exception as e:
                rep("superop_reps.to_choi", "history:raises-%s:oper:%s" % (type(e).__name__, sc), str(e)[:200])
    note("history")
    return bad


# ===================================================================== run
def report(ctx, findings, spec):
    for site, sig, what, extra in findings:
        ctx.violation(site, sig, what, {"map": spec, "extra": extra})


def run(ctx):
    rng = random.Random(ctx.seed * 7919 + 8)
    ctx.cov["rule"] = (
        "correspondence case = (conversion or predicate, input object with Gaussian-integer "
        "data, dims labels and tag); compared exactly (flat data, four dims lists, tag, "
        "error class); non-trivial when the object has more than one entry and the call "
        "does not fail.  oracle case = one exactly described map (sum_k c_k L_k X R_k^dag, "
        "integer matrices) pushed through every representation of the real implementation, "
        "from a never-inspected object, from a copy whose cached flags (isherm, isunitary, str) "
        "were evaluated first, and - for spre/spost/sprepost of Hermitian operators - from "
        "objects built by qutip's constructors with known flags; flags, dag() and predicates "
        "after each conversion are compared with a recomputation from the bare matrix.")
    ctx.cov["trusted_base"] += [
        "Model/C08.v is hand-written; tied to superop_reps.py / qobj.py by exact "
        "correspondence on generated inputs and by the ast translator "
        "tools/tx_c08_shuffle.py for the literal reshape/transpose/new_dims of _super_tofrom_choi",
        "Section variables of Proofs/C08_alg.v: an involutive ring morphism conj on a "
        "commutative ring; i with i*i = -1 and conj i = -i; spectral / singular value "
        "decompositions and square roots are hypotheses of the theorems that use them "
        "(eigenstates, scipy.linalg.svd, numpy.sqrt are not verified)",
        "NumPy reshape/transpose/tensordot/kron semantics as modelled by "
        "unravel/ravel/tr_src in Model/C08.v",
        "thresholds (tol, atol, threshold) of to_kraus / iscp / istp / to_stinespring "
        "are outside the theorems; inputs of the exact comparisons are integers",
    ]

    # ------------------------------------------------------------ proofs
    def search(failed, log):
        r2 = random.Random(ctx.seed + 101)
        for _ in range(400):
            spec = gen_map(r2, 4)
            f = oracle_map(spec)
            f = [x for x in f if not is_known(ctx, x)]
            if f:
                site, sig, what, extra = f[0]
                ctx.violation(site, sig, what, {"map": spec, "extra": extra,
                                                "failed_theorems": failed})
                return

    tx_ok = True
    try:
        import tx_c08_shuffle
        gen_info = tx_c08_shuffle.generate()
        ctx.cov["translator"] = gen_info
    except Exception as e:       # fail closed
        tx_ok = False
        ctx.add_obligation("tx_c08_shuffle: source within the translated subset", False)
        before = len(ctx.violations) + len(ctx.known)
        search(["tx_c08_shuffle"], str(e))
        if len(ctx.violations) + len(ctx.known) == before:
            ctx.violation("tx:superop_reps._super_tofrom_choi", "outside-subset",
                          "translator refused the source: %s" % e, {"error": str(e)},
                          found_input=False)
    targets = ["Props/C08.vo", "Props/C08_alg.vo", "Props/C08_ext.vo", "Props/C08_alg2.vo",
               "Props/C08_pred.vo", "Props/C08_alg3.vo"]
    props = ["Props/C08.v", "Props/C08_alg.v", "Props/C08_ext.v", "Props/C08_alg2.v",
             "Props/C08_pred.v", "Props/C08_alg3.v"]
    if tx_ok:
        targets.append("Gen/C08_shuffle.vo")
        props.append("Gen/C08_shuffle.v")
    targets = [t for t in targets if os.path.exists(os.path.join(vlib.COQ, t[:-1]))]
    props = [p for p in props if os.path.exists(os.path.join(vlib.COQ, p))]
    vlib.standard_proof_step(ctx, targets, props, search)

    # ------------------------------------------------- correspondence (K)
    nconv = 140 if ctx.quick else 1400
    cases = []          # (family, payload, expr, impl_value, canon_fn)
    dist = {}

    def add(fam, payload, expr, impl, canon, nontrivial):
        cases.append((fam, payload, expr, impl, canon))
        dist[fam] = dist.get(fam, 0) + 1
        ctx.count_case((fam, json.dumps(payload, sort_keys=True)), nontrivial=nontrivial)

    cdir = os.path.join(vlib.VERIF, "corpus", "C08")
    corpus = []
    if os.path.isdir(cdir):
        for f in sorted(os.listdir(cdir)):
            corpus.append(json.load(open(os.path.join(cdir, f))))
    for c in corpus:
        if c.get("family") == "conv":
            op, o = c["op"], c["obj"]
            add("conv:" + op, c, model_conv_expr(op, o), impl_conv(op, o),
                lambda v, op=op: model_conv_canon(op, v), True)

    maxdim = 4 if ctx.quick else 6
    for k in range(nconv):
        r = rng.random()
        if r < 0.12:
            o = gen_super(rng, 3, malformed=True)
        elif r < 0.45:
            o = gen_super(rng, maxdim)
        elif r < 0.6:
            o = gen_super(rng, 4, qubit=True)
        elif r < 0.85:
            o = gen_oper(rng, maxdim)
        else:
            o = gen_oper(rng, 4, qubit=True)
        size = len(o["data"])
        if size > (256 if ctx.quick else 1300):
            continue
        ops = ["to_choi", "to_super", "ishp", "istp"]
        if o.get("rep") == "chi":
            ops = ["to_chi", "chi_to_choi", "istp"]
        small_q = o["kind"] == "super" and size <= 256 or o["kind"] == "oper" and size <= 16
        if small_q and rng.random() < 0.6:
            ops.append("to_chi")
        for op in rng.sample(ops, 2):
            iv = impl_conv(op, o)
            if isinstance(iv, tuple) and iv and iv[0] == "ctor":
                continue
            add("conv:" + op, {"family": "conv", "op": op, "obj": o},
                model_conv_expr(op, o), iv,
                lambda v, op=op: model_conv_canon(op, v),
                size > 1 and not (isinstance(iv, tuple) and iv and iv[0] == "err"))
    # chi objects: chi -> choi (dyadic, compared after the exact scaling), istp on chi
    for k in range(24 if ctx.quick else 120):
        o = gen_super(rng, 4, qubit=True)
        if len(o["data"]) > 256:
            continue
        o["rep"] = "chi"
        i_, o_ = o["dims"][0], o["dims"][1]
        if k % 3 == 0 and o["dims"][0] == o["dims"][1] == o["dims"][2] == o["dims"][3]:
            # chi matrix of a Pauli-string conjugation (a TP map): N at one diagonal slot
            N = prod(i_) * prod(o_)
            slot = rng.randrange(N)
            o["data"] = [[N if (t == slot * N + slot) else 0, 0] for t in range(N * N)]
        for op in ("chi_to_choi", "istp"):
            iv = impl_conv(op, o)
            if isinstance(iv, tuple) and iv and iv[0] == "ctor":
                continue
            add("conv:" + op + ":chi", {"family": "conv", "op": op, "obj": o},
                model_conv_expr(op, o), iv, lambda v, op=op: model_conv_canon(op, v),
                not (isinstance(iv, tuple) and iv and iv[0] == "err"))
    # kraus_to_choi
    for k in range(40 if ctx.quick else 300):
        K0 = gen_oper(rng, maxdim)
        if K0["kind"] != "oper":
            continue
        ks = [K0]
        for _ in range(rng.randint(0, 2)):
            K = dict(K0)
            K["data"] = rgz(rng, K0["m"] * K0["n"])
            if rng.random() < 0.08:
                K = gen_oper(rng, maxdim)          # malformed: other shape
            ks.append(K)
        if sum(len(k["data"]) for k in ks) > 80:
            continue
        iv = impl_kraus(ks)
        expr = "let r := kraus_to_choi %s in (observe r, err_code r)" % clist(ks, c_oper)
        add("kraus_to_choi", {"family": "kraus", "ks": ks}, expr, iv, canon_model_obs,
            not (iv and iv[0] == "err"))
    # dual_chan of CP maps given exactly (supermatrix, Choi matrix or plain operator)
    for k in range(18 if ctx.quick else 150):
        spec = gen_map(rng, 4, rng.choice(["cp", "cp1", "measure", "isometry", "unitary"]))
        if prod(spec["din"]) * prod(spec["dout"]) > 12:
            continue
        din_, dout_ = spec["din"], spec["dout"]
        form = rng.choice(["super", "choi", "oper"])
        if form == "oper" and not (spec.get("as_oper") and len(spec["terms"]) == 1):
            form = "super"
        if form == "super":
            o = {"kind": "super", "dims": [dout_, dout_, din_, din_], "rep": "super",
                 "data": gz_list(ref_super(spec))}
        elif form == "choi":
            o = {"kind": "super", "dims": [din_, dout_, din_, dout_], "rep": "choi",
                 "data": gz_list(ref_choi(spec))}
        else:
            o = {"kind": "oper", "m": prod(dout_), "n": prod(din_), "dl": dout_, "dr": din_,
                 "data": spec["terms"][0]["L"]}
        try:
            with warnings.catch_warnings():
                warnings.simplefilter("ignore")
                iv = canon_super(mk_qobj(o).dual_chan())
        except Exception as e:
            iv = ("err", err_name(e))
        add("dual_chan", {"family": "dual", "obj": o},
            "let r := dual_chan %s in (observe r, err_code r)" % c_qobj(o), iv, canon_model_obs,
            not (iv and iv[0] == "err"))
    # _choi_to_kraus after the eigen-solver (exact stand-in for eigenstates)
    for k in range(14 if ctx.quick else 120):
        ind = list(rng.choice([s_ for s_ in SUBSYS if 1 < prod(s_) <= 4]))
        outd = list(ind) if rng.random() < 0.4 else list(
            rng.choice([s_ for s_ in SUBSYS if 1 < prod(s_) <= 4]))
        N = prod(ind) * prod(outd)
        L = rng.randint(1, 3)
        c = {"in": ind, "out": outd,
             "sq": [[rng.choice([0, 1, 2, 3]), 0] for _ in range(L)],
             "vecs": [rgz(rng, N) for _ in range(L)]}
        try:
            iv = impl_choi_to_kraus(c)
        except Exception as e:
            iv = ("err", type(e).__name__, str(e)[:100])
        expr = ("map (fun K => (o_data K, o_dl K, o_dr K, [o_m K; o_n K]%%nat)) "
                "(choi_to_kraus_from (mkS [] ((%s, %s), (%s, %s)) Choi) %s %s)" % (
                    c_nl(ind), c_nl(outd), c_nl(ind), c_nl(outd), c_gz(c["sq"]),
                    clist(c["vecs"], c_gz)))
        add("choi_to_kraus", {"family": "ctk", "c": c}, expr, iv,
            lambda v: [[[list(x) for x in t[0]], list(t[1]), list(t[2]), list(t[3])] for t in v],
            any(x != 0 for x, _ in c["sq"]))
    # Pauli basis
    for nq in ([1, 2] if ctx.quick else [1, 2, 3]):
        add("superpauli", {"family": "pauli", "nq": nq}, "superpauli %s" % cnat(nq),
            impl_pauli(nq), lambda v: [list(x) for x in v], nq > 0)
    # Stinespring assembly with exact stand-ins for the SVD factors
    for k in range(12 if ctx.quick else 80):
        outd = list(rng.choice([s_ for s_ in SUBSYS if 1 < prod(s_) <= 4]))
        ind = list(outd) if rng.random() < 0.4 else list(
            rng.choice([s_ for s_ in SUBSYS if 1 < prod(s_) <= 4]))
        dO, dI = prod(outd), prod(ind)
        dK = rng.randint(1, 3)
        c = {"dO": dO, "dI": dI, "dK": dK, "U": rgz(rng, dO * dI * dK),
             "S": rgz(rng, dK, 1, 3, 0.0, real=True), "indims": ind, "outdims": outd}
        iv = impl_svdk(c)
        expr = ("map (fun K => (o_data K, o_dl K, o_dr K, [o_m K; o_n K]%%nat)) "
                "(svd_u_to_kraus %s %s %s %s %s %s %s)" % (
                    c_gz(c["U"]), c_gz(c["S"]), cnat(dO), cnat(dI), cnat(dK),
                    c_nl(c["indims"]), c_nl(c["outdims"])))
        add("svd_u_to_kraus", {"family": "svdk", "c": c}, expr, iv,
            lambda v: [[[list(x) for x in t[0]], list(t[1]), list(t[2]), list(t[3])] for t in v],
            True)
        # block assembly
        kU = [{"kind": "oper", "m": dO, "n": dI, "dl": outd, "dr": ind, "data": rgz(rng, dO * dI)}
              for _ in range(dK)]
        kV = [{"kind": "oper", "m": dO, "n": dI, "dl": outd, "dr": ind, "data": rgz(rng, dO * dI)}
              for _ in range(dK)]
        c2 = {"kU": kU, "kV": kV, "jdims": [[ind, outd], [ind, outd]]}
        try:
            iv2 = impl_stine_block(c2)
            iv2 = [iv2[0], iv2[3], iv2[1], iv2[4]]
        except Exception as e:
            iv2 = ("err", type(e).__name__, str(e)[:100])
        expr2 = "(stinespring_block %s %s %s, stinespring_block %s %s %s)" % (
            clist(kU, c_oper), cnat(dO), cnat(dI), clist(kV, c_oper), cnat(dO), cnat(dI))
        want_dims = [outd + [dK], ind]
        add("stinespring_block", {"family": "stine", "c": c2}, expr2, iv2,
            lambda v, wd=want_dims: [[list(x) for x in v[0]], [list(x) for x in v[1]], wd, wd], True)

    try:
        vals = vlib.coq_eval_values("cases_C08", HEADER, [c[2] for c in cases], chunk=60)
    except RuntimeError as e:
        ctx.violation("corr:C08:model-eval", "coqc", "model evaluation failed",
                      {"log": str(e)}, found_input=False)
        vals = None
    mism = 0
    fam_mism = {}
    if vals is not None:
        for (fam, payload, expr, iv, canon), s in zip(cases, vals):
            mv = canon(vlib.parse_coq_value(s))
            ivc = _norm(iv)
            mvc = _norm(mv)
            ctx.cov["traces_validated_against_impl"] += 1
            if ivc != mvc:
                mism += 1
                fam_mism[fam] = fam_mism.get(fam, 0) + 1
                if fam_mism[fam] <= 1:
                    ctx.violation("corr:" + fam, "model-differs",
                                  "model and implementation disagree on %s" % fam,
                                  {"case": payload, "impl": _short(ivc), "model": _short(mvc)},
                                  found_input=True)
        ctx.sample({"family": cases[0][0], "case": _short(cases[0][1]), "impl": _short(cases[0][3])})
        ctx.sample({"family": cases[-1][0], "case": _short(cases[-1][1]), "impl": _short(cases[-1][3])})
    ctx.log("correspondence: %d cases, %d mismatches; families %s" % (len(cases), mism, dist))

    # --------------------------------------- refuted-theorem witnesses, replayed
    replay_witnesses(ctx)

    # ------------------------------------------------ oracle (always runs)
    nmaps = 60 if ctx.quick else 1000
    stats = {}
    kinds = {}
    cdir2 = [c for c in corpus if c.get("family") == "map"]
    specs = [c["map"] for c in cdir2]
    forced = ["cp", "hp", "gen", "unitary", "isometry", "measure", "transpose", "tpmix", "cp1",
              "spre", "spost", "sprepost_h"]
    while len(specs) < nmaps:
        want = forced[len(specs)] if len(specs) < len(forced) else None
        specs.append(gen_map(rng, 4 if ctx.quick else 6, want))
    for spec in specs:
        if prod(spec["din"]) * prod(spec["dout"]) > (16 if ctx.quick else 30):
            continue
        f = oracle_map(spec, stats)
        kinds[spec["kind"] + ":" + _shape_class(spec)] = kinds.get(
            spec["kind"] + ":" + _shape_class(spec), 0) + 1
        ctx.count_case(("map", json.dumps(spec, sort_keys=True)),
                       nontrivial=prod(spec["din"]) * prod(spec["dout"]) > 1)
        report(ctx, f, spec)
    ctx.sample({"oracle_map": _short(specs[-1])})
    ctx.log("oracle: %d maps; checks %s" % (len(specs), stats))
    dist_all = {"correspondence_families": dist, "oracle_map_kinds": kinds,
                "oracle_checks": stats,
                "payload": "Gaussian integers in [-3,3]^2 (30%% zeros); subsystem lists from %r; "
                           "12%% of super inputs are malformed (unrelated dims lists, chi tag)" % SUBSYS}
    ctx.cov["input_distribution"] = dist_all
    ctx.cov["explanation"] = (
        "Props/C08.v: for every pair of sizes the reshape/transpose of _super_tofrom_choi sends "
        "entry ((b*out+a),(j*in+i)) to ((i*out+a),(j*out+b)), is an involution on data, dims and tag, "
        "kraus_to_choi has entries sum_k K[a,i] conj K[b,j]; Props/C08_alg.v: these entries are the "
        "Choi matrix of the map, TP/HP criteria, Kraus / Stinespring / chi round trips over any "
        "commutative ring with involution.  The executable model is compared exactly with the "
        "implementation; the oracle pushes exactly described maps through every representation.")
    ctx.notes.append("Calling a Choi- or chi-tagged Qobj on an operator is refused with TypeError on this "
                     "tree (%d refusals seen); a silent different result would be reported." %
                     stats.get("choi-call-refused", 0))


def _jd(o):
    if isinstance(o, np.integer):
        return int(o)
    return str(o)


def _norm(x):
    return json.loads(json.dumps(x, default=_jd))


def _short(x, lim=1500):
    s = json.dumps(x, default=str)
    return x if len(s) <= lim else s[:lim] + "..."


def is_known(ctx, finding):
    site, sig = finding[0], finding[1]
    for k in ctx.known_findings:
        if (k.get("property") == "C08" and k.get("status") == "known"
                and k["match"].get("site") == site and k["match"].get("signature") == sig):
            return True
    return False


# ------------------------------------------------ witnesses of refuted theorems
ISO_2_4 = {"din": [2], "dout": [2, 2], "kind": "isometry", "as_oper": True,
           "terms": [{"c": 1, "L": [[1, 0], [0, 0], [0, 0], [0, 0], [0, 0], [0, 0], [0, 0], [1, 0]],
                      "R": None}]}
IDENT_Q = {"din": [2], "dout": [2], "kind": "unitary", "as_oper": True,
           "terms": [{"c": 1, "L": [[1, 0], [0, 0], [0, 0], [1, 0]], "R": None}]}
YROT = {"din": [2], "dout": [2], "kind": "cp1", "as_oper": True,      # 1 - i*sigma_y = [[1,-1],[1,1]]
        "terms": [{"c": 1, "L": [[1, 0], [-1, 0], [1, 0], [1, 0]], "R": None}]}
RECT_2_3 = {"din": [2], "dout": [3], "kind": "cp1", "as_oper": True,
            "terms": [{"c": 1, "L": [[1, 0], [0, 0], [0, 1], [2, 0], [0, 0], [-1, 0]], "R": None}]}


ZERO_MAP = {"din": [2], "dout": [2], "kind": "spre", "as_oper": False,
            "terms": [{"c": 1, "L": [[0, 0]] * 4, "R": [[1, 0], [0, 0], [0, 0], [1, 0]]}]}


def replay_witnesses(ctx):
    """The concrete witnesses of the C08_*_refuted theorems, on the real code."""
    for spec in (ISO_2_4, IDENT_Q, YROT, RECT_2_3, ZERO_MAP):
        f = oracle_map(spec)
        report(ctx, f, spec)
        ctx.count_case(("witness", json.dumps(spec, sort_keys=True)))


def replay(ctx, payload):
    d = payload["detail"]
    if "map" in d:
        f = oracle_map(d["map"])
        hit = [x for x in f if x[0] == payload["site"] and x[1] == payload["signature"]] or f
        for site, sig, what, extra in hit[:1]:
            ctx.violation(site, sig, what, {"map": d["map"], "extra": extra})
    elif "case" in d and d["case"].get("family") == "ctk":
        c = d["case"]["c"]
        try:
            iv = impl_choi_to_kraus(c)
        except Exception as e:
            iv = ("err", type(e).__name__, str(e)[:100])
        expr = ("map (fun K => (o_data K, o_dl K, o_dr K, [o_m K; o_n K]%%nat)) "
                "(choi_to_kraus_from (mkS [] ((%s, %s), (%s, %s)) Choi) %s %s)" % (
                    c_nl(c["in"]), c_nl(c["out"]), c_nl(c["in"]), c_nl(c["out"]), c_gz(c["sq"]),
                    clist(c["vecs"], c_gz)))
        vals = vlib.coq_eval_values("replay_C08", HEADER, [expr])
        mv = [[[list(x) for x in t[0]], list(t[1]), list(t[2]), list(t[3])]
              for t in vlib.parse_coq_value(vals[0])]
        if _norm(iv) != _norm(mv):
            ctx.violation(payload["site"], payload["signature"], payload["what"],
                          {"case": d["case"], "impl": _short(iv), "model": _short(mv)})
    elif "case" in d and d["case"].get("family") == "dual":
        o = d["case"]["obj"]
        try:
            with warnings.catch_warnings():
                warnings.simplefilter("ignore")
                iv = canon_super(mk_qobj(o).dual_chan())
        except Exception as e:
            iv = ("err", err_name(e))
        vals = vlib.coq_eval_values("replay_C08", HEADER,
                                    ["let r := dual_chan %s in (observe r, err_code r)" % c_qobj(o)])
        mv = canon_model_obs(vlib.parse_coq_value(vals[0]))
        if _norm(iv) != _norm(mv):
            ctx.violation(payload["site"], payload["signature"], payload["what"],
                          {"case": d["case"], "impl": _short(iv), "model": _short(mv)})
    elif "case" in d and d["case"].get("family") == "conv":
        c = d["case"]
        iv = impl_conv(c["op"], c["obj"])
        vals = vlib.coq_eval_values("replay_C08", HEADER, [model_conv_expr(c["op"], c["obj"])])
        mv = model_conv_canon(c["op"], vlib.parse_coq_value(vals[0]))
        if _norm(iv) != _norm(mv):
            ctx.violation(payload["site"], payload["signature"], payload["what"],
                          {"case": c, "impl": _short(iv), "model": _short(mv)})
