"""C12 implementation-level oracle: the property itself, checked on the
objects returned by the real solvers (2-level systems) over the product
solver x store/keep options x e_ops form, plus the comparison of each
single-trajectory result with the structure the Coq model predicts (K3).

Alignment is checked without comparing rounded floats: callback e_ops log
(t, digest of the state bytes they were handed); stored states are compared
to those digests and to a reference run of the same problem by digest
(bit-for-bit); expectation values are compared with a bit-identical
recomputation on the stored / reference state.  An independent NumPy formula
with a tolerance is used only as a labelled validation of the value
(`value-validation`).
"""
import hashlib
import itertools
import json
import warnings

import numpy as np

import vlib


def _dig(x):
    """digest of a state (Qobj or HierarchyADOsState)."""
    if x is None:
        return None
    if hasattr(x, "_ado_state"):
        a = np.ascontiguousarray(np.asarray(x._ado_state))
        return "A" + hashlib.sha1(a.tobytes()).hexdigest()[:16]
    a = np.ascontiguousarray(x.full())
    return hashlib.sha1(a.tobytes() + repr(x.dims).encode()).hexdigest()[:16]


def _sysstate(x):
    return x.rho if hasattr(x, "_ado_state") else x


def cb_value(t, state):
    m = _sysstate(state).full()
    return float(t) * 0.5 + float(m[0, 0].real)


class _Snap:
    """independent copy of a HierarchyADOsState taken while the solver runs"""
    def __init__(self, ado):
        self.rho = ado.rho.copy()
        self._ado_state = np.array(np.asarray(ado._ado_state), copy=True)


def _snapshot(state):
    return _Snap(state) if hasattr(state, "_ado_state") else state.copy()


class CB:
    """callback e_op: logs, at the moment it is called, the time, the digest
    of the bytes of the state it was handed, the digest of its system part,
    and an independent copy of the state.  These *live* records are the
    reference everything stored in the result is compared with after the
    run has finished (so an entry that aliases a solver buffer shows)."""
    def __init__(self):
        self.log = []
        self.sys = []
        self.snaps = []

    def __call__(self, t, state):
        self.log.append((float(t), _dig(state)))
        self.sys.append(_dig(_sysstate(state)))
        self.snaps.append(_snapshot(state))
        return cb_value(t, state)


def _dig_raw(x):
    """digest of the matrix entries only (no dims)"""
    return hashlib.sha1(np.ascontiguousarray(x.full()).tobytes()).hexdigest()[:16]


def _coef(t, *a, **kw):
    return 2.0 ** float(t)


FORMS = ["none", "singleQ", "singleC", "singleE", "list", "tuple", "dict", "emptylist",
         "emptydict"]


def build_eops(form):
    """-> (python e_ops object, [(key, kind, op)], model eops)"""
    import qutip as qt
    sz, sx = qt.sigmaz(), qt.sigmax()
    evo = qt.QobjEvo([sz, _coef])
    cb = CB()
    if form == "none":
        return None, [], ("none", None)
    if form == "singleQ":
        return sz, [(0, "Q", sz)], ("single", ("Q", 0))
    if form == "singleC":
        return cb, [(0, "C", cb)], ("single", ("C", 0))
    if form == "singleE":
        return evo, [(0, "E", evo)], ("single", ("E", 0))
    if form in ("list", "tuple"):
        items = [(0, "Q", sz), (1, "C", cb), (2, "E", evo), (3, "Q", sx)]
        seq = [o for _, _, o in items]
        return (seq if form == "list" else tuple(seq)), items, (
            form, [(k, i) for i, (_, k, _) in enumerate(items)])
    if form == "dict":
        items = [("u7", "C", cb), (3, "Q", sx), ("u1", "E", evo), (0, "Q", sz)]
        return {k: o for k, _, o in items}, items, (
            "dict", [(key, (k, i)) for i, (key, k, _) in enumerate(items)])
    if form == "emptylist":
        return [], [], ("list", [])
    return {}, [], ("dict", [])


def eval_op(kind, op, t, state, solver):
    """bit-identical recomputation of what the result object is documented to
    store; returns the list of acceptable exact values."""
    import qutip as qt
    s = _sysstate(state)
    if kind == "Q":
        vals = [qt.expect(op, s)]
        if solver == "heomsolve":
            vals.append((s * op).tr())
        return vals
    if kind == "E":
        return [op.expect(t, s)]
    return [cb_value(t, state)]


def numpy_value(kind, op, t, state):
    s = _sysstate(state).full()
    if s.shape[1] == 1:
        s = s @ s.conj().T
    if kind == "Q":
        return np.trace(op.full() @ s)
    if kind == "E":
        return _coef(t) * np.trace(op(0).full() @ s) / _coef(0)
    return cb_value(t, state)


# ---------------------------------------------------------------- solvers
SINGLE = ["sesolve", "mesolve", "mesolve_ket", "brmesolve", "krylovsolve", "fsesolve",
          "fmmesolve", "heomsolve"]
MULTI = ["mcsolve", "mcsolve_improved", "nm_mcsolve", "ssesolve", "smesolve", "smesolve_het"]

_CACHE = {}


def _fl_H():
    import qutip as qt
    return [qt.sigmaz() * 0.5, [qt.sigmax() * 0.25, lambda t: np.cos(2 * np.pi * t)]]


INITS = {
    "sesolve": ["ket", "ket_unnorm", "oper"],
    "mesolve": ["dm", "dm_unnorm", "ket", "ket_unnorm"],
    "mesolve_ket": ["ket"],
    "brmesolve": ["ket", "ket_unnorm", "dm_unnorm"],
    "krylovsolve": ["ket"],     # the Krylov integrator's error control assumes a unit ket

    "fsesolve": ["ket", "ket_unnorm"],
    "fmmesolve": ["dm", "dm_unnorm"],
    "heomsolve": ["dm", "dm_unnorm"],
    "mcsolve": ["ket"], "mcsolve_improved": ["ket"], "nm_mcsolve": ["ket"],
    "ssesolve": ["ket"], "smesolve": ["dm", "ket"], "smesolve_het": ["dm"],
}
DEFAULT_INIT = {k: v[0] for k, v in INITS.items()}
DEFAULT_INIT["mesolve"] = "dm"


def solver_methods(name):
    """every integration method registered for the solver class behind `name`
    (read from the tree under test), minus the combinations that are not
    applicable to the test problem."""
    import qutip as qt
    from qutip.solver.heom import HEOMSolver
    from qutip.solver.floquet import FMESolver
    from qutip.solver.nm_mcsolve import NonMarkovianMCSolver
    cls = {"sesolve": qt.SESolver, "mesolve": qt.MESolver, "mesolve_ket": qt.MESolver,
           "brmesolve": qt.BRSolver, "fmmesolve": FMESolver, "heomsolve": HEOMSolver,
           "mcsolve": qt.MCSolver, "mcsolve_improved": qt.MCSolver,
           "nm_mcsolve": NonMarkovianMCSolver, "ssesolve": qt.SSESolver,
           "smesolve": qt.SMESolver, "smesolve_het": qt.SMESolver}.get(name)
    if cls is None:
        return [None]                 # krylovsolve / fsesolve choose their own
    ms = sorted(cls.avail_integrators().keys())
    if name == "nm_mcsolve":
        ms = [m for m in ms if m != "diag"]        # rates are time dependent
    return ms


def initial_state(kind):
    import qutip as qt
    b0, b1 = qt.basis(2, 0), qt.basis(2, 1)
    if kind == "ket":
        return b0
    if kind == "ket_unnorm":
        return 2 * b0 + 0.5j * b1
    if kind == "dm":
        return qt.ket2dm(b0)
    if kind == "dm_unnorm":
        return 2 * qt.ket2dm(b0) + 0.5 * qt.ket2dm((b0 + b1).unit())
    if kind == "oper":
        return qt.qeye(2)
    raise ValueError(kind)


def run_solver(name, tlist, e_ops, options, init=None, ntraj=3, seed=11):
    import qutip as qt
    H = 0.5 * qt.sigmax() + 0.25 * qt.sigmaz()
    st0 = initial_state(init or DEFAULT_INIT[name])
    sm = qt.sigmam()
    opt = dict(options)
    opt["progress_bar"] = ""
    if opt.get("method") is None:
        opt.pop("method", None)
    if opt.get("method") == "krylov":
        opt["krylov_dim"] = 2
    with warnings.catch_warnings():
        warnings.simplefilter("ignore")
        if name == "sesolve":
            return qt.sesolve(H, st0, tlist, e_ops=e_ops, options=opt)
        if name in ("mesolve", "mesolve_ket"):
            return qt.mesolve(H, st0, tlist, c_ops=[0.5 * sm], e_ops=e_ops, options=opt)
        if name == "brmesolve":
            return qt.brmesolve(H, st0, tlist,
                                a_ops=[[qt.sigmax(), lambda w: 0.1 * (w > 0)]],
                                e_ops=e_ops, options=opt)
        if name == "krylovsolve":
            return qt.krylovsolve(H, st0, tlist, 2, e_ops=e_ops, options=opt)
        if name == "fsesolve":
            return qt.fsesolve(_fl_H(), st0, tlist, T=1.0, e_ops=e_ops, options=opt)
        if name == "fmmesolve":
            return qt.fmmesolve(_fl_H(), st0, tlist, c_ops=[qt.sigmax()],
                                spectra_cb=[lambda w: 0.05 * (w > 0)], T=1.0,
                                e_ops=e_ops, options=opt)
        if name == "heomsolve":
            from qutip.solver.heom import HEOMSolver, DrudeLorentzBath
            bath = DrudeLorentzBath(qt.sigmaz(), lam=0.1, gamma=1.0, T=1.0, Nk=1)
            solver = HEOMSolver(H, bath, 1, options=opt)
            return solver.run(st0, tlist, e_ops=e_ops)
        opt["map"] = "serial"
        if name == "mcsolve":
            return qt.mcsolve(H, st0, tlist, c_ops=[0.7 * sm, 0.3 * qt.sigmaz()], e_ops=e_ops,
                              ntraj=ntraj, options=opt, seeds=seed)
        if name == "mcsolve_improved":
            opt["improved_sampling"] = True
            return qt.mcsolve(H, st0, tlist, c_ops=[0.7 * sm, 0.3 * qt.sigmaz()], e_ops=e_ops,
                              ntraj=ntraj, options=opt, seeds=seed)
        if name == "nm_mcsolve":
            return qt.nm_mcsolve(H, st0, tlist,
                                 ops_and_rates=[(sm, lambda t: 0.4 - 0.3 * np.sin(t))],
                                 e_ops=e_ops, ntraj=ntraj, options=opt, seeds=seed)
        opt["dt"] = 0.125
        if name == "ssesolve":
            return qt.ssesolve(H, st0, tlist, sc_ops=[0.5 * sm, 0.25 * qt.sigmaz()],
                               e_ops=e_ops, ntraj=ntraj, options=opt, seeds=seed)
        het = name == "smesolve_het"
        return qt.smesolve(H, st0, tlist, c_ops=[0.25 * qt.sigmaz()], sc_ops=[0.5 * sm],
                           heterodyne=het, e_ops=e_ops, ntraj=ntraj, options=opt, seeds=seed)


def reference(name, tlist, method, init):
    """reference run of the same problem (same method, same initial state)
    with one callback e_op; the reference for state k is what that callback
    was handed at tlist[k] *while the solver ran* (digest + independent
    copy), never something read back from a result object."""
    key = (name, tuple(tlist), method, init)
    if key in _CACHE:
        return _CACHE[key]
    cb = CB()
    opt = {"store_states": False, "store_final_state": False, "method": method}
    r = run_solver(name, tlist, [cb], opt, init)
    ref = {"objs": list(cb.snaps), "digs": [d for _, d in cb.log], "sysdigs": list(cb.sys),
           "rawsys": [_dig_raw(_sysstate(x)) for x in cb.snaps],
           "times": [t for t, _ in cb.log]}
    if ref["times"] != [float(t) for t in tlist]:
        ref["broken"] = "the reference callback was not called once per time"
    _CACHE[key] = ref
    return ref


def stores(o, nops):
    return o.get("store_states") is True or (o.get("store_states") is None and nops == 0)


def pykey(k):
    return ("KInt", k) if isinstance(k, int) else ("KUser", int(k[1:]))


def check_single(name, tlist, form, o, r, items, ref, bad, obs_out=None):
    """the property on a single-trajectory result `r`.  `bad` collects
    (signature, message).  obs_out (dict) receives the canonical structure
    for the comparison with the model."""
    n = len(tlist)
    if ref.get("broken"):
        bad.append(("callback-times", ref["broken"]))
        return
    idx = {d: k for k, d in enumerate(ref["digs"])}
    sidx = {d: k for k, d in enumerate(ref["sysdigs"])}
    heom = name == "heomsolve"
    times = list(r.times)
    tix = [tlist.index(t) if t in tlist else -1 for t in times]
    if times != list(tlist):
        bad.append(("times", "result.times is not the requested tlist"))
    keys = [k for k, _, _ in items]
    if list(r.e_data) != keys or list(r.e_ops) != keys:
        bad.append(("keys", "e_data / e_ops keys %r, documented %r" % (list(r.e_data), keys)))
    ex = r.expect
    if len(ex) != len(r.e_data) or any(
            not np.array_equal(np.asarray(a), np.asarray(v))
            for a, v in zip(ex, r.e_data.values())):
        bad.append(("expect-view", "expect is not the list of e_data values in order"))
    edata_obs = []
    for key, kind, op in items:
        if key not in r.e_data:
            continue
        if key in r.e_ops and r.e_ops[key].op is not op:
            bad.append(("eop-identity", "e_ops[%r].op is not the supplied object" % (key,)))
        vs = list(r.e_data[key])
        if len(vs) != n:
            bad.append(("expect-length", "e_data[%r] has %d entries for %d times" % (key, len(vs), n)))
        row = []
        for j, v in enumerate(vs):
            tag = ("BAD", j)
            if j < n:
                st = ref["objs"][j]
                ok = any(np.array_equal(np.asarray(v), np.asarray(w))
                         for w in eval_op(kind, op, tlist[j], st, name))
                if ok:
                    stag = j if (kind == "C" or not heom) else j + 1000
                    if name == "fmmesolve":
                        stag = 5000 + 100 * j + j
                    tag = {"Q": ("XQ", keys.index(key), stag),
                           "E": ("XE", keys.index(key), j, stag),
                           "C": ("XC", keys.index(key), j, stag)}[kind]
                else:
                    bad.append(("expect-entry",
                                "e_data[%r][%d] is not the e_op evaluated on (tlist[%d], state %d)"
                                % (key, j, j, j)))
                nv = numpy_value(kind, op, tlist[j], st)
                if abs(complex(v) - complex(nv)) > 1e-9:
                    bad.append(("value-validation",
                                "e_data[%r][%d] differs from the NumPy formula" % (key, j)))
            row.append(tag)
        edata_obs.append((pykey(key), row))
        if kind == "C":
            lg = op.log
            if [t for t, _ in lg] != [float(t) for t in tlist]:
                bad.append(("callback-times", "callback e_op was not called once per time in order"))
            elif [d for _, d in lg] != ref["digs"]:
                bad.append(("callback-state", "callback e_op at tlist[k] did not receive state k"))
    st = stores(o, len(items))
    states = list(r.states)
    sd = [_dig(s) for s in states]
    if st:
        if sd != ref["sysdigs"]:
            bad.append(("states", "states[k] is not the state at tlist[k] (len %d for %d times)"
                        % (len(states), n)))
    elif states:
        bad.append(("states-unrequested", "states stored although the options say not to"))
    fs = r.final_state
    want_final = st or bool(o.get("store_final_state"))
    if want_final != (fs is not None):
        bad.append(("final-availability", "final_state availability: got %s, options say %s"
                    % (fs is not None, want_final)))
    if fs is not None and _dig(fs) != ref["sysdigs"][-1]:
        bad.append(("final-value", "final_state is not the state at tlist[-1]"))
    if fs is not None and states and _dig(fs) != sd[-1]:
        bad.append(("final-vs-last", "final_state differs from states[-1]"))

    def ktag(j):
        return j + 1000 if heom else (5000 + 100 * j + j if name == "fmmesolve" else j)
    ado = fado = flo = "NoAttr"
    if heom:
        if o.get("store_ados"):
            if not hasattr(r, "ado_states"):
                bad.append(("ado-attr", "ado_states missing although store_ados"))
            else:
                ad = [_dig(a) for a in r.ado_states]
                ado = ("Obj", [idx.get(d, -1) for d in ad])
                if ad != (ref["digs"] if st else []):
                    bad.append(("ado_states", "ado_states[k] is not the ADO state at tlist[k]"))
                if st and [_dig_raw(a.extract(0)) for a in r.ado_states] != ref["rawsys"]:
                    bad.append(("ado_states-extract",
                                "ado_states[k].extract(0) is not the system state at tlist[k]"))
                if st and [_dig_raw(a.rho) for a in r.ado_states] != [_dig_raw(x) for x in states]:
                    bad.append(("ado_states-rho", "ado_states[k].rho differs from states[k]"))
                fa = r.final_ado_state
                if fa is None:
                    fado = "PyNone"
                elif hasattr(fa, "_ado_state"):
                    fado = ("Obj", idx.get(_dig(fa), -1))
                else:
                    fado = ("Obj", sidx.get(_dig(fa), -1) + 1000)
                if want_final:
                    if fa is None or not hasattr(fa, "_ado_state") or _dig(fa) != ref["digs"][-1]:
                        bad.append(("final_ado_state",
                                    "final_ado_state is %s, not the last ADO state"
                                    % type(fa).__name__))
                elif fa is not None:
                    bad.append(("final_ado_state-unrequested", "final_ado_state stored unasked"))
        elif hasattr(r, "ado_states") or hasattr(r, "final_ado_state"):
            bad.append(("ado-attr", "ADO attributes exist without store_ados"))
    if name == "fmmesolve":
        fl = r.floquet_states
        if o.get("store_floquet_states"):
            # the Floquet-basis state k, converted at tlist[k], must be
            # bit-for-bit the laboratory-basis state the e_ops saw at tlist[k]
            conv = [] if fl is None else [
                _dig(r.floquet_basis.from_floquet_basis(x, t)) for x, t in zip(fl, tlist)]
            if fl is None or len(fl) != n or conv != ref["sysdigs"]:
                bad.append(("floquet_states", "floquet_states[k] is not the Floquet-basis state k"))
            flo = ("Obj", [sidx.get(d, -1) for d in conv])
        else:
            flo = "PyNone"
            if fl is not None:
                bad.append(("floquet_states", "floquet_states stored unasked"))
    if obs_out is not None:
        obs_out["obs"] = (
            tix, edata_obs, [ktag(sidx.get(d, -1)) if d in sidx else -1 for d in sd],
            None if fs is None else ("Some", ktag(sidx.get(_dig(fs), -1))),
            (ado, fado, flo), ([], [], "NoAttr"),
            bool(r._state_processors_require_copy))


PROC_NAMES = {"_increment_traj": "MIncrement", "_store_trajectory": "MStoreTrajectory",
              "_reduce_states": "MReduceStates", "_reduce_final_state": "MReduceFinal",
              "_reduce_expect": "MReduceExpect"}


def observe_mt(r):
    """what Model/C12_mt.v mt_observe predicts, read from the real object
    (the sums are inspected before the lazy views touch them)."""
    procs = []
    for p in r._state_processors:
        nm = getattr(p, "__name__", None) or getattr(getattr(p, "func", None), "__name__", "?")
        if nm in PROC_NAMES:
            procs.append(PROC_NAMES[nm])
    sum_final_set = r._sum_rel is not None and r._sum_rel.sum_final_state is not None
    rs = r.runs_states is not None
    av_states = r.average_states
    av = av_states is not None
    st = r.states is not None
    rf = r.runs_final_states is not None
    af_state = r.average_final_state
    af = af_state is not None
    fs = r.final_state is not None
    if sum_final_set:
        src = "FFromSum"
    elif not af:
        src = "FNone"
    elif av and _dig(af_state) == _dig(av_states[-1]):
        src = "FLastAverageState"
    else:
        src = "FFromTrajectories"
    is_runs = bool(r.runs_e_data) and r.e_data is r.runs_e_data
    return (procs, (rs, av, st), (rf, af, fs), (is_runs, bool(r.trajectories), src))


def check_multi(name, tlist, form, o, r, items, ntraj, bad, obs_out=None):
    n = len(tlist)
    if obs_out is not None:
        obs_out["mt"] = observe_mt(r)
    keep = bool(o.get("keep_runs_results"))
    keys = [k for k, _, _ in items]
    st = stores(o, len(items))
    if list(r.times) != list(tlist):
        bad.append(("times", "result.times is not the requested tlist"))
    if r.num_trajectories != ntraj:
        bad.append(("ntraj", "num_trajectories %r != %d" % (r.num_trajectories, ntraj)))
    for nm in ("average_e_data", "std_e_data"):
        d = getattr(r, nm)
        if list(d) != keys:
            bad.append(("keys", "%s keys %r, documented %r" % (nm, list(d), keys)))
        for k in d:
            if len(d[k]) != n:
                bad.append(("expect-length", "%s[%r] has %d entries for %d times" % (nm, k, len(d[k]), n)))
    if keep and keys:
        if list(r.runs_e_data) != keys:
            bad.append(("keys", "runs_e_data keys %r, documented %r" % (list(r.runs_e_data), keys)))
        for k in r.runs_e_data:
            if np.shape(r.runs_e_data[k]) != (ntraj, n):
                bad.append(("expect-length", "runs_e_data[%r] shape %r != (%d, %d)"
                            % (k, np.shape(r.runs_e_data[k]), ntraj, n)))
    elif r.runs_e_data:
        bad.append(("runs-unrequested", "runs_e_data filled without keep_runs_results"))
    if len(r.average_expect) != len(keys) or any(
            not np.array_equal(a, np.asarray(r.average_e_data[k]))
            for a, k in zip(r.average_expect, keys)):
        bad.append(("expect-view", "average_expect is not average_e_data values in order"))
    ed = r.e_data
    if list(ed) != keys:
        bad.append(("keys", "e_data keys %r, documented %r" % (list(ed), keys)))
    # callbacks: called once per time, in order, for every trajectory
    for key, kind, op in items:
        if kind == "C":
            ts = [t for t, _ in op.log]
            if len(ts) % n != 0 or ts != [float(t) for t in tlist] * (len(ts) // n) \
                    or len(ts) // n < ntraj:
                bad.append(("callback-times", "callback e_op was not called once per time per trajectory"))
    trajs = list(r.trajectories)
    if keep != bool(trajs) or (keep and len(trajs) != ntraj):
        bad.append(("trajectories", "trajectories kept: %d, keep_runs_results=%r" % (len(trajs), keep)))
    for i, tr in enumerate(trajs):
        if list(tr.times) != list(tlist):
            bad.append(("traj-times", "trajectory times differ from tlist"))
        if list(tr.e_data) != keys:
            bad.append(("traj-keys", "trajectory e_data keys differ"))
        tst = list(tr.states)
        if st and len(tst) != n:
            bad.append(("traj-states", "trajectory stores %d states for %d times" % (len(tst), n)))
        if not st and tst:
            bad.append(("states-unrequested", "trajectory states stored although not requested"))
        if st:
            for key, kind, op in items:
                for j in range(n):
                    v = tr.e_data[key][j]
                    if not any(np.array_equal(np.asarray(v), np.asarray(w))
                               for w in eval_op(kind, op, tlist[j], tst[j], name)):
                        bad.append(("expect-entry",
                                    "trajectory e_data[%r][%d] is not the e_op on (tlist[%d], states[%d])"
                                    % (key, j, j, j)))
                        break
            if tr.final_state is None or _dig(tr.final_state) != _dig(tst[-1]):
                bad.append(("final-vs-last", "trajectory final_state differs from states[-1]"))
        for k in keys:
            if keep and not np.array_equal(np.asarray(r.runs_e_data[k][i]), np.asarray(tr.e_data[k])):
                bad.append(("runs-alignment", "runs_e_data[%r][%d] is not trajectory %d's values" % (k, i, i)))
    # states / final state availability
    rs, av = r.runs_states, r.average_states
    if st:
        if av is None or len(av) != n:
            bad.append(("states", "average_states missing or not one per time"))
        if keep and (rs is None or len(rs) != ntraj or any(len(x) != n for x in rs)):
            bad.append(("states", "runs_states is not ntraj x len(tlist)"))
        if r.states is None:
            bad.append(("states", "states not available although requested"))
    else:
        if av is not None or rs is not None:
            bad.append(("states-unrequested", "states available although not requested"))
    want_final = st or bool(o.get("store_final_state"))
    af, rf = r.average_final_state, r.runs_final_states
    if want_final:
        if af is None or r.final_state is None:
            bad.append(("final-availability", "final state missing although requested / states stored"))
        if keep and (rf is None or len(rf) != ntraj):
            bad.append(("final-availability", "runs_final_states is not one per trajectory"))
        if af is not None and av is not None and (af - av[-1]).norm() > 1e-9:
            bad.append(("final-vs-last", "average_final_state differs from average_states[-1]"))
        if keep and rf is not None and rs is not None and any(
                _dig(a) != _dig(b[-1]) for a, b in zip(rf, rs)):
            bad.append(("final-vs-last", "runs_final_states[i] differs from runs_states[i][-1]"))
    elif af is not None or rf is not None:
        bad.append(("final-unrequested", "final state available although not requested"))
    if keep and trajs and keys and not name.startswith("nm_") and name != "mcsolve_improved":
        for k in keys:
            m = np.mean([np.asarray(tr.e_data[k]) for tr in trajs], axis=0)
            if np.max(np.abs(m - np.asarray(r.average_e_data[k]))) > 1e-9:
                bad.append(("average-validation", "average_e_data[%r] is not the mean of the runs" % (k,)))
    # auxiliary outputs
    if name.startswith("mcsolve") or name == "nm_mcsolve":
        ct, cw = r.col_times, r.col_which
        if len(ct) != ntraj or len(cw) != ntraj or len(r.collapse) != ntraj:
            bad.append(("collapse", "collapse records are not one per trajectory"))
        nc = r.num_c_ops
        for i, (a, b) in enumerate(zip(ct, cw)):
            if len(a) != len(b):
                bad.append(("collapse", "col_times / col_which lengths differ"))
            if any(not isinstance(w, (int, np.integer)) or not (0 <= w < nc) for w in b):
                bad.append(("collapse", "col_which holds something else than c_ops indices"))
            if any(not (tlist[0] <= t <= tlist[-1]) for t in a) or list(a) != sorted(a):
                bad.append(("collapse", "col_times not increasing times inside tlist"))
            if keep and i < len(trajs) and list(trajs[i].collapse) != list(r.collapse[i]):
                bad.append(("collapse", "collapse[i] is not trajectory i's record"))
        if name != "nm_mcsolve":
            pc = r.photocurrent
            if len(pc) != nc or any(len(x) != n - 1 for x in pc):
                bad.append(("photocurrent", "photocurrent is not num_c_ops x (len(tlist)-1)"))
            rp = r.runs_photocurrent
            if len(rp) != ntraj or any(len(x) != nc or any(len(y) != n - 1 for y in x) for x in rp):
                bad.append(("photocurrent", "runs_photocurrent shape"))
            tot = sum(len(a) for a in ct)
            cnt = sum(float(np.sum(np.asarray(y) * np.diff(tlist))) for x in rp for y in x)
            if abs(cnt - tot) > 1e-9:
                bad.append(("photocurrent", "runs_photocurrent does not count the recorded collapses"))
        if name == "nm_mcsolve":
            if len(r.average_trace) != n or (keep and np.shape(r.runs_trace) != (ntraj, n)):
                bad.append(("trace", "trace records are not aligned with tlist"))
            for i, tr in enumerate(trajs):
                if len(tr.trace) != n:
                    bad.append(("trace", "trajectory trace is not one value per time"))
                elif not np.array_equal(np.asarray(r.runs_trace[i]), np.asarray(tr.trace)):
                    bad.append(("trace", "runs_trace[i] is not trajectory i's trace"))
            if keep and trajs and np.max(np.abs(
                    np.mean([np.asarray(tr.trace) for tr in trajs], axis=0)
                    - np.asarray(r.average_trace))) > 1e-9:
                bad.append(("average-validation", "average_trace is not the mean of the runs' traces"))
    if name in ("ssesolve", "smesolve", "smesolve_het"):
        het = name.endswith("het")
        nsc = 2 if name == "ssesolve" else 1
        sm_opt = o.get("store_measurement")
        shape = (ntraj, nsc, 2) if het else (ntraj, nsc)
        if sm_opt or keep:
            dW, W = r.dW, r.wiener_process
            if np.shape(dW) != shape + (n - 1,):
                bad.append(("dW", "dW shape %r != %r" % (np.shape(dW), shape + (n - 1,))))
            if np.shape(W) != shape + (n,):
                bad.append(("wiener_process", "wiener_process shape %r" % (np.shape(W),)))
            elif not (np.array_equal(np.asarray(W)[..., 0], np.zeros(shape))
                      and np.allclose(np.cumsum(np.asarray(dW), axis=-1), np.asarray(W)[..., 1:],
                                      rtol=0, atol=1e-12)):
                bad.append(("wiener_process", "wiener_process is not the running sum of dW"))
        if sm_opt:
            m = r.measurement
            if m is None or np.shape(m) != shape + (n - 1,):
                bad.append(("measurement", "measurement shape %r != %r"
                            % (np.shape(m), shape + (n - 1,))))
            elif keep:
                for i, tr in enumerate(trajs):
                    if not np.array_equal(np.asarray(m[i]), np.asarray(tr.measurement)):
                        bad.append(("measurement", "measurement[i] is not trajectory i's record"))
                    # entry j uses the expectation at the documented end of step j
                    me = np.array(tr.m_expect)
                    base = {"start": me[:, :-1], "end": me[:, 1:], True: me[:, 1:],
                            "middle": (me[:, :-1] + me[:, 1:]) / 2}[sm_opt]
                    noise = np.array(tr.noise).T
                    want = base + np.einsum("i,ij,j->ij", tr.dW_factor, noise,
                                            1 / np.diff(tlist))
                    if het:
                        want = want.reshape(-1, 2, want.shape[1])
                    if not np.allclose(want, tr.measurement, rtol=0, atol=1e-12):
                        bad.append(("measurement", "measurement[j] is not m_expect(%r) + dW_j/dt" % (sm_opt,)))
                    if len(tr.m_expect) and any(len(row) != n for row in tr.m_expect):
                        bad.append(("measurement", "m_expect rows are not one per time"))
        elif not keep and r.measurement is not None:
            bad.append(("measurement", "measurement available although store_measurement is off"))


def report(ctx, name, form, o, tlist, init, sig, msg):
    detail = {"solver": name, "eops_form": form, "options": o, "tlist": list(tlist),
              "initial_state": init}
    site = "solver:%s" % name.replace("_ket", "").replace("_improved", "").replace("_het", "")
    ctx.violation(site, sig, "%s(%s, init=%s, e_ops=%s): %s" % (name, _short(o), init, form, msg),
                  detail)


def _short(o):
    return ",".join("%s=%r" % (k.replace("store_", "").replace("_results", ""), v)
                    for k, v in sorted(o.items(), key=str))


def one_cell(ctx, name, form, o, tlist, init=None, model_cases=None):
    e_ops, items, meops = build_eops(form)
    init = init or DEFAULT_INIT[name]
    bad = []
    cell = (name, form, o, list(tlist), init)
    if name in SINGLE:
        ref = reference(name, tlist, o.get("method"), init)
        r = run_solver(name, tlist, e_ops, o, init)
        out = {}
        check_single(name, tlist, form, o, r, items, ref, bad, out)
        if model_cases is not None and "obs" in out:
            cls = {"heomsolve": "CHeom", "fmmesolve": "CFloquet"}.get(name, "CResult")
            mo = {"store_states": o.get("store_states"),
                  "store_final_state": bool(o.get("store_final_state")),
                  "store_ados": bool(o.get("store_ados")),
                  "store_floquet_states": bool(o.get("store_floquet_states")),
                  "store_measurement": ""}
            model_cases.append(({"kind": "script", "cls": cls, "opts": mo, "eops": meops,
                                 "mops": [], "pts": [(j, j, None) for j in range(len(tlist))]},
                                out["obs"], cell))
    else:
        r = run_solver(name, tlist, e_ops, o, init)
        out = {}
        check_multi(name, tlist, form, o, r, items, 3, bad, out)
        if model_cases is not None:
            model_cases.append(({"kind": "mt", "opts": o, "nops": len(items)},
                                out["mt"], cell))
    seen = set()
    for sig, msg in bad:
        if sig in seen:
            continue
        seen.add(sig)
        report(ctx, name, form, o, tlist, init, sig, msg)
    return bool(bad)


TL_A = [0.0, 0.5, 1.0, 2.0]
TL_B = [0.0, 1.0]
TL_C = [0.25, 0.5, 0.75, 1.0, 3.0]
TL_D = [0.0, 0.2, 0.4, 0.6, 0.8, 1.0]
TL_E = [0.0, 0.125, 0.25, 0.5, 0.75, 1.0]
STOCH = ("ssesolve", "smesolve", "smesolve_het")
SM_VALUES = ["", "start", "middle", "end", True]


def _extra_opts(name, rng, storing):
    o = {}
    if name == "heomsolve":
        o["store_ados"] = True if storing else rng.random() < 0.5
    if name == "fmmesolve":
        o["store_floquet_states"] = True if storing else rng.random() < 0.5
    if name in MULTI:
        o["keep_runs_results"] = True if storing else rng.random() < 0.5
    if name in ("ssesolve", "smesolve", "smesolve_het"):
        o["store_measurement"] = rng.choice(SM_VALUES)
    return o


def base_cells(rng):
    """the full product options x e_ops forms with the default method and the
    default initial state, 4 output times"""
    out = []
    base = list(itertools.product([None, True, False], [True, False]))
    for name in SINGLE:
        for ss, sf in base:
            for form in FORMS:
                extra = [{}]
                if name == "heomsolve":
                    extra = [{"store_ados": True}, {"store_ados": False}]
                if name == "fmmesolve":
                    extra = [{"store_floquet_states": True}, {"store_floquet_states": False}]
                for ex in extra:
                    o = {"store_states": ss, "store_final_state": sf}
                    o.update(ex)
                    out.append((name, form, o, TL_A, None))
    for name in MULTI:
        for ss, sf in base:
            for keep in (True, False):
                for form in FORMS:
                    o = {"store_states": ss, "store_final_state": sf, "keep_runs_results": keep}
                    if name in ("ssesolve", "smesolve", "smesolve_het"):
                        o["store_measurement"] = rng.choice(SM_VALUES)
                    out.append((name, form, o, TL_A, None))
    return out


def strata():
    """every (solver, registered integration method, legal initial state)"""
    out = []
    for name in SINGLE + MULTI:
        if name == "mesolve_ket":
            continue
        for m in solver_methods(name):
            for init in INITS[name]:
                if name == "sesolve" and init != "ket" and m == "krylov":
                    continue      # the krylov method evolves unit kets only (an unnormalised
                                  # ket makes its step-size search give up: IntegratorException)
                out.append((name, m, init))
    return out


def extended_cells(rng, per_stratum):
    """stratified sample, drawn from ctx.seed: for every (solver, method,
    initial state) one cell in which everything that can be stored is stored
    (states, final state, ADO states, Floquet states, runs) and
    `per_stratum - 1` cells with random options; 4-6 output times; the e_ops
    form is random but contains a callback for the storing cell half of the
    time so that the stored entries are checked against what the callback
    saw in the *same* run."""
    out = []
    for name, m, init in strata():
        for j in range(per_stratum):
            storing = j == 0
            if storing:
                ss = rng.choice([True, True, None])
                form = "none" if ss is None else rng.choice(FORMS)
                sf = rng.random() < 0.7
            else:
                ss = rng.choice([None, True, False])
                sf = rng.random() < 0.5
                form = rng.choice(FORMS)
            o = {"store_states": ss, "store_final_state": sf}
            o.update(_extra_opts(name, rng, storing))
            if m is not None:
                o["method"] = m
            # the stochastic integrators advance in whole steps of options["dt"]
            # (sode/_noise.py: "only multiple of dt are expected"): their time
            # lists are multiples of dt = 1/8
            tls = [TL_A, TL_C, TL_E, TL_E] if name in STOCH else [TL_A, TL_C, TL_D, TL_D]
            out.append((name, form, o, rng.choice(tls), init))
    return out


def cells(ctx, rng):
    out = base_cells(rng)
    if ctx.quick:
        out += extended_cells(rng, 2)
    else:
        more = []
        for c in out:
            for tl in (TL_B, TL_C):
                o = dict(c[2])
                if "store_measurement" in o:
                    o["store_measurement"] = rng.choice(SM_VALUES)
                more.append((c[0], c[1], o, tl, None))
        out += more
        out += extended_cells(rng, 8)
    return out


def run_oracle(ctx, rng):
    cs = cells(ctx, rng)
    ctx.log("solver oracle: %d cells" % len(cs))
    model_cases = []
    dist = {"solver": {}, "method": {}, "initial_state": {}, "n_times": {}}
    nbad = 0
    for name, form, o, tl, init in cs:
        try:
            nbad += one_cell(ctx, name, form, o, tl, init, model_cases)
        except Exception as e:              # a crash of a documented call is a finding
            import traceback
            if isinstance(e, RuntimeError) and "collapse time" in str(e):
                # mcsolve could not bracket a jump time with this integrator: no
                # result object was produced; that is C16's subject, not C12's
                skipped = ctx.cov.setdefault("input_distribution", {}).setdefault(
                    "solver_cells_skipped_collapse_time", [])
                skipped.append([name, o.get("method", "default")])
                continue
            ctx.violation("solver:%s" % name, "exception:" + type(e).__name__,
                          "%s(%s, init=%s, e_ops=%s) raised %r" % (name, _short(o), init, form, e),
                          {"solver": name, "eops_form": form, "options": o, "tlist": list(tl),
                           "initial_state": init,
                           "traceback": traceback.format_exc()[-1500:]})
        for k, v in (("solver", name), ("method", o.get("method", "default")),
                     ("initial_state", init or DEFAULT_INIT[name]), ("n_times", len(tl))):
            dist[k][str(v)] = dist[k].get(str(v), 0) + 1
        ctx.count_case(("solver", name, form, json.dumps(o, sort_keys=True, default=repr),
                        tuple(tl), init),
                       nontrivial=form not in ("none", "emptylist", "emptydict"))
    ctx.cov.setdefault("input_distribution", {})["solver_cells"] = dist
    ctx.log("solver oracle: %d cells, %d with findings" % (len(cs), nbad))
    # K3/K4: structure predicted by the model for every cell
    import c12
    if model_cases:
        try:
            vals = vlib.coq_eval_values("cases_C12_solv", c12.HEADER + MT_HEADER,
                                        [mt_expr(c) if c["kind"] == "mt" else c12.model_expr(c)
                                         for c, _, _ in model_cases], chunk=250)
        except RuntimeError as e:
            ctx.violation("corr:C12:model-eval", "coqc", "model evaluation failed",
                          {"log": str(e)}, found_input=False)
            return
        mism = 0
        for (case, obs, cell), s in zip(model_cases, vals):
            if case["kind"] == "mt":
                model = c12.canon_coq(vlib.parse_coq_value(s))
                im = c12._tuplify(obs)
            else:
                model = c12.canon_model(s)
                im = c12.canon_real(("Ok", obs))
            ctx.cov["traces_validated_against_impl"] += 1
            if model != im:
                mism += 1
                name, form, o, tl, init = cell
                if mism <= 3:
                    ctx.violation("corr:solver:%s" % name, "model-differs",
                                  "the real solver's result differs from the model's prediction",
                                  {"solver": name, "eops_form": form, "options": o,
                                   "tlist": tl, "initial_state": init,
                                   "impl": im, "model": model})
        ctx.log("K3 model-vs-solver: %d cells, %d mismatches" % (len(model_cases), mism))
    ctx.sample({"solver_cell": [cs[-1][0], cs[-1][1], cs[-1][2], cs[-1][4]]})


MT_HEADER = "From QV Require Import Model.C12_mt.\n"


def mt_expr(c):
    o = c["opts"]
    return "mt_observe {| m_store_states := %s; m_store_final := %s; m_keep := %s |} %d%%nat" % (
        vlib.copt(o.get("store_states"), vlib.cbool), vlib.cbool(bool(o.get("store_final_state"))),
        vlib.cbool(bool(o.get("keep_runs_results"))), c["nops"])


def replay(ctx, payload):
    d = payload["detail"]
    if "solver" not in d:
        return
    one_cell(ctx, d["solver"], d["eops_form"], d["options"], [float(t) for t in d["tlist"]],
             d.get("initial_state"))
