"""Translator for C04: reads the bodies of the functions in FUNCS out of the
current qutip source with Python's `ast` and emits, for each, a term of the
mini imperative IR of coq/Model/C04.v (three-address form: name binding,
attribute / item loads and stores, augmented assignment, calls with effect
summaries, branches, loops, return).

  generate()  -> writes coq/Gen/C04_ir.v, returns the list of emitted
                 functions with their status.

Fail closed: a construct outside the supported subset, or a callee that has
no entry in SUMMARIES, raises Unsupported for that function; the check then
reports the function's obligation as not shown.

What is interpreted and what is not
  * conditions are evaluated for their effects only; both branches of every
    `if` and any number of iterations of every loop are covered;
  * an augmented assignment `x op= e` on a name becomes
    "either x is updated in place (the cell of x is overwritten) or x is
    rebound to a new object", because which one happens depends on the
    run-time type (QobjEvo updates in place, Qobj and numbers do not);
  * a call is replaced by the effect summary of its callee (SUMMARIES).  A
    summary of a callee that is itself translated names the *contract* it
    relies on (callee, extra parameters it may modify); the contract becomes
    an obligation of its own (emitted as a second `func` with these
    parameters owned);
  * constructors listed in INLINE are inlined (parameters bound to the call's
    arguments, `self` bound to a new cell), so that the fields of the new
    object are known to the checker.
"""
import ast
import os
import re
import sys
import textwrap

HERE = os.path.dirname(os.path.abspath(__file__))
sys.path.insert(0, os.path.join(os.path.dirname(HERE), "lib"))
import vlib  # noqa: E402


class Unsupported(Exception):
    pass


# data-layer functions that (can) work in place on their first argument
DATA_INPLACE_NAMES = ("tidyup", "tidyup_csr", "tidyup_dense", "tidyup_dia", "clean_dia",
                      "column_stack_dense", "column_unstack_dense", "iadd_dense", "imul",
                      "imul_csr", "imul_data", "imul_dense", "imul_dia")


def _data_inplace(name):
    return name in DATA_INPLACE_NAMES or name.startswith(("iadd", "imul", "isub", "idiv")) \
        or "inplace" in name


ALL = ["*"]
ITEMS = ["[]"]
# fields that hold a container owned exclusively by the object (QobjEvo)
OWNERSHIP_FIELDS = ("elements", "_feedback_functions", "_solver_only_feedback", "_data")
# `x.data` is the property over `x._data` (Qobj); one field in the model
FIELD_ALIAS = {"data": "_data"}
# variants in which a documented opt-out makes the object adopt a caller's
# container: the ownership assertions are not emitted there
NO_OWNERSHIP_ASSERT = {"Qobj.__init__[copy=False]"}
EVO_FIELDS = ["elements", "_dims", "shape", "_feedback_functions",
              "_solver_only_feedback"]

# name, file, qualified name, owned parameters (documented in-place / object
# under construction / ownership transfer), base class for super()
FUNCS = [
    ("Solver.__init__", "qutip/solver/solver_base.py", "Solver.__init__", ["self"], None),
    ("_solver_deprecation", "qutip/solver/solver_base.py", "_solver_deprecation", ["kwargs"], None),
    ("_kwargs_migration", "qutip/solver/solver_base.py", "_kwargs_migration", [], None),
    ("SESolver.__init__", "qutip/solver/sesolve.py", "SESolver.__init__", ["self"], "Solver"),
    ("sesolve", "qutip/solver/sesolve.py", "sesolve", ["kwargs"], None),
    ("MESolver.__init__", "qutip/solver/mesolve.py", "MESolver.__init__", ["self"], "Solver"),
    ("mesolve", "qutip/solver/mesolve.py", "mesolve", ["kwargs"], None),
    ("MCSolver.__init__", "qutip/solver/mcsolve.py", "MCSolver.__init__", ["self"], "MultiTrajSolver"),
    ("mcsolve", "qutip/solver/mcsolve.py", "mcsolve", ["kwargs"], None),
    ("Propagator.__init__", "qutip/solver/propagator.py", "Propagator.__init__", ["self"], None),
    ("liouvillian", "qutip/core/superoperator.py", "liouvillian", [], None),
    ("lindblad_dissipator", "qutip/core/superoperator.py", "lindblad_dissipator", [], None),
    ("_BaseResult.__init__", "qutip/solver/result.py", "_BaseResult.__init__", ["self", "stats"], None),
    ("MultiTrajResult.__init__", "qutip/solver/multitrajresult.py", "MultiTrajResult.__init__", ["self", "stats", "kw"], "_BaseResult"),
    ("MultiTrajResult._post_init", "qutip/solver/multitrajresult.py", "MultiTrajResult._post_init", ["self"], None),
    ("MultiTrajResult.merge", "qutip/solver/multitrajresult.py", "MultiTrajResult.merge", [], None),
    ("_TrajectorySum.merge", "qutip/solver/multitrajresult.py", "_TrajectorySum.merge", [], None),
    ("QobjEvo.__init__", "qutip/core/cy/qobjevo.pyx", "QobjEvo.__init__", ["self"], None),
    ("QobjEvo._read_element", "qutip/core/cy/qobjevo.pyx", "QobjEvo._read_element", ["self"], None),
    ("QobjEvo.copy", "qutip/core/cy/qobjevo.pyx", "QobjEvo.copy", [], None),
    ("QobjEvo.__add__", "qutip/core/cy/qobjevo.pyx", "QobjEvo.__add__", [], None),
    ("QobjEvo.__radd__", "qutip/core/cy/qobjevo.pyx", "QobjEvo.__radd__", [], None),
    ("QobjEvo.__iadd__", "qutip/core/cy/qobjevo.pyx", "QobjEvo.__iadd__", ["self"], None),
    ("QobjEvo.__sub__", "qutip/core/cy/qobjevo.pyx", "QobjEvo.__sub__", [], None),
    ("QobjEvo.__rsub__", "qutip/core/cy/qobjevo.pyx", "QobjEvo.__rsub__", [], None),
    ("QobjEvo.__isub__", "qutip/core/cy/qobjevo.pyx", "QobjEvo.__isub__", ["self"], None),
    ("QobjEvo.__matmul__", "qutip/core/cy/qobjevo.pyx", "QobjEvo.__matmul__", [], None),
    ("QobjEvo.__rmatmul__", "qutip/core/cy/qobjevo.pyx", "QobjEvo.__rmatmul__", [], None),
    ("QobjEvo.__imatmul__", "qutip/core/cy/qobjevo.pyx", "QobjEvo.__imatmul__", ["self"], None),
    ("QobjEvo.__mul__", "qutip/core/cy/qobjevo.pyx", "QobjEvo.__mul__", [], None),
    ("QobjEvo.__rmul__", "qutip/core/cy/qobjevo.pyx", "QobjEvo.__rmul__", [], None),
    ("QobjEvo.__imul__", "qutip/core/cy/qobjevo.pyx", "QobjEvo.__imul__", ["self"], None),
    ("QobjEvo.__truediv__", "qutip/core/cy/qobjevo.pyx", "QobjEvo.__truediv__", [], None),
    ("QobjEvo.__neg__", "qutip/core/cy/qobjevo.pyx", "QobjEvo.__neg__", [], None),
    ("QobjEvo.dag", "qutip/core/cy/qobjevo.pyx", "QobjEvo.dag", [], None),
    ("QobjEvo.conj", "qutip/core/cy/qobjevo.pyx", "QobjEvo.conj", [], None),
    ("QobjEvo.trans", "qutip/core/cy/qobjevo.pyx", "QobjEvo.trans", [], None),
    ("QobjEvo.linear_map", "qutip/core/cy/qobjevo.pyx", "QobjEvo.linear_map", [], None),
    ("QobjEvo.arguments", "qutip/core/cy/qobjevo.pyx", "QobjEvo.arguments", ["self", "kwargs"], None),
    ("QobjEvo._read_args", "qutip/core/cy/qobjevo.pyx", "QobjEvo._read_args", ["self"], None),
    ("QobjEvo.compress", "qutip/core/cy/qobjevo.pyx", "QobjEvo.compress", ["self"], None),
    ("QobjEvo.tidyup", "qutip/core/cy/qobjevo.pyx", "QobjEvo.tidyup", ["self"], None),
    ("QobjEvo._register_feedback", "qutip/core/cy/qobjevo.pyx", "QobjEvo._register_feedback", ["self"], None),
    ("QobjEvo._update_feedback", "qutip/core/cy/qobjevo.pyx", "QobjEvo._update_feedback", ["self"], None),
    # ---- fourth wave: Qobj constructor (both documented modes) and methods
    ("Qobj.__init__", "qutip/core/qobj.py", "Qobj.__init__", ["self"], None),
    ("Qobj.__init__[copy=False]", "qutip/core/qobj.py", "Qobj.__init__", ["self"], None),
    ("Qobj._initialize_data", "qutip/core/qobj.py", "Qobj._initialize_data", ["self"], None),
    ("Qobj.tidyup", "qutip/core/qobj.py", "Qobj.tidyup", ["self"], None),
    ("Qobj.unit[inplace=True]", "qutip/core/qobj.py", "Qobj.unit", ["self"], None),
    ("Qobj.contract[inplace=True]", "qutip/core/qobj.py", "Qobj.contract", ["self"], None),
    ("Qobj.copy", "qutip/core/qobj.py", "Qobj.copy", [], None),
    ("Qobj.to", "qutip/core/qobj.py", "Qobj.to", [], None),
    ("Qobj.__add__", "qutip/core/qobj.py", "Qobj.__add__", [], None),
    ("Qobj.__radd__", "qutip/core/qobj.py", "Qobj.__radd__", [], None),
    ("Qobj.__sub__", "qutip/core/qobj.py", "Qobj.__sub__", [], None),
    ("Qobj.__rsub__", "qutip/core/qobj.py", "Qobj.__rsub__", [], None),
    ("Qobj.__mul__", "qutip/core/qobj.py", "Qobj.__mul__", [], None),
    ("Qobj.__rmul__", "qutip/core/qobj.py", "Qobj.__rmul__", [], None),
    ("Qobj.__matmul__", "qutip/core/qobj.py", "Qobj.__matmul__", [], None),
    ("Qobj.__truediv__", "qutip/core/qobj.py", "Qobj.__truediv__", [], None),
    ("Qobj.__neg__", "qutip/core/qobj.py", "Qobj.__neg__", [], None),
    ("Qobj.__pow__", "qutip/core/qobj.py", "Qobj.__pow__", [], None),
    ("Qobj.__call__", "qutip/core/qobj.py", "Qobj.__call__", [], None),
    ("Qobj.__and__", "qutip/core/qobj.py", "Qobj.__and__", [], None),
    ("Qobj.dag", "qutip/core/qobj.py", "Qobj.dag", [], None),
    ("Qobj.conj", "qutip/core/qobj.py", "Qobj.conj", [], None),
    ("Qobj.trans", "qutip/core/qobj.py", "Qobj.trans", [], None),
    ("Qobj.proj", "qutip/core/qobj.py", "Qobj.proj", [], None),
    ("Qobj.unit", "qutip/core/qobj.py", "Qobj.unit", [], None),
    ("Qobj.expm", "qutip/core/qobj.py", "Qobj.expm", [], None),
    ("Qobj.logm", "qutip/core/qobj.py", "Qobj.logm", [], None),
    ("Qobj.sqrtm", "qutip/core/qobj.py", "Qobj.sqrtm", [], None),
    ("Qobj.cosm", "qutip/core/qobj.py", "Qobj.cosm", [], None),
    ("Qobj.sinm", "qutip/core/qobj.py", "Qobj.sinm", [], None),
    ("Qobj.inv", "qutip/core/qobj.py", "Qobj.inv", [], None),
    ("Qobj.ptrace", "qutip/core/qobj.py", "Qobj.ptrace", [], None),
    ("Qobj.permute", "qutip/core/qobj.py", "Qobj.permute", [], None),
    ("Qobj.transform", "qutip/core/qobj.py", "Qobj.transform", [], None),
    ("Qobj.contract", "qutip/core/qobj.py", "Qobj.contract", [], None),
    ("Qobj.dual_chan", "qutip/core/qobj.py", "Qobj.dual_chan", [], None),
    # ---- fifth wave: floquet / heom front ends
    ("FloquetBasis.__init__", "qutip/solver/floquet.py", "FloquetBasis.__init__", ["self"], None),
    ("fsesolve", "qutip/solver/floquet.py", "fsesolve", [], None),
    ("fmmesolve", "qutip/solver/floquet.py", "fmmesolve", [], None),
    ("heomsolve", "qutip/solver/heom/bofin_solvers.py", "heomsolve", [], None),
    # ---- second wave
    ("MultiTrajSolver.__init__", "qutip/solver/multitraj.py", "MultiTrajSolver.__init__", ["self"], None),
    ("_StochasticRHS.__init__", "qutip/solver/stochastic.py", "_StochasticRHS.__init__", ["self"], None),
    ("BRSolver.__init__", "qutip/solver/brmesolve.py", "BRSolver.__init__", ["self"], None),
    ("brmesolve", "qutip/solver/brmesolve.py", "brmesolve", ["kwargs"], None),
    ("krylovsolve", "qutip/solver/krylovsolve.py", "krylovsolve", [], None),
    # the scipy integrators' callback: reshapes a *new* Dense wrapper around
    # scipy's vector in place, never the caller's object
    ("IntegratorScipyAdams._mul_np_vec", "qutip/solver/integrator/scipy_integrator.py",
     "IntegratorScipyAdams._mul_np_vec", [], None),
    ("IntegratorScipyDop853._mul_np_vec", "qutip/solver/integrator/scipy_integrator.py",
     "IntegratorScipyDop853._mul_np_vec", [], None),
    # ---- third wave: solver-level entry points
    ("steadystate", "qutip/solver/steadystate.py", "steadystate", ["kwargs"], None),
    ("_permute_wbm", "qutip/solver/steadystate.py", "_permute_wbm", [], None),
    ("_permute_rcm", "qutip/solver/steadystate.py", "_permute_rcm", [], None),
    ("_reverse_rcm", "qutip/solver/steadystate.py", "_reverse_rcm", [], None),
    ("_steadystate_direct", "qutip/solver/steadystate.py", "_steadystate_direct", ["kw"], None),
    ("_steadystate_eigen", "qutip/solver/steadystate.py", "_steadystate_eigen", ["kw"], None),
    ("_steadystate_svd", "qutip/solver/steadystate.py", "_steadystate_svd", ["kw"], None),
    ("_steadystate_expm", "qutip/solver/steadystate.py", "_steadystate_expm", ["kw"], None),
    ("_steadystate_power", "qutip/solver/steadystate.py", "_steadystate_power", ["kw"], None),
    ("pseudo_inverse", "qutip/solver/steadystate.py", "pseudo_inverse", ["kwargs"], None),
    ("propagator", "qutip/solver/propagator.py", "propagator", ["kwargs"], None),
    ("propagator_steadystate", "qutip/solver/propagator.py", "propagator_steadystate", [], None),
    ("correlation_2op_1t", "qutip/solver/correlation.py", "correlation_2op_1t", [], None),
    ("correlation_2op_2t", "qutip/solver/correlation.py", "correlation_2op_2t", [], None),
    ("correlation_3op_1t", "qutip/solver/correlation.py", "correlation_3op_1t", [], None),
    ("_make_solver", "qutip/solver/correlation.py", "_make_solver", [], None),
    ("correlation_3op", "qutip/solver/correlation.py", "correlation_3op", ["solver"], None),
    ("spectrum", "qutip/solver/spectrum.py", "spectrum", [], None),
    ("_spectrum_es", "qutip/solver/spectrum.py", "_spectrum_es", [], None),
    ("_spectrum_pi", "qutip/solver/spectrum.py", "_spectrum_pi", [], None),
    ("FMESolver.__init__", "qutip/solver/floquet.py", "FMESolver.__init__", ["self"], None),
    ("StochasticSolver.__init__", "qutip/solver/stochastic.py", "StochasticSolver.__init__", ["self"], "MultiTrajSolver"),
    ("smesolve", "qutip/solver/stochastic.py", "smesolve", ["kwargs"], None),
    ("ssesolve", "qutip/solver/stochastic.py", "ssesolve", ["kwargs"], None),
    ("HEOMSolver.__init__", "qutip/solver/heom/bofin_solvers.py", "HEOMSolver.__init__", ["self"], "Solver"),
    ("Coefficient.replace_arguments", "qutip/core/cy/coefficient.pyx", "Coefficient.replace_arguments", [], None),
    ("Coefficient.__add__", "qutip/core/cy/coefficient.pyx", "Coefficient.__add__", [], None),
    ("Coefficient.__mul__", "qutip/core/cy/coefficient.pyx", "Coefficient.__mul__", [], None),
    ("Coefficient.conj", "qutip/core/cy/coefficient.pyx", "Coefficient.conj", [], None),
    ("FunctionCoefficient.replace_arguments", "qutip/core/cy/coefficient.pyx", "FunctionCoefficient.replace_arguments", ["kwargs"], None),
    ("StrFunctionCoefficient.replace_arguments", "qutip/core/cy/coefficient.pyx", "StrFunctionCoefficient.replace_arguments", ["kwargs"], None),
    ("SumCoefficient.replace_arguments", "qutip/core/cy/coefficient.pyx", "SumCoefficient.replace_arguments", ["kwargs"], None),
    ("MulCoefficient.replace_arguments", "qutip/core/cy/coefficient.pyx", "MulCoefficient.replace_arguments", ["kwargs"], None),
    ("ConjCoefficient.replace_arguments", "qutip/core/cy/coefficient.pyx", "ConjCoefficient.replace_arguments", ["kwargs"], None),
    ("NormCoefficient.replace_arguments", "qutip/core/cy/coefficient.pyx", "NormCoefficient.replace_arguments", ["kwargs"], None),
    ("ConstantCoefficient.replace_arguments", "qutip/core/cy/coefficient.pyx", "ConstantCoefficient.replace_arguments", ["kwargs"], None),
]

# constructor / method calls that are inlined: (caller, callee key) -> callee
INLINE = {
    ("MultiTrajResult.merge", "self.__class__"): ("MultiTrajResult.__init__", "new"),
    ("MultiTrajResult.__init__", "super().__init__"): ("_BaseResult.__init__", "self"),
    ("MultiTrajResult.__init__", "._post_init"): ("MultiTrajResult._post_init", "self"),
    ("Qobj.__init__", "._initialize_data"): ("Qobj._initialize_data", "self"),
    ("Qobj.__init__[copy=False]", "._initialize_data"): ("Qobj._initialize_data", "self"),
    ("QobjEvo.__init__", ".arguments"): ("QobjEvo.arguments", "self"),
    ("QobjEvo.__init__", ".compress"): ("QobjEvo.compress", "self"),
}

# augmented assignments whose target holds an immutable scalar at run time
# (confirmed on real objects by the harness, probe `immutable_targets`)
IMMUTABLE_TARGETS = {
    "MultiTrajResult.merge": ['new.stats["run time"]'],
    # `A += ...` on a Qobj rebinds (Qobj has no in-place operators; these
    # functions refuse a QobjEvo): probe qobj_immutable_augassign
    "steadystate": ["A"], "_steadystate_power": ["A"], "pseudo_inverse": ["L"],
    # amplitudes are Python complex numbers (probe expect_returns_scalar)
    "_spectrum_es": ["clean_ampls[-1]"],
    "_BaseResult.add_processor": [],
}


def S(mut=(), ret=("new", []), contract=None, probe=None, fallback=None, mut_path=()):
    """fallback = (extra owned parameters, extra mut): used instead of the
    plain contract when the callee's own obligation does not hold.
    mut_path = [(k, field, W)]: the callee writes fields W of the container
    held in `field` of argument k (not the field itself)."""
    return {"mut": list(mut), "ret": ret, "contract": contract, "probe": probe,
            "fallback": fallback, "mut_path": list(mut_path)}


# branches not covered (documented ownership transfer), by function
ASSUME = {
    # the two documented modes of the Qobj constructor
    "Qobj.__init__": {"copy": True},
    "Qobj.__init__[copy=False]": {"copy": False},
    # in-place modes are documented: separate variants with `self` owned
    "Qobj.unit": {"inplace": False}, "Qobj.unit[inplace=True]": {"inplace": True},
    "Qobj.contract": {"inplace": False}, "Qobj.contract[inplace=True]": {"inplace": True},
    "Propagator.__init__": {"isinstance(system, MultiTrajSolver)": False,
                            "isinstance(system, HEOMSolver)": False,
                            "isinstance(system, Solver)": False},
}
# exit assertions: on every normal exit of the function these fields of the
# variable hold containers created during the call (what the constructor
# summary `RNew EVO_FIELDS` claims)
EXIT_ASSERT = {"QobjEvo.__init__": ("self", ("elements", "_feedback_functions", "_solver_only_feedback")),
               "Qobj.__init__": ("self", ("_data",))}
# functions that are only inlined, never an obligation of their own
INLINE_ONLY = {"MultiTrajResult._post_init", "Qobj._initialize_data"}


NEW = ("new", [])
OLD = ("old",)

# callee key -> effect summary.  mut: list of (argument index, fields
# written); for translated callees `contract` = (function, extra owned params)
# and mut is given by parameter *name*.
SUMMARIES = {
    # ---- pure builtins / library functions returning new or immutable objects
    "isinstance": S(), "len": S(), "callable": S(), "bool": S(), "int": S(),
    "float": S(), "max": S(ret=OLD), "min": S(ret=OLD), "abs": S(), "str": S(),
    "type": S(ret=OLD), "hasattr": S(), "any": S(), "all": S(), "repr": S(),
    "time": S(), "zip": S(ret=("new", [])), "enumerate": S(), "range": S(),
    "list": S(probe="list_copy"), "dict": S(probe="dict_copy"), "tuple": S(),
    "set": S(), "sum": S(probe="sum_fresh"), "copy": S(probe="copy_copy"),
    "partial": S(), "TypeError": S(), "ValueError": S(), "KeyError": S(),
    "NotImplementedError": S(), "getattr": S(ret=OLD),
    "warnings.warn": S(), "np.*": S(), "numbers.*": S(), "itertools.product": S(),
    "_data.*": S(probe="data_fresh"), "scipy.*": S(),
    # _data.to(type, x) returns x itself when it already has that type;
    # _data.create(x, copy=False) returns x itself when it is a Data
    "_data.to": S(ret=("argornew", 1), probe="data_to_create"),
    "_data.create": S(ret=("argornew", 0), probe="data_to_create"),
    "_data.create[copy]": S(probe="data_to_create"),
    "_data.to.parse": S(),
    # ---- fifth wave
    ".U": S(mut_path=[(0, "U", ["times", "props", "invs", "solver", "args", "cte", "unitary"])],
            probe="propagator_call"),
    "FloquetBasis": S(contract=("FloquetBasis.__init__", [])),
    "fsesolve": S(contract=("fsesolve", [])),
    "HEOMSolver": S(contract=("HEOMSolver.__init__", [])),
    "FMESolver": S(contract=("FMESolver.__init__", [])),
    # the Propagator memoisation inside a FloquetBasis is a cache; values are probed
    ".to_floquet_basis": S(probe="floquet_basis_methods"), ".from_floquet_basis": S(probe="floquet_basis_methods"),
    ".mode": S(probe="floquet_basis_methods"), ".state": S(probe="floquet_basis_methods"),
    "Result": S(probe="result_ctor_add"), "FloquetResult": S(probe="result_ctor_add"),
    ".add": S(mut=[(0, ALL)], probe="result_ctor_add"),
    "_data.eigs": S(ret=("new", ["[]"])),
    # in Qobj.to the conversion is only reached when the type differs (guards above it)
    "_data.to@Qobj.to": S(probe="qobj_to"),
    ".__neg__": S(contract=("Qobj.__neg__", [])), "complex": S(),
    ".__add__": S(contract=("Qobj.__add__", [])), ".__mul__": S(contract=("Qobj.__mul__", [])),
    ".__matmul__": S(contract=("Qobj.__matmul__", [])),
    "qutip.vector_to_operator": S(probe="state_helpers"), "qutip.operator_to_vector": S(probe="state_helpers"),
    # return their argument itself when it already has the representation
    "qutip.to_choi": S(ret=("argornew", 0), probe="superop_reps_fresh"),
    "qutip.to_super": S(ret=("argornew", 0), probe="superop_reps_fresh"),
    "qutip.to_kraus": S(probe="superop_reps_fresh"), "qutip.tensor_swap": S(probe="superop_reps_fresh"),
    "flatten": S(), "unflatten": S(), "enumerate_flat": S(), "collapse_dims_super": S(),
    "collapse_dims_oper": S(), "deep_remove": S(), "dims_idxs_to_tensor_idxs": S(),
    "dims_to_tensor_perm": S(), "dims_to_tensor_shape": S(),
    "_data.INPLACE": S(mut=[(0, ALL)], ret=("arg", 0), probe="data_inplace"),
    "column_stack_dense": S(mut=[(0, ["shape"])], ret=("arg", 0), probe="reshape_kernels"),
    "column_unstack_dense": S(mut=[(0, ["shape"])], ret=("arg", 0), probe="reshape_kernels"),
    ".matmul_data": S(probe="matmul_data_pure"), ".ravel": S(ret=("arg", 0)), ".view": S(ret=("arg", 0)),
    "Dimensions": S(), "qeye": S(), "qutip.qeye": S(), "qutip.qeye_like": S(),
    "qutip.tensor": S(),
    "spre": S(probe="spre_fresh"), "spost": S(probe="spre_fresh"),
    "sprepost": S(probe="spre_fresh"),
    "Qobj": S(ret=("new", ["_data"]), probe="qobj_ctor", contract=("Qobj.__init__", [])),
    "qutip.Qobj": S(ret=("new", ["_data"]), probe="qobj_ctor", contract=("Qobj.__init__", [])),
    "QobjEvo": S(ret=("new", EVO_FIELDS), probe="qobjevo_ctor", contract=("QobjEvo.__init__", [])),
    "coefficient": S(probe="coefficient_fresh"),
    "_ConstantElement": S(), "_EvoElement": S(), "_FuncElement": S(),
    "_MCRHS": S(), "_Feedback": S(),
    "BINOP": S(probe="binop_fresh"), "UNOP": S(probe="binop_fresh"),
    # ---- methods returning new objects, receiver unchanged
    ".copy": S(probe="method_copy"), ".dag": S(probe="unary_fresh"),
    ".conj": S(probe="unary_fresh"), ".trans": S(probe="unary_fresh"),
    ".items": S(), ".keys": S(), ".values": S(), ".get": S(ret=OLD),
    ".qobj": S(ret=OLD), ".coeff": S(), ".linear_map": S(),
    ".replace_arguments": S(probe="replace_arguments_fresh"),
    ".check_consistency": S(), ".tr": S(), ".norm": S(), ".format": S(),
    ".total_time": S(), ".to": S(probe="qobj_to"),
    ".__rmatmul__": S(contract=("QobjEvo.__rmatmul__", [])),
    ".run": S(probe="solver_run"),
    ".rhs": S(probe="qobjevo_call"), ".adjoint": S(), ".full": S(),
    "LOCALCALL": S(probe="qobjevo_call"),   # `res(0)`: evaluation of a local QobjEvo
    "CALLBACK": S(ret=OLD),     # a callable passed in by the caller: assumed not to modify its arguments
    # ---- mutating methods (receiver is argument 0)
    ".append": S(mut=[(0, ITEMS)], probe="list_append"),
    ".update": S(mut=[(0, ITEMS)], probe="dict_update"),
    ".pop": S(mut=[(0, ITEMS)], ret=OLD, probe="dict_pop"),
    ".tidyup": S(mut=[(0, ALL)], ret=("arg", 0), probe="qobj_tidyup"),
    ".compress": S(mut=[(0, ["elements"])], contract=("QobjEvo.compress", [])),
    ".arguments": S(mut=[(0, EVO_FIELDS)],
                    contract=("QobjEvo.arguments", [])),
    "._read_args": S(mut_path=[(0, "_feedback_functions", ITEMS), (0, "_solver_only_feedback", ITEMS)],
                     contract=("QobjEvo._read_args", [])),
    "._read_element": S(mut=[(0, ["_dims", "shape"])], contract=("QobjEvo._read_element", [])),
    "._register_feedback": S(mut=[(0, ["elements"])],
                             contract=("QobjEvo._register_feedback", [])),
    "._update_feedback": S(mut=[(0, ["_feedback_functions", "_solver_only_feedback"])],
                           contract=("QobjEvo._update_feedback", [])),
    "._compress_merge_qobj": S(),
    ".__imatmul__": S(mut=[(0, EVO_FIELDS)], ret=("arg", 0),
                      contract=("QobjEvo.__imatmul__", [])),
    ".__imul__": S(mut=[(0, EVO_FIELDS)], ret=("arg", 0),
                   contract=("QobjEvo.__imul__", [])),
    ".start": S(mut=[(0, ALL)], probe="solver_start"),
    ".add_processor": S(mut=[(0, ["_state_processors", "_state_processors_require_copy"])],
                        probe="add_processor"),
    "._e_ops_to_dict": S(ret=OLD),
    "._get_integrator": S(mut=[(0, ["_init_integrator_time"])], probe="get_integrator"),
    "._initialize_stats": S(probe="initialize_stats"),
    "._no_end": S(),
    # property setter `solver.options = ...`
    "SETATTR:options": S(mut=[(0, ["_options", "_integrator", "options"])],
                         probe="options_setter"),
    # property getters that compute (merge reads them for their caching effect
    # on the *operand*; see K probe `average_states_getter`)
    # ---- translated callees (summary justified by their own obligation)
    "_kwargs_migration": S(ret=("choice", 0, 1), probe="kwargs_migration"),
    "_solver_deprecation": S(mut=[("kwargs", ITEMS)], ret=("argornew", 1),
                             contract=("_solver_deprecation", []),
                             fallback=(["options"], [("options", ITEMS)])),
    "Solver.__init__": S(mut=[("self", ALL)], contract=("Solver.__init__", [])),
    "super().__init__@SESolver.__init__": S(mut=[("self", ALL)], contract=("Solver.__init__", [])),
    "super().__init__@MCSolver.__init__": S(mut=[("self", ALL)], contract=("MultiTrajSolver.__init__", [])),
    "SESolver": S(contract=("SESolver.__init__", [])),
    "MESolver": S(contract=("MESolver.__init__", []),
                  fallback=(["H"], [("H", ALL)])),
    "MCSolver": S(contract=("MCSolver.__init__", [])),
    "sesolve": S(contract=("sesolve", []),
                 fallback=(["options", "_options"],
                           [("options", ITEMS), ("_options", ITEMS)])),
    "mesolve": S(contract=("mesolve", []),
                 fallback=(["options", "_options"],
                           [("options", ITEMS), ("_options", ITEMS)])),
    "liouvillian": S(contract=("liouvillian", [])),
    "lindblad_dissipator": S(contract=("lindblad_dissipator", [])),
    "_TrajectorySum.merge": S(contract=("_TrajectorySum.merge", [])),
    # ---- second wave
    "FunctionCoefficient": S(probe="coeff_ctor_fresh"), "StrFunctionCoefficient": S(probe="coeff_ctor_fresh"),
    "SumCoefficient": S(probe="coeff_ctor_fresh"), "MulCoefficient": S(probe="coeff_ctor_fresh"),
    "ConjCoefficient": S(probe="coeff_ctor_fresh"), "NormCoefficient": S(probe="coeff_ctor_fresh"),
    "ConstantCoefficient": S(probe="coeff_ctor_fresh"), "InterCoefficient": S(probe="coeff_ctor_fresh"),
    "add_inter": S(probe="coeff_ctor_fresh"), "SpectraCoefficient": S(probe="coeff_ctor_fresh"),
    "_MultiTrajRHS": S(), "SeedSequence": S(),
    "_StochasticRHS": S(contract=("_StochasticRHS.__init__", [])),
    "super().__init__@StochasticSolver.__init__": S(mut=[("self", ALL)], contract=("MultiTrajSolver.__init__", [])),
    "SMESolver": S(contract=("StochasticSolver.__init__", [])),
    "SSESolver": S(contract=("StochasticSolver.__init__", [])),
    "BRSolver": S(contract=("BRSolver.__init__", [])),
    "._prepare_rhs": S(mut=[(0, ["_init_rhs_time"])], probe="br_prepare_rhs"),
    "bloch_redfield_tensor": S(probe="br_tensor_fresh"),
    "floquet_tensor": S(probe="floquet_tensor_fresh"),
    "inspect.signature": S(), ".signature": S(),
    # ---- third wave
    "RuntimeError": S(), "Exception": S(), "warn": S(), "hilbert_dist": S(), "print": S(), "sorted": S(), "reversed": S(), "map": S(),
    ".split": S(), ".lower": S(), ".startswith": S(), ".join": S(),
    ".as_scipy": S(ret=("arg", 0), probe="data_views"), ".as_ndarray": S(ret=("arg", 0), probe="data_views"),
    ".eigenstates": S(probe="qobj_pure_methods"), ".eigenenergies": S(probe="qobj_pure_methods"),
    ".unit": S(probe="qobj_pure_methods"), ".expm": S(probe="qobj_pure_methods"),
    ".inv": S(probe="qobj_pure_methods"), ".ptrace": S(probe="qobj_pure_methods"),
    ".proj": S(probe="qobj_pure_methods"), ".transform": S(probe="qobj_pure_methods"),
    ".to_array": S(), ".tolist": S(), ".flatten": S(), ".reshape": S(ret=("arg", 0)),
    ".conjugate": S(), ".astype": S(), ".nonzero": S(), ".toarray": S(), ".tocsc": S(),
    ".tocsr": S(), ".transpose": S(), ".sort": S(mut=[(0, ITEMS)]), ".solve": S(),
    ".dot": S(), ".diagonal": S(), ".sum": S(), ".mean": S(), ".max": S(), ".min": S(),
    "rand_dm": S(), "qeye_like": S(), "isket": S(), "isoper": S(), "issuper": S(), "isbra": S(),
    "ket2dm": S(probe="state_helpers"), "operator_to_vector": S(probe="state_helpers"),
    "vector_to_operator": S(probe="state_helpers"), "stack_columns": S(probe="state_helpers"),
    "unstack_columns": S(probe="state_helpers"), "expect": S(probe="state_helpers"),
    "_permute_wbm": S(contract=("_permute_wbm", [])), "_permute_rcm": S(contract=("_permute_rcm", [])),
    "_reverse_rcm": S(contract=("_reverse_rcm", [])),
    "steadystate": S(contract=("steadystate", [])),
    "_steadystate_direct": S(contract=("_steadystate_direct", [])),
    "_steadystate_eigen": S(contract=("_steadystate_eigen", [])),
    "_steadystate_svd": S(contract=("_steadystate_svd", [])),
    "_steadystate_expm": S(contract=("_steadystate_expm", [])),
    "_steadystate_power": S(contract=("_steadystate_power", [])),
    "_make_solver": S(contract=("_make_solver", [])),
    "correlation_3op": S(mut=[("solver", ALL)], contract=("correlation_3op", [])),
    "_correlation_3op_dm": S(mut=[(0, ALL)], probe="correlation_3op_dm"),
    "_spectrum_es": S(contract=("_spectrum_es", [])), "_spectrum_pi": S(contract=("_spectrum_pi", [])),
    "_compute_precond": S(), "_diagonal_evolution": S(ret=("new", ["[]"]), probe="diagonal_evolution"),
    "Propagator": S(contract=("Propagator.__init__", [])),
    "propagator": S(contract=("propagator", [])),
    "qutip.QobjEvo": S(ret=("new", EVO_FIELDS), probe="qobjevo_ctor", contract=("QobjEvo.__init__", [])),
    "HierarchyADOs": S(probe="heom_ctor"), "CoreOptions": S(),
    "._combine_bath_exponents": S(probe="heom_ctor"),
    "._calculate_rhs": S(mut=[(0, ALL)], probe="heom_ctor"),
    "super().__init__@HEOMSolver.__init__": S(mut=[("self", ALL)], contract=("Solver.__init__", [])),
}

FUNC_INDEX = {f[0]: f for f in FUNCS}


# ------------------------------------------------------------- source access
def _strip_cython(src):
    """Turn the Python-like subset of a .pyx method into Python."""
    out = []
    for line in src.split("\n"):
        if re.match(r"\s*cdef\s+[\w ]+?\s+\w+\(", line):
            out.append(line)            # a cdef function header, handled below
            continue
        if re.match(r"\s*cdef\s+[\w\[\], .*]+?(\s*=.*)?$", line) and "(" not in line.split("=")[0]:
            m = re.match(r"(\s*)cdef\s+[\w.]+\s+(\w+)\s*=\s*(.*)$", line)
            if m:
                out.append("%s%s = %s" % (m.group(1), m.group(2), m.group(3)))
            continue
        line = re.sub(r"<\s*[\w.]+\s*>\s*", "", line)
        out.append(line)
    src = "\n".join(out)
    src = re.sub(r"^(\s*)c?pdef\s+[\w.]+\s+(\w+\()", r"\1def \2", src, flags=re.M)
    src = re.sub(r"^(\s*)cdef\s+[\w ]+?\s+(\w+\()", r"\1def \2", src, count=1, flags=re.M)
    src = re.sub(r"\)\s*(?:nogil\s*)?except\s*[\w*?-]+\s*:", "):", src, count=1)
    # typed parameters in the signature:  (QobjEvo self, dict _args=None, double t)
    def fix_sig(m):
        sig = m.group(2)
        sig = re.sub(r"\b(QobjEvo|dict|double|object|Data|Dense|bint|int|str|list)\s+(\w+)",
                     r"\2", sig)
        return m.group(1) + sig + m.group(3)
    src = re.sub(r"(def\s+\w+\()([^)]*)(\))", fix_sig, src, count=1, flags=re.S)
    return src


def get_function(relpath, qualname, repo=None):
    path = os.path.join(repo or vlib.REPO, relpath)
    text = open(path).read()
    parts = qualname.split(".")
    if relpath.endswith(".pyx"):
        cls, meth = parts
        m = re.search(r"^cdef class %s\b.*?:\n" % cls, text, flags=re.M)
        if not m:
            raise Unsupported("class %s not found in %s" % (cls, relpath))
        body = text[m.end():]
        mm = re.search(r"^    (?:def|cpdef\s+[\w.]+|cdef\s+[\w ]+?)\s+%s\(" % re.escape(meth), body,
                       flags=re.M)
        if not mm:
            raise Unsupported("method %s not found in %s" % (qualname, relpath))
        rest = body[mm.start():]
        lines = rest.split("\n")
        keep = [lines[0]]
        in_sig = ")" not in lines[0] or not lines[0].rstrip().endswith(":")
        for ln in lines[1:]:
            if in_sig:
                keep.append(ln)
                if ln.rstrip().endswith(":"):
                    in_sig = False
                continue
            if ln.strip() == "" or ln.startswith("        ") or ln.startswith("    )"):
                keep.append(ln)
            else:
                break
        src = textwrap.dedent("\n".join(keep))
        src = _strip_cython(src)
        try:
            tree = ast.parse(src)
        except SyntaxError as e:
            raise Unsupported("cython subset: %s does not parse after stripping (%s)"
                              % (qualname, e))
        fn = tree.body[0]
        if not isinstance(fn, ast.FunctionDef):
            raise Unsupported("not a function: " + qualname)
        return fn
    tree = ast.parse(text)
    node = tree
    for p in parts:
        found = None
        for ch in node.body:
            if isinstance(ch, (ast.FunctionDef, ast.ClassDef)) and ch.name == p:
                found = ch
        if found is None:
            raise Unsupported("%s not found in %s" % (qualname, relpath))
        node = found
    return node


# ----------------------------------------------------------------- compiler
def q(s):
    return '"%s"' % s.replace('"', "'")


def clist(xs):
    return "[" + "; ".join(xs) + "]"


class Compiler:
    def __init__(self, fname, fn, owned, repo=None, prefix="", self_alias=None):
        self.fname = fname
        self.fn = fn
        self.repo = repo
        self.prefix = prefix
        self.ntemp = [0]
        self.contracts = set()
        self.probes = set()
        self.fields = set(["*", "[]"])
        self.notes = []
        a = fn.args
        self.params = [x.arg for x in a.posonlyargs + a.args]
        if a.vararg:
            self.params.append(a.vararg.arg)
        self.params += [x.arg for x in a.kwonlyargs]
        if a.kwarg:
            self.params.append(a.kwarg.arg)
        self.locals = set(self.params)
        for n in ast.walk(fn):
            if isinstance(n, ast.Name) and isinstance(n.ctx, ast.Store):
                self.locals.add(n.id)
            if isinstance(n, (ast.Global, ast.Nonlocal)):
                raise Unsupported("global/nonlocal")
        # names that only ever hold a list built in this function: `x += ...`
        # on them extends the list (writes its items), nothing else
        def listy(e, names):
            if isinstance(e, (ast.List, ast.ListComp)):
                return True
            if isinstance(e, ast.Call) and isinstance(e.func, ast.Name) and e.func.id == "list":
                return True
            if isinstance(e, ast.BinOp) and isinstance(e.op, ast.Add):
                return listy(e.left, names) and listy(e.right, names)
            if isinstance(e, ast.Name):
                return e.id in names
            return False
        assigns = {}
        for n in ast.walk(fn):
            if isinstance(n, ast.Assign):
                for tg in n.targets:
                    for nm in ast.walk(tg):
                        if isinstance(nm, ast.Name):
                            assigns.setdefault(nm.id, []).append(
                                n.value if isinstance(tg, ast.Name) else None)
            elif isinstance(n, (ast.For, ast.comprehension)):
                for nm in ast.walk(n.target):
                    if isinstance(nm, ast.Name):
                        assigns.setdefault(nm.id, []).append(None)
            elif isinstance(n, (ast.AnnAssign, ast.NamedExpr)) and isinstance(n.target, ast.Name):
                assigns.setdefault(n.target.id, []).append(n.value)
            elif isinstance(n, ast.With):
                for it in n.items:
                    if it.optional_vars is not None:
                        for nm in ast.walk(it.optional_vars):
                            if isinstance(nm, ast.Name):
                                assigns.setdefault(nm.id, []).append(None)
        self.list_vars = set()
        changed = True
        cand = {k for k in assigns if k not in self.params}
        while changed:
            changed = False
            for k in sorted(cand - self.list_vars):
                if all(v is not None and listy(v, self.list_vars | {k}) for v in assigns[k]) \
                        and any(not isinstance(v, ast.Name) for v in assigns[k]):
                    self.list_vars.add(k)
                    changed = True
        self.immutable = IMMUTABLE_TARGETS.get(fname, [])
        self.rename = {}
        self.failed = set()
        self.assume = ASSUME.get(fname, {}) if not prefix else {}
        self.root_fname = fname

    # -- helpers
    def v(self, name):
        if name in self.rename:
            return self.rename[name]
        return self.prefix + name

    def temp(self):
        self.ntemp[0] += 1
        return "%s$%d" % (self.prefix, self.ntemp[0])

    def call_ir(self, mut, ret, args):
        m = clist("(%d, %s)" % (k, clist(q(f) for f in W)) for k, W in mut)
        for _, W in mut:
            self.fields.update(W)
        if ret[0] == "new":
            self.fields.update(ret[1])
            r = "RNew %s" % clist(q(f) for f in ret[1])
        elif ret[0] in ("choice", "argornew"):
            raise Unsupported("choice return must be handled by caller")
        elif ret[0] == "arg":
            r = "RArg %d" % ret[1]
        else:
            r = "ROld"
        return "ECall %s (%s) %s" % (m, r, clist(q(a) for a in args))

    def assign(self, out, x, e):
        out.append("SAssign %s (%s)" % (q(x), e))

    def new(self, out):
        t = self.temp()
        self.assign(out, t, "ENew")
        return t

    # -- callee key
    def callee_key(self, f):
        if isinstance(f, ast.Name):
            if f.id in self.params:
                self.notes.append("callback parameter `%s` assumed pure" % f.id)
                return "CALLBACK", None
            if f.id in self.locals:
                return "LOCALCALL", None
            return f.id, None
        if isinstance(f, ast.Attribute):
            base = f.value
            if isinstance(base, ast.Name) and base.id == "_data" and _data_inplace(f.attr):
                return "_data.INPLACE", None      # iadd_dense, imul_*, tidyup*, *(inplace=...)
            if isinstance(base, ast.Name) and base.id == "_data" and f.attr in ("create", "to"):
                return "_data." + f.attr, None
            if isinstance(base, ast.Name) and base.id in ("_data", "np", "numbers", "scipy"):
                return base.id + ".*", None
            if isinstance(base, ast.Attribute) and isinstance(base.value, ast.Name) \
                    and base.value.id in ("_data", "np", "scipy"):
                if base.value.id == "_data" and _data_inplace(f.attr):
                    return "_data.INPLACE", None
                return base.value.id + ".*", None
            if isinstance(base, ast.Attribute) and isinstance(base.value, ast.Attribute) \
                    and isinstance(base.value.value, ast.Name) and base.value.value.id in ("scipy", "np"):
                return base.value.value.id + ".*", None
            if isinstance(base, ast.Name) and base.id in ("warnings", "itertools", "qutip") \
                    and base.id not in self.locals:
                return base.id + "." + f.attr, None
            if isinstance(base, ast.Call) and isinstance(base.func, ast.Name) \
                    and base.func.id == "super" and f.attr == "__init__":
                return "super().__init__", None
            if isinstance(base, ast.Call) and isinstance(base.func, ast.Name) \
                    and base.func.id == "super":
                return "super()." + f.attr, None
            if isinstance(base, ast.Name) and base.id not in self.locals \
                    and base.id[:1].isupper() or (isinstance(base, ast.Name)
                                                  and base.id == "_TrajectorySum"):
                return base.id + "." + f.attr, None      # Class.method(...)
            if f.attr == "__class__":
                return "self.__class__", None
            return "." + f.attr, base
        if isinstance(f, ast.Subscript) and isinstance(f.value, ast.Attribute) \
                and isinstance(f.value.value, ast.Name) and f.value.value.id == "_data":
            # a specialisation picked from a dispatcher: _data.one_element[dtype](...)
            if _data_inplace(f.value.attr):
                return "_data.INPLACE", None
            return "_data.*", None
        raise Unsupported("call of %s" % ast.dump(f)[:60])

    # -- expressions: return the variable holding the value
    def expr(self, e, out):
        if isinstance(e, ast.Name):
            if e.id in self.locals:
                return self.v(e.id)
            t = self.temp()
            self.assign(out, t, "EOld")
            return t
        if isinstance(e, (ast.Constant, ast.JoinedStr, ast.Lambda)):
            if isinstance(e, ast.Lambda):
                self.notes.append("lambda body not analysed")
            return self.new(out)
        if isinstance(e, ast.Attribute):
            b = self.expr(e.value, out)
            t = self.temp()
            attr = FIELD_ALIAS.get(e.attr, e.attr)
            self.fields.add(attr)
            self.assign(out, t, "ELoad %s %s" % (q(b), q(attr)))
            return t
        if isinstance(e, ast.Subscript):
            b = self.expr(e.value, out)
            if not isinstance(e.slice, ast.Slice):
                self.expr(e.slice, out)
                t = self.temp()
                self.assign(out, t, "ELoad %s %s" % (q(b), q("[]")))
                return t
            t = self.temp()
            self.assign(out, t, self.call_ir([], NEW, [b]))
            return t
        if isinstance(e, ast.BinOp):
            l = self.expr(e.left, out)
            r = self.expr(e.right, out)
            self.probes.add(SUMMARIES["BINOP"]["probe"])
            t = self.temp()
            self.assign(out, t, self.call_ir([], NEW, [l, r]))
            return t
        if isinstance(e, ast.UnaryOp):
            o = self.expr(e.operand, out)
            t = self.temp()
            self.assign(out, t, self.call_ir([], NEW, [o]))
            return t
        if isinstance(e, ast.Compare):
            self.expr(e.left, out)
            for c in e.comparators:
                self.expr(c, out)
            return self.new(out)
        if isinstance(e, ast.BoolOp):
            vs = [self.expr(x, out) for x in e.values]
            cur = vs[0]
            for nxt in vs[1:]:
                t = self.temp()
                self.assign(out, t, "EChoice %s %s" % (q(cur), q(nxt)))
                cur = t
            return cur
        if isinstance(e, ast.IfExp) and ast.unparse(e.test) in self.assume:
            self.notes.append("conditional expression decided by assumption: %s is %s" % (
                ast.unparse(e.test), self.assume[ast.unparse(e.test)]))
            return self.expr(e.body if self.assume[ast.unparse(e.test)] else e.orelse, out)
        if isinstance(e, ast.IfExp):
            self.expr(e.test, out)
            a_out, b_out = [], []
            a = self.expr(e.body, a_out)
            b = self.expr(e.orelse, b_out)
            t = self.temp()
            self.assign(a_out, t, "EVar %s" % q(a))
            self.assign(b_out, t, "EVar %s" % q(b))
            out.append("SIf (%s) (%s)" % (self.block(a_out), self.block(b_out)))
            return t
        if isinstance(e, (ast.List, ast.Tuple, ast.Set)):
            t = self.new(out)
            for x in e.elts:
                xv = self.expr(x.value if isinstance(x, ast.Starred) else x, out)
                out.append("SStore %s %s %s" % (q(t), q("[]"), q(xv)))
            return t
        if isinstance(e, ast.Dict):
            t = self.new(out)
            for k, x in zip(e.keys, e.values):
                if k is not None:
                    self.expr(k, out)
                xv = self.expr(x, out)
                if k is None:       # {**a, **b}: items of a are copied in
                    it = self.temp()
                    self.assign(out, it, "ELoad %s %s" % (q(xv), q("[]")))
                    xv = it
                out.append("SStore %s %s %s" % (q(t), q("[]"), q(xv)))
            return t
        if isinstance(e, (ast.ListComp, ast.GeneratorExp, ast.SetComp, ast.DictComp)):
            t = self.new(out)
            self.comp(e, 0, t, out)
            return t
        if isinstance(e, ast.Starred):
            return self.expr(e.value, out)
        if isinstance(e, ast.NamedExpr):
            x = self.expr(e.value, out)
            self.assign(out, self.v(e.target.id), "EVar %s" % q(x))
            return self.v(e.target.id)
        if isinstance(e, ast.Call):
            return self.call(e, out)
        raise Unsupported("expression %s" % type(e).__name__)

    def comp(self, e, k, acc, out):
        if k == len(e.generators):
            if isinstance(e, ast.DictComp):
                self.expr(e.key, out)
                xv = self.expr(e.value, out)
            else:
                xv = self.expr(e.elt, out)
            out.append("SStore %s %s %s" % (q(acc), q("[]"), q(xv)))
            return
        g = e.generators[k]
        body = []
        self.bind_iter(g.target, g.iter, out, body)
        inner = []
        for c in g.ifs:
            self.expr(c, body)
        self.comp(e, k + 1, acc, inner)
        if g.ifs:
            body.append("SIf (%s) (SSkip)" % self.block(inner))
        else:
            body += inner
        out.append("SLoop (%s)" % self.block(body))

    def bind_iter(self, target, it, out, body):
        """evaluate the iterable once (into out), bind the loop target at the
        start of body"""
        if isinstance(it, ast.Call) and isinstance(it.func, ast.Name) \
                and it.func.id in ("zip", "enumerate") and isinstance(target, ast.Tuple):
            srcs = [self.expr(a, out) for a in it.args]
            if it.func.id == "enumerate":
                srcs = [None] + srcs
            if len(srcs) == len(target.elts):
                for tg, s in zip(target.elts, srcs):
                    if s is None:
                        self.store_target(tg, self.new(body), body)
                    else:
                        t = self.temp()
                        self.assign(body, t, "ELoad %s %s" % (q(s), q("[]")))
                        self.store_target(tg, t, body)
                return
        if isinstance(it, ast.Call) and isinstance(it.func, ast.Attribute) \
                and it.func.attr == "product" and isinstance(target, ast.Tuple) \
                and len(it.args) == len(target.elts):
            srcs = [self.expr(a, out) for a in it.args]
            for tg, s in zip(target.elts, srcs):
                t = self.temp()
                self.assign(body, t, "ELoad %s %s" % (q(s), q("[]")))
                self.store_target(tg, t, body)
            return
        if isinstance(it, ast.Call) and isinstance(it.func, ast.Attribute) \
                and it.func.attr == "items" and isinstance(target, ast.Tuple) \
                and len(target.elts) == 2 and not it.args:
            s = self.expr(it.func.value, out)
            self.store_target(target.elts[0], self.new(body), body)
            t = self.temp()
            self.assign(body, t, "ELoad %s %s" % (q(s), q("[]")))
            self.store_target(target.elts[1], t, body)
            return
        s = self.expr(it, out)
        t = self.temp()
        self.assign(body, t, "ELoad %s %s" % (q(s), q("[]")))
        self.store_target(target, t, body)

    def store_target(self, tg, val, out):
        if isinstance(tg, ast.Name):
            self.assign(out, self.v(tg.id), "EVar %s" % q(val))
        elif isinstance(tg, ast.Attribute):
            b = self.expr(tg.value, out)
            key = "SETATTR:" + tg.attr
            if key in SUMMARIES and self.fname.endswith("__init__") \
                    and "Solver" in self.fname:
                s = SUMMARIES[key]
                self.probes.add(s["probe"])
                t = self.temp()
                self.assign(out, t, self.call_ir(s["mut"], NEW, [b, val]))
            else:
                attr = FIELD_ALIAS.get(tg.attr, tg.attr)
                self.fields.add(attr)
                if attr in OWNERSHIP_FIELDS and self.root_fname not in NO_OWNERSHIP_ASSERT:
                    # representation invariant: these fields only ever receive a
                    # container created here (never one that belongs to another
                    # object).  Encoded as a callee that writes nothing to its
                    # argument 0 but must be allowed to: the checker rejects it
                    # unless `val` is certainly a new object.
                    t = self.temp()
                    self.assign(out, t, self.call_ir([(0, [])], NEW, [val]))
                out.append("SStore %s %s %s" % (q(b), q(attr), q(val)))
        elif isinstance(tg, ast.Subscript):
            b = self.expr(tg.value, out)
            if not isinstance(tg.slice, ast.Slice):
                self.expr(tg.slice, out)
            out.append("SStore %s %s %s" % (q(b), q("[]"), q(val)))
        elif isinstance(tg, (ast.Tuple, ast.List)):
            for x in tg.elts:
                t = self.temp()
                self.assign(out, t, "ELoad %s %s" % (q(val), q("[]")))
                self.store_target(x, t, out)
        elif isinstance(tg, ast.Starred):
            self.store_target(tg.value, val, out)
        else:
            raise Unsupported("assignment target %s" % type(tg).__name__)

    # -- calls
    def call(self, e, out):
        key, recv = self.callee_key(e.func)
        args_nodes = list(e.args) + [k.value for k in e.keywords]
        kwnames = [None] * len(e.args) + [k.arg for k in e.keywords]
        # inlined constructors / methods
        inl = INLINE.get((self.fname, key))
        if inl is not None:
            return self.inline(inl, e, recv, out)
        def kw_truth(name):
            """None: keyword absent; True/False: decided; "?": dynamic"""
            for k in e.keywords:
                if k.arg == name:
                    if isinstance(k.value, ast.Constant):
                        return bool(k.value.value)
                    txt = ast.unparse(k.value)
                    if txt in self.assume:
                        return bool(self.assume[txt])
                    return "?"
            return None
        if key == "_data.create" and kw_truth("copy") in (None, True):
            key = "_data.create[copy]"
        if key in ("Qobj", "qutip.Qobj"):
            cp = kw_truth("copy")
            if len(e.args) >= 3 and cp is None:
                cp = "?"                                  # copy passed positionally
            if cp in (False, "?") and e.args:
                # Qobj(x, ..., copy=False): the new Qobj adopts x as its data, so
                # x has to be an object created in this function
                a0 = self.expr(e.args[0], out)
                ta = self.temp()
                self.assign(out, ta, self.call_ir([(0, [])], NEW, [a0]))
                for x in list(e.args[1:]) + [k.value for k in e.keywords]:
                    self.expr(x, out)
                t = self.temp()
                self.assign(out, t, self.call_ir([], ("new", ["_data"]), [a0]))
                self.probes.add("qobj_ctor")
                return t
        full = "%s@%s" % (key, self.fname)
        s = SUMMARIES.get(full) or SUMMARIES.get(key)
        if s is None:
            raise Unsupported("no effect summary for callee `%s` (in %s)"
                              % (key, self.fname))
        args = []
        if recv is not None:
            args.append(self.expr(recv, out))
        elif key.startswith("super()."):
            args.append(self.v("self"))
        for a in args_nodes:
            args.append(self.expr(a, out))
        names = ([None] if (recv is not None or key.startswith("super().")) else []) + kwnames
        mut = []
        if s["contract"] is not None:
            cname, extra = s["contract"]
            smut = list(s["mut"])
            if cname in self.failed and s["fallback"] is not None:
                extra, more = s["fallback"]
                smut = smut + list(more)
            self.contracts.add((cname, tuple(extra)))
            cfn = get_function(FUNC_INDEX[cname][1], FUNC_INDEX[cname][2], self.repo)
            ca = cfn.args
            cparams = [x.arg for x in ca.posonlyargs + ca.args]
            is_ctor = cname.endswith("__init__") and key not in (
                "Solver.__init__",) and not key.startswith("super()")
            is_method = recv is not None
            offset = 1 if is_ctor else 0        # C(a, b): self is not an argument
            for pname, W in smut:
                if isinstance(pname, int):
                    mut.append((pname, W))
                    continue
                if pname == "self" and is_ctor:
                    continue
                idx = None
                if pname in names:
                    idx = names.index(pname)
                elif pname in cparams:
                    pos = cparams.index(pname) - offset
                    npos = len(args) - len([n for n in names if n is not None])
                    if 0 <= pos < npos:
                        idx = pos
                elif ca.kwarg is not None and pname == ca.kwarg.arg:
                    idx = None
                if idx is not None:
                    mut.append((idx, W))
        else:
            mut = [(k, W) for k, W in s["mut"]]
        if s["probe"]:
            self.probes.add(s["probe"])
        for k, fld, W in s["mut_path"]:
            tp = self.temp()
            self.fields.add(fld)
            self.assign(out, tp, "ELoad %s %s" % (q(args[k]), q(fld)))
            tq = self.temp()
            self.assign(out, tq, self.call_ir([(0, W)], NEW, [tp]))
        t = self.temp()
        if s["ret"][0] == "argornew":
            t0 = self.temp()
            self.assign(out, t0, self.call_ir(mut, NEW, args))
            self.assign(out, t, "EChoice %s %s" % (q(args[s["ret"][1]]), q(t0)))
            return t
        if s["ret"][0] == "choice":
            t0 = self.temp()
            self.assign(out, t0, self.call_ir(mut, NEW, args))
            self.assign(out, t, "EChoice %s %s" % (q(args[s["ret"][1]]), q(args[s["ret"][2]])))
            return t
        self.assign(out, t, self.call_ir(mut, s["ret"], args))
        return t

    def inline(self, inl, e, recv, out):
        cname, selfvar = inl
        rel, qual = FUNC_INDEX[cname][1], FUNC_INDEX[cname][2]
        cfn = get_function(rel, qual, self.repo)
        self.ntemp[0] += 1
        sub = Compiler(cname, cfn, [], self.repo,
                       prefix="%s%s#%d." % (self.prefix, cname.split(".")[0], self.ntemp[0]))
        sub.ntemp = self.ntemp
        sub.failed = self.failed
        sub.assume = self.assume
        sub.root_fname = self.root_fname
        if selfvar != "new":
            sub.rename["self"] = self.v("self")
        ca = cfn.args
        pos_params = [x.arg for x in ca.posonlyargs + ca.args]
        # self
        if selfvar == "new":
            self.assign(out, sub.v("self"), "ENew")
        bound = {"self"}
        for i, a in enumerate(e.args):
            if isinstance(a, ast.Starred):
                raise Unsupported("starred argument to inlined callee")
            p = pos_params[i + 1]
            self.assign(out, sub.v(p), "EVar %s" % q(self.expr(a, out)))
            bound.add(p)
        kwextra = []
        for k in e.keywords:
            val = self.expr(k.value, out)
            if k.arg is not None and (k.arg in pos_params or
                                      k.arg in [x.arg for x in ca.kwonlyargs]):
                self.assign(out, sub.v(k.arg), "EVar %s" % q(val))
                bound.add(k.arg)
            else:
                kwextra.append(val)
        defaults = dict(zip(pos_params[::-1], ca.defaults[::-1]))
        for x, d in zip(ca.kwonlyargs, ca.kw_defaults):
            if d is not None:
                defaults[x.arg] = d
        for p in pos_params + [x.arg for x in ca.kwonlyargs]:
            if p not in bound:
                if p not in defaults:
                    raise Unsupported("inlined callee %s: parameter %s unbound" % (cname, p))
                self.assign(out, sub.v(p), "ENew")
        if ca.kwarg is not None:
            t = self.new(out)
            for val in kwextra:
                out.append("SStore %s %s %s" % (q(t), q("[]"), q(val)))
            self.assign(out, sub.v(ca.kwarg.arg), "EVar %s" % q(t))
        for n in ast.walk(cfn):
            if isinstance(n, ast.Return) and n.value is not None:
                raise Unsupported("inlined callee %s returns a value" % cname)
            if isinstance(n, ast.Return):
                raise Unsupported("inlined callee %s has an early return" % cname)
        body = []
        sub.stmts(cfn.body, body)
        out += body
        self.contracts |= sub.contracts
        self.probes |= sub.probes
        self.fields |= sub.fields
        self.notes += sub.notes
        return sub.v("self")

    # -- statements
    def block(self, stmts):
        if not stmts:
            return "SSkip"
        return "seqs [%s]" % ";\n ".join(stmts) if len(stmts) > 1 else stmts[0]

    def aug(self, x, val, out, rebind_only=False, items_only=False):
        """x op= val on the variable x (IR variable name)"""
        inplace = "SAssign %s (%s)" % (q(x), self.call_ir([(0, ITEMS if items_only else ALL)],
                                                          ("arg", 0), [x, val]))
        rebind = "SAssign %s (%s)" % (q(x), self.call_ir([], NEW, [x, val]))
        if rebind_only:
            out.append(rebind)
        else:
            out.append("SIf (%s) (%s)" % (inplace, rebind))

    def stmts(self, body, out):
        for st in body:
            self.stmt(st, out)

    def exit_assert(self, out):
        if self.prefix or self.fname not in EXIT_ASSERT:
            return
        var, flds = EXIT_ASSERT[self.fname]
        for f in flds:
            t = self.temp()
            self.fields.add(f)
            self.assign(out, t, "ELoad %s %s" % (q(self.v(var)), q(f)))
            t2 = self.temp()
            self.assign(out, t2, self.call_ir([(0, [])], NEW, [t]))

    def stmt(self, st, out):
        if isinstance(st, ast.Expr):
            if isinstance(st.value, ast.Constant):
                return
            v = st.value
            if isinstance(v, ast.Call) and isinstance(v.func, ast.Name) \
                    and v.func.id.endswith("Error"):
                # `TypeError("...")` without `raise` (Solver.__init__): the
                # continuation fails on the attribute that was not set
                # (probe bare_exception_aborts); treated as raise
                self.notes.append("bare %s(...) statement treated as raise" % v.func.id)
                self.probes.add("bare_exception_aborts")
                self.expr(v, out)
                out.append("SReturn")
                return
            self.expr(st.value, out)
        elif isinstance(st, ast.Assign):
            val = self.expr(st.value, out)
            for tg in st.targets:
                self.store_target(tg, val, out)
        elif isinstance(st, ast.AnnAssign):
            if st.value is not None:
                self.store_target(st.target, self.expr(st.value, out), out)
        elif isinstance(st, ast.AugAssign):
            val = self.expr(st.value, out)
            tg = st.target
            txt = ast.unparse(tg).replace("'", '"')
            ro = txt in self.immutable
            if ro:
                self.probes.add({"MultiTrajResult.merge": "immutable_targets",
                                 "_spectrum_es": "expect_returns_scalar"}.get(
                                     self.fname, "qobj_immutable_augassign"))
            if isinstance(tg, ast.Name):
                self.aug(self.v(tg.id), val, out, ro, items_only=tg.id in self.list_vars)
            elif isinstance(tg, ast.Attribute):
                b = self.expr(tg.value, out)
                t = self.temp()
                attr = FIELD_ALIAS.get(tg.attr, tg.attr)
                self.fields.add(attr)
                self.assign(out, t, "ELoad %s %s" % (q(b), q(attr)))
                self.aug(t, val, out, ro)
                out.append("SStore %s %s %s" % (q(b), q(attr), q(t)))
            elif isinstance(tg, ast.Subscript):
                b = self.expr(tg.value, out)
                self.expr(tg.slice, out)
                t = self.temp()
                self.assign(out, t, "ELoad %s %s" % (q(b), q("[]")))
                self.aug(t, val, out, ro)
                out.append("SStore %s %s %s" % (q(b), q("[]"), q(t)))
            else:
                raise Unsupported("augmented assignment target")
        elif isinstance(st, ast.If) and ast.unparse(st.test) in self.assume:
            self.notes.append("branch pruned by assumption: %s is %s" % (
                ast.unparse(st.test), self.assume[ast.unparse(st.test)]))
            self.stmts(st.body if self.assume[ast.unparse(st.test)] else st.orelse, out)
        elif isinstance(st, ast.If):
            self.expr(st.test, out)
            a, b = [], []
            self.stmts(st.body, a)
            self.stmts(st.orelse, b)
            out.append("SIf (%s) (%s)" % (self.block(a), self.block(b)))
        elif isinstance(st, ast.For):
            body = []
            self.bind_iter(st.target, st.iter, out, body)
            self.stmts(st.body, body)
            out.append("SLoop (%s)" % self.block(body))
            self.stmts(st.orelse, out)
        elif isinstance(st, ast.While):
            self.expr(st.test, out)
            body = []
            self.stmts(st.body, body)
            self.expr(st.test, body)
            out.append("SLoop (%s)" % self.block(body))
        elif isinstance(st, ast.Return):
            self.exit_assert(out)
            if st.value is not None:
                self.assign(out, self.v("$ret"), "EVar %s" % q(self.expr(st.value, out)))
            if self.prefix:
                raise Unsupported("return inside inlined body")
            out.append("SReturn")
        elif isinstance(st, ast.Raise):
            if st.exc is not None:
                self.expr(st.exc, out)
            out.append("SReturn")
        elif isinstance(st, (ast.Pass, ast.Import, ast.ImportFrom)):
            pass
        elif isinstance(st, ast.Assert):
            self.expr(st.test, out)
        elif isinstance(st, ast.Delete):
            for tg in st.targets:
                if isinstance(tg, ast.Subscript):
                    b = self.expr(tg.value, out)
                    t = self.temp()
                    self.assign(out, t, self.call_ir([(0, ITEMS)], NEW, [b]))
                elif isinstance(tg, ast.Name):
                    pass
                else:
                    raise Unsupported("del target")
        elif isinstance(st, ast.Try):
            self.stmts(st.body, out)
            for h in st.handlers:
                hb = []
                self.stmts(h.body, hb)
                out.append("SIf (%s) (SSkip)" % self.block(hb))
            self.stmts(st.orelse, out)
            self.stmts(st.finalbody, out)
        elif isinstance(st, ast.With):
            for it in st.items:
                self.expr(it.context_expr, out)
            self.stmts(st.body, out)
        elif isinstance(st, ast.FunctionDef):
            self.notes.append("nested def %s not analysed" % st.name)
            self.assign(out, self.v(st.name), "ENew")
        else:
            raise Unsupported("statement %s" % type(st).__name__)


# ------------------------------------------------ restore-on-every-exit IR
# functions that write to an argument temporarily (Model/C04_fin.v)
FIN_FUNCS = [
    ("QobjEvo._expect_dense", "qutip/core/cy/qobjevo.pyx", "QobjEvo._expect_dense"),
]
DISPLACE_KERNELS = {"column_stack_dense": "FDisplace", "column_unstack_dense": "FRestore"}
# Tests whose value cannot change during the call for the tracked object: the
# in-place kernels only rewrite `shape`; when a kernel is not applied in place
# the variable is rebound to a new object and later kernels act on that one
# (probe reshape_kernels)
STABLE_ATTRS = ("fortran",)


class FinCompiler:
    def __init__(self, fn):
        self.fn = fn
        a = fn.args
        self.params = [x.arg for x in a.posonlyargs + a.args]
        self.tracked = {}
        self.conds = {}

    def cond(self, e):
        if e is None:
            return None
        if isinstance(e, ast.Constant):
            return "CTrue" if e.value is True else None
        txt = ast.unparse(e)
        if isinstance(e, ast.Attribute) and isinstance(e.value, ast.Name) \
                and e.value.id in self.params and e.attr in STABLE_ATTRS:
            if txt not in self.conds:
                self.conds[txt] = len(self.conds)
            return "(CVar %d)" % self.conds[txt]
        raise Unsupported("in-place flag `%s` is not a stable condition" % txt)

    def calls(self, node, out):
        """one IR atom per call inside an expression, innermost first"""
        if node is None:
            return
        for ch in ast.iter_child_nodes(node):
            self.calls(ch, out)
        if isinstance(node, ast.Call):
            name = node.func.id if isinstance(node.func, ast.Name) else (
                node.func.attr if isinstance(node.func, ast.Attribute) else None)
            if name in DISPLACE_KERNELS:
                inpl = None
                for k in node.keywords:
                    if k.arg == "inplace":
                        inpl = k.value
                c = self.cond(inpl)
                tgt = node.args[0] if node.args else None
                if c is not None:
                    if not (isinstance(tgt, ast.Name) and tgt.id in self.params):
                        raise Unsupported("in-place reshape of something that is not a parameter")
                    self.tracked.setdefault(tgt.id, len(self.tracked))
                    out.append("%s %s %d" % (DISPLACE_KERNELS[name], c, self.tracked[tgt.id]))
                    return
            out.append("FCall")
        elif isinstance(node, (ast.Subscript, ast.Attribute, ast.BinOp)) and not out:
            pass

    def block(self, stmts):
        if not stmts:
            return "FSkip"
        return "fseqs [%s]" % "; ".join(stmts) if len(stmts) > 1 else stmts[0]

    def stmts(self, body, out):
        for st in body:
            self.stmt(st, out)

    def stmt(self, st, out):
        if isinstance(st, (ast.Assign, ast.AugAssign, ast.AnnAssign, ast.Expr, ast.Assert)):
            if isinstance(st, ast.Expr) and isinstance(st.value, ast.Constant):
                return
            n0 = len(out)
            self.calls(st, out)
            if len(out) == n0:
                out.append("FCall")          # attribute access / arithmetic may raise too
        elif isinstance(st, ast.If):
            c = None
            try:
                c = self.cond(st.test) if isinstance(st.test, ast.Attribute) else None
            except Unsupported:
                c = None
            a, b = [], []
            self.stmts(st.body, a)
            self.stmts(st.orelse, b)
            if c is not None and c != "CTrue":
                out.append("FIfC %s (%s) (%s)" % (c, self.block(a), self.block(b)))
            else:
                self.calls(st.test, out)
                out.append("FCall")
                out.append("FIf (%s) (%s)" % (self.block(a), self.block(b)))
        elif isinstance(st, (ast.For, ast.While)):
            self.calls(st.iter if isinstance(st, ast.For) else st.test, out)
            out.append("FCall")
            body = []
            self.stmts(st.body, body)
            out.append("FLoop (%s)" % self.block(body))
            self.stmts(st.orelse, out)
        elif isinstance(st, ast.Try):
            if st.handlers or st.orelse:
                raise Unsupported("try with except/else clauses")
            a, b = [], []
            self.stmts(st.body, a)
            self.stmts(st.finalbody, b)
            out.append("FTry (%s) (%s)" % (self.block(a), self.block(b)))
        elif isinstance(st, ast.Return):
            self.calls(st.value, out)
            out.append("FReturn")
        elif isinstance(st, ast.Raise):
            self.calls(st.exc, out)
            out.append("FRaise")
        elif isinstance(st, ast.Pass):
            pass
        else:
            raise Unsupported("statement %s in a restore-on-exit function" % type(st).__name__)


def translate_fin(fname, repo=None):
    rel, qual = [(f[1], f[2]) for f in FIN_FUNCS if f[0] == fname][0]
    fn = get_function(rel, qual, repo)
    c = FinCompiler(fn)
    out = []
    c.stmts(fn.body, out)
    return {"name": fname, "ident": "fin_" + re.sub(r"[^A-Za-z0-9]", "_", fname),
            "term": c.block(out), "k": len(c.conds), "conds": c.conds, "tracked": c.tracked}


def coq_ident(name, extra=()):
    s = re.sub(r"[^A-Za-z0-9]", "_", name)
    if extra:
        s += "__own_" + "_".join(extra)
    return "fn_" + s


OWNED_FIELDS = {   # containers owned together with an owned `self`
    "QobjEvo": ["elements", "_feedback_functions", "_solver_only_feedback"],
    "Qobj": ["_data"],
}


def translate(fname, extra_owned=(), repo=None, failed=()):
    _, rel, qual, owned, _ = FUNC_INDEX[fname]
    fn = get_function(rel, qual, repo)
    c = Compiler(fname, fn, owned, repo)
    c.failed = set(failed)
    out = []
    c.stmts(fn.body, out)
    c.exit_assert(out)
    owned_all = [p for p in c.params if p in set(owned) | set(extra_owned)]
    def ofields(p):
        if p == "self" and fname.split(".")[0] in OWNED_FIELDS:
            return OWNED_FIELDS[fname.split(".")[0]]
        return []
    term = "mkfunc %s %s\n (%s)" % (
        clist(q(p) for p in c.params),
        clist("(%s, %s)" % (q(p), clist(q(f) for f in ofields(p))) for p in owned_all),
        c.block(out))
    return {"name": fname, "ident": coq_ident(fname, extra_owned), "term": term,
            "params": c.params, "owned": owned_all, "contracts": sorted(c.contracts),
            "probes": sorted(p for p in c.probes if p), "fields": sorted(c.fields),
            "notes": c.notes, "nstmts": term.count("SAssign") + term.count("SStore")}


def generate(repo=None, failed=(), modname="C04_ir"):
    """Translate every function in FUNCS plus every contract variant needed
    by a call site.  Returns list of dicts (with 'error' when unsupported)
    and writes coq/Gen/C04_ir.v."""
    items, todo, seen = [], [(f[0], ()) for f in FUNCS if f[0] not in INLINE_ONLY], set()
    while todo:
        fname, extra = todo.pop(0)
        if (fname, extra) in seen:
            continue
        seen.add((fname, extra))
        try:
            it = translate(fname, extra, repo, failed)
            for cn, ex in it["contracts"]:
                todo.append((cn, tuple(ex)))
        except Unsupported as e:
            it = {"name": fname, "ident": coq_ident(fname, extra), "error": str(e),
                  "contracts": [], "probes": [], "params": [], "owned": [],
                  "fields": [], "notes": []}
        except (OSError, SyntaxError, KeyError, IndexError) as e:
            it = {"name": fname, "ident": coq_ident(fname, extra),
                  "error": "%s: %s" % (type(e).__name__, e),
                  "contracts": [], "probes": [], "params": [], "owned": [],
                  "fields": [], "notes": []}
        it["extra_owned"] = list(extra)
        items.append(it)
    lines = ["(* generated by tools/tx_c04_alias.py from %s - do not edit *)" % "the qutip source",
             "From Coq Require Import List String.", "Import ListNotations.",
             "From QV Require Import Model.C04.", "Open Scope string_scope.", ""]
    for it in items:
        if "error" in it:
            lines.append("(* %s: not translated: %s *)" % (it["ident"], it["error"].replace("*)", "* )")))
            continue
        lines.append("Definition %s : func :=\n %s." % (it["ident"], it["term"]))
        lines.append("")
    gen = os.path.join(vlib.COQ, "Gen")
    os.makedirs(gen, exist_ok=True)
    with open(os.path.join(gen, modname + ".v"), "w") as f:
        f.write("\n".join(lines))
    return items


if __name__ == "__main__":
    for it in generate():
        print(it["ident"], "ERROR: " + it["error"] if "error" in it else
              "ok params=%s owned=%s contracts=%s" % (it["params"], it["owned"], it["contracts"]))
