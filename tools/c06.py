"""C06 - coefficients reproduce the data / expression / function they were
built from.

Proof step: coq/Props/C06.v (model coq/Model/C06.v).

Tie (K), re-checked on every run:
  * float stream: the real InterCoefficient (orders 0, 1 via __init__;
    orders 1-3 via restore/from_PPoly) on arbitrary float64 grids against the
    IEEE-binary64 instance NF of the model evaluated by vm_compute; compared
    bit for bit (value or IndexError, and whether _prepare chose the
    index-formula path);
  * exact stream: the same on dyadic grids / Gaussian-integer samples against
    the exact-rational instance NQ (the instance for which the laws assumed
    by the theorems are proved);
  * coefficient_function_parameters / FunctionCoefficient against the
    association-list model (args after construction / replace_arguments /
    call-time arguments, object identity, original unchanged).

Oracle (always run, independent of the model): exact Fraction arithmetic
reference for the step function / linear interpolant / constant extension,
sample reproduction for spline orders 2-5 (validation at 1e-9), direct call
of the wrapped Python function, Python eval of expression strings.
"""
import json
import math
import os
import pickle
import random
import re
from fractions import Fraction

import numpy as np

import vlib
from vlib import cz, cbool, clist

HEADER = ("From Coq Require Import List ZArith Bool QArith Qcanon Floats.\n"
          "Import ListNotations.\nFrom QV Require Import Model.C06 Model.C06_poly.\n"
          "Open Scope Z_scope.\n")

def tolerances():
    """(atol, rtol) of _prepare's uniform-grid test (model instances NQ / NF)"""
    return Fraction(0), Fraction(1, 10 ** 8)


SITE_INTER = "coefficient.InterCoefficient._call"
SIG_ALLCLOSE = "index-path:nonuniform-grid-accepted-by-allclose"
SIG_TRUNC = "index-path:truncated-quotient-one-short"


# ------------------------------------------------------------ Coq literals
def cfloat(x):
    x = float(x)
    if x != x or x in (float("inf"), float("-inf")):
        raise ValueError("non-finite float in a case")
    h = x.hex()
    if h.startswith("-"):
        return "(-%s)%%float" % h[1:]
    return "%s%%float" % h


def cfc(z):
    z = complex(z)
    return "(%s, %s)" % (cfloat(z.real), cfloat(z.imag))


def cq(fr):
    fr = Fraction(fr)
    return "(qc %s %d)" % (cz(fr.numerator), fr.denominator)


def cqc(z):
    return "(%s, %s)" % (cq(z[0]), cq(z[1]))


def float_of_triple(tr):
    s, m, e = tr
    if m == -1:
        return float("-inf") if s else float("inf")
    if m == -2:
        return float("nan")
    v = math.ldexp(m, e)
    return -v if s else v


# ------------------------------------------------------------ implementation
def impl_eval(coeff, ts):
    out = []
    for t in ts:
        try:
            v = complex(coeff(float(t)))
            out.append(("Val", v.real, v.imag))
        except IndexError:
            out.append(("IndexError",))
    return out


def impl_dt(coeff):
    return float(coeff.__reduce__()[1][2])


def build_inter(case):
    """returns (coefficient, input arrays handed to the constructor)"""
    from qutip.core.cy.coefficient import InterCoefficient
    g = np.array(case["grid"], dtype=np.float64)
    if case["kind"] == "poly":
        poly = np.array([[complex(*z) for z in row] for row in case["poly"]],
                        dtype=np.complex128)
        return InterCoefficient.restore(g, poly), None
    c = np.array([complex(*z) for z in case["vals"]], dtype=np.complex128)
    # both inputs already have the target dtype and are C-contiguous: the
    # situation in which a non-copying conversion would keep a view
    return InterCoefficient(c, g, case["order"], None), (c, g)


def shares_inputs(co, inputs):
    """does the coefficient keep memory of the caller's buffers?"""
    kept = co.__reduce__()[1][:2]
    return any(np.shares_memory(k, a) for k in kept for a in inputs)


def run_impl_inter(case):
    with np.errstate(all="ignore"):
        co, inputs = build_inter(case)
    res = impl_eval(co, case["ts"])
    nz = impl_dt(co) != 0.0
    extra = {}
    if inputs is not None:
        extra["shares"] = shares_inputs(co, inputs)
    if case.get("copy"):
        cp = pickle.loads(pickle.dumps(co))
        extra["pickle"] = (impl_dt(cp) != 0.0, impl_eval(cp, case["ts"]))
        cp2 = co.copy()
        extra["copy"] = (impl_dt(cp2) != 0.0, impl_eval(cp2, case["ts"]))
    return nz, res, extra


# ------------------------------------------------------------ model expressions
def model_expr(case, exact):
    N = "NQ" if exact else "NF"
    sfx = ""
    wrap = "obsq" if exact else "obsf"
    if exact:
        ft = lambda x: cq(Fraction(x))
        fcx = lambda z: cqc((Fraction(z[0]), Fraction(z[1])))
    else:
        ft = cfloat
        fcx = lambda z: "(%s, %s)" % (cfloat(z[0]), cfloat(z[1]))
    g = clist(case["grid"], ft)
    ts = clist(case["ts"], ft)
    if case["kind"] == "poly":
        poly = clist(case["poly"], lambda row: clist(row, fcx))
        return "%s (observe_poly%s %s %s %s %s)" % (wrap, sfx, N, poly, g, ts)
    fn = ("observe_copy" if case.get("copy") else "observe") + sfx
    return "%s (%s %s %s %s %s %s)" % (wrap, fn, N, cz(case["order"]),
                                       clist(case["vals"], fcx), g, ts)


def spec_expr(case):
    """exact case through the specification spec_eval (rational instance)"""
    ft = lambda x: cq(Fraction(x))
    fcx = lambda z: cqc((Fraction(z[0]), Fraction(z[1])))
    g = clist(case["grid"], ft)
    ts = clist(case["ts"], ft)
    if case["kind"] == "poly":
        poly = clist(case["poly"], lambda row: clist(row, fcx))
        return "map rqout (spec_observe_poly NQ %s %s %s)" % (poly, g, ts)
    return "map rqout (spec_observe NQ %s %s %s %s)" % (
        cz(case["order"]), clist(case["vals"], fcx), g, ts)


def canon_model(v, exact):
    nz, rs = v
    out = []
    for r in rs:
        if r == "IndexError":
            out.append(("IndexError",))
            continue
        assert r[0] == "Val", r
        a = r[1]
        if exact:
            (n1, d1, (n2, d2)) = a
            out.append(("Val", Fraction(n1, d1), Fraction(n2, d2)))
        else:
            (s1, m1, e1, t2) = a
            out.append(("Val", float_of_triple((s1, m1, e1)), float_of_triple(t2)))
    return bool(nz), out


def same_results(a, b):
    if len(a) != len(b):
        return False
    for x, y in zip(a, b):
        if x[0] != y[0]:
            return False
        if x[0] == "Val" and not (x[1] == y[1] and x[2] == y[2]):
            return False
    return True


# ------------------------------------------------------------------ generators
def strictly_increasing(xs):
    out = []
    for x in sorted(float(v) for v in xs):
        if not out or x > out[-1]:
            out.append(x)
    return out


def gen_float_grid(rng, quick):
    kind = rng.choice(["linspace", "linspace", "mult", "nearly", "nearly", "tiny",
                       "wild", "wild", "dyadic", "short"])
    nmax = 24 if quick else 60
    n = rng.randint(2, nmax)
    scale = 10.0 ** rng.uniform(-12, 6)
    t0 = rng.choice([0.0, 0.0, 1.0, -1.0, 10.0 ** rng.uniform(-3, 3), -scale * rng.random()])
    if kind == "linspace":
        T = rng.choice([0.7, 1.0, 0.3, 10.0, rng.random() * 10]) * rng.choice([1.0, scale])
        g = list(np.linspace(t0, t0 + T, n))
    elif kind == "mult":
        dt = rng.choice([0.1, 0.01, 0.3, 1e-9, 1.0 / 3, scale])
        g = [t0 + k * dt for k in range(n)]
    elif kind == "nearly":
        dt = rng.choice([1.0, 0.1, scale])
        rel = 10.0 ** rng.uniform(-8, -3)
        g = [t0]
        for k in range(n - 1):
            g.append(g[-1] + dt * (1 + rel * rng.uniform(-1, 1)))
    elif kind == "tiny":
        base = 10.0 ** rng.uniform(-12, -9)
        g = [rng.choice([0.0, 1.0])]
        for k in range(n - 1):
            g.append(g[-1] + base * rng.choice([1, 1, 2, 3, 5]))
    elif kind == "wild":
        g = [t0]
        for k in range(n - 1):
            g.append(g[-1] + scale * 10.0 ** rng.uniform(-3, 3))
    elif kind == "dyadic":
        e = rng.randint(-40, 10)
        ks = [0]
        for k in range(n - 1):
            ks.append(ks[-1] + rng.choice([1, 1, 1, 2, 3, 1 << rng.randint(0, 20)]))
        g = [math.ldexp(k, e) for k in ks]
    else:
        g = [t0] if rng.random() < 0.5 else [t0, t0 + scale]
    g = strictly_increasing(g)
    g = [x for x in g if x != -1.0] or [0.0]
    return kind, g


def query_times(rng, g, maxn):
    ts = list(g)
    for a, b in zip(g[:-1], g[1:]):
        m = a + (b - a) / 2
        ts.append(m)
        ts.append(float(np.nextafter(b, -np.inf)))
        ts.append(float(np.nextafter(a, np.inf)))
        ts.append(a + (b - a) * rng.random())
    span = (g[-1] - g[0]) if len(g) > 1 else 1.0
    ts += [g[0] - span, g[0] - 1e-300, g[-1] + span, float(np.nextafter(g[-1], np.inf)),
           float(np.nextafter(g[0], -np.inf))]
    ts = [t for t in ts if math.isfinite(t)]
    if len(ts) > maxn:
        keep = ts[:len(g)]
        rest = ts[len(g):]
        rng.shuffle(rest)
        ts = keep + rest[:max(0, maxn - len(keep))]
    return ts


def gen_float_case(rng, quick):
    kind, g = gen_float_grid(rng, quick)
    order = rng.choice([0, 0, 1, 1, 1, 3])      # 3 -> min(order, len-1) only if short
    if order == 3 and len(g) > 2:
        order = 1
    if rng.random() < 0.5:
        vals = [(float(rng.randint(-9, 9)), float(rng.randint(-9, 9))) for _ in g]
    else:
        vals = [(rng.uniform(-3, 3), rng.uniform(-3, 3)) for _ in g]
    return {"kind": "init", "gridkind": kind, "grid": g, "vals": vals, "order": order,
            "ts": query_times(rng, g, 90 if quick else 200),
            "copy": rng.random() < 0.15}


def odd_part(k):
    while k % 2 == 0 and k:
        k //= 2
    return k


def gen_exact_case(rng, quick):
    """dyadic grid (spacings 2^-40 .. 2^20), Gaussian-integer samples; every
    float operation of the implementation is exact on these."""
    nmax = 16 if quick else 40
    n = rng.randint(1, nmax)
    e = rng.randint(-40, 0)
    kind = rng.choice(["uniform", "nearly", "wild", "pow2"])
    order = rng.choice([0, 1])
    if order == 1:
        kind = rng.choice(["uniform", "pow2"])
    ks = [rng.choice([0, 0, rng.randint(-1000, 1000)])]
    if kind == "uniform":
        step = 1 << rng.randint(0, 20)
        if order == 0:
            step = rng.choice([step, rng.randint(1, 1000)])
        for _ in range(n - 1):
            ks.append(ks[-1] + step)
    elif kind == "nearly":
        step = 1 << rng.randint(17, 24)
        for _ in range(n - 1):
            ks.append(ks[-1] + step + rng.choice([0, 0, 1, -1, 2, 1 << rng.randint(0, 8)]))
    elif kind == "wild":
        for _ in range(n - 1):
            ks.append(ks[-1] + rng.choice([1, rng.randint(1, 50), 1 << rng.randint(0, 34)]))
    else:
        for _ in range(n - 1):
            ks.append(ks[-1] + (1 << rng.randint(0, 30)))
    g = [Fraction(k) * Fraction(2) ** e for k in ks]
    if any(x == -1 for x in g):
        g = [x + 3 for x in g]
    vals = [(Fraction(rng.randint(-50, 50)), Fraction(rng.randint(-50, 50))) for _ in g]
    ts = list(g)
    for a, b in zip(g[:-1], g[1:]):
        ts.append((a + b) / 2)
        ts.append(a + (b - a) * Fraction(rng.randint(1, 7), 8))
    span = (g[-1] - g[0]) if n > 1 else Fraction(1)
    ts += [g[0] - span, g[0] - Fraction(1, 1 << 45), g[-1] + span, g[-1] + Fraction(1, 1 << 45)]
    mx = 60 if quick else 150
    if len(ts) > mx:
        rest = ts[n:]
        rng.shuffle(rest)
        ts = ts[:n] + rest[:mx - n]
    case = {"kind": "init", "gridkind": "exact-" + kind, "grid": g, "vals": vals,
            "order": order, "ts": ts, "copy": rng.random() < 0.1}
    return case


def gen_poly_case(rng, quick):
    """restore / from_PPoly with an integer piecewise polynomial of order
    1..3 on a power-of-two grid (exact Horner)."""
    n = rng.randint(2, 10)
    e = rng.randint(-6, 3)
    ks = [rng.randint(-4, 4)]
    uniform = rng.random() < 0.4
    step = 1 << rng.randint(0, 3)
    for _ in range(n - 1):
        ks.append(ks[-1] + (step if uniform else (1 << rng.randint(0, 4))))
    g = [Fraction(k) * Fraction(2) ** e for k in ks]
    order = rng.randint(1, 5)
    poly = [[(Fraction(rng.randint(-6, 6)), Fraction(rng.randint(-6, 6))) for _ in g]
            for _ in range(order + 1)]
    ts = list(g)
    for a, b in zip(g[:-1], g[1:]):
        ts.append((a + b) / 2)
        ts.append(a + (b - a) * Fraction(rng.randint(1, 7), 8))
    ts += [g[0] - 1, g[-1] + 1]
    return {"kind": "poly", "gridkind": "exact-poly", "grid": g, "poly": poly,
            "order": order, "ts": ts}


def exact_margin_ok(case):
    """keep the exact stream away from the allclose threshold, where the
    rounded constants 1e-8 / 1e-5 of the implementation could decide
    differently from the exact rationals of the NQ instance"""
    g = case["grid"]
    d = [b - a for a, b in zip(g[:-1], g[1:])]
    atol, rtol = tolerances()
    for x in d:
        lhs = abs(d[0] - x)
        rhs = atol + rtol * abs(x)
        if lhs != 0 and abs(lhs - rhs) <= rhs / 10 ** 6:
            return False
    return True


def to_float_case(case):
    """exact (Fraction) case -> what the implementation is fed"""
    c = dict(case)
    c["grid"] = [float(x) for x in case["grid"]]
    c["ts"] = [float(x) for x in case["ts"]]
    if "vals" in case:
        c["vals"] = [(float(a), float(b)) for a, b in case["vals"]]
    if "poly" in case:
        c["poly"] = [[(float(a), float(b)) for a, b in row] for row in case["poly"]]
    return c


def jsonable(case):
    def f(x):
        if isinstance(x, Fraction):
            return "%d/%d" % (x.numerator, x.denominator)
        if isinstance(x, float):
            return x.hex()
        if isinstance(x, (list, tuple)):
            return [f(y) for y in x]
        if isinstance(x, dict):
            return {k: f(v) for k, v in x.items()}
        return x
    return f(case)


def unjson(x):
    if isinstance(x, str):
        if "/" in x:
            a, b = x.split("/")
            return Fraction(int(a), int(b))
        if x.startswith(("0x", "-0x")):
            return float.fromhex(x)
        return x
    if isinstance(x, list):
        return [unjson(y) for y in x]
    if isinstance(x, dict):
        return {k: unjson(v) for k, v in x.items()}
    return x


# ------------------------------------------------- implementation-level oracle
def reference_value(g, vals, order, t):
    """the property, in exact rational arithmetic: constant outside, step
    function [g_k, g_{k+1}) for order 0, linear interpolant for order 1"""
    g = [Fraction(x) for x in g]
    t = Fraction(t)
    v = [(Fraction(a), Fraction(b)) for a, b in vals]
    if t <= g[0]:
        return v[0]
    if t >= g[-1]:
        return v[-1]
    lo, hi = 0, len(g) - 1
    while hi - lo > 1:
        mid = (lo + hi) // 2
        if g[mid] <= t:
            lo = mid
        else:
            hi = mid
    if order == 0:
        return v[lo]
    w = (t - g[lo]) / (g[lo + 1] - g[lo])
    return (v[lo][0] + (v[lo + 1][0] - v[lo][0]) * w,
            v[lo][1] + (v[lo + 1][1] - v[lo][1]) * w)


def grid_is_uniform(g):
    d = np.diff(np.array(g, dtype=np.float64))
    if len(d) == 0:
        return True
    return bool(np.max(np.abs(d - d[0])) <= 1e-12 * abs(d[0]))


def oracle_inter(case, nz, res):
    """returns list of (signature_hint, message, t) - the property itself
    checked on the implementation's answers"""
    if case["kind"] != "init":
        return []
    g, vals = case["grid"], case["vals"]
    order = min(case["order"], len(g) - 1)
    bad = []
    exact = all(isinstance(x, Fraction) for x in g)
    for t, r in zip(case["ts"], res):
        want = reference_value(g, vals, order, t)
        if r[0] != "Val":
            bad.append(("error", "IndexError at t=%r (expected a value)" % float(t), t))
            continue
        got = (r[1], r[2])
        if order == 0 or exact:
            ok = (Fraction(got[0]) == want[0] and Fraction(got[1]) == want[1])
        else:
            # order 1 on arbitrary floats: validation at 1e-9 of the local
            # sample magnitude (rounding is outside the property)
            k = max(1.0, max(abs(float(a)) + abs(float(b)) for a, b in vals))
            ok = (abs(got[0] - float(want[0])) <= 1e-9 * k
                  and abs(got[1] - float(want[1])) <= 1e-9 * k)
        if not ok:
            at_sample = any(Fraction(t) == Fraction(x) for x in g)
            bad.append(("value", "order %d, t=%r%s: got %r, expected %r" % (
                order, float(t), " (a sample time)" if at_sample else "",
                got, (float(want[0]), float(want[1]))), t))
    return bad


def classify(case, nz):
    """stable signature of an oracle failure"""
    if not nz:
        return "binary-search-path:wrong-value"
    if grid_is_uniform([float(x) for x in case["grid"]]):
        return SIG_TRUNC
    return SIG_ALLCLOSE


# --------------------------------------------------------- FunctionCoefficient
KEYS = ["a", "b", "w", "zz", "args", "q"]
KEYID = {"t": 0, "args": 1, "a": 2, "b": 3, "w": 4, "zz": 5, "q": 6, "kw": 7, "x": 8,
         "rest": 9}


def make_funcs():
    """signature styles; every function returns (t, sorted items it was
    given): the keyword arguments of a pythonic call, or the content of the
    dictionary of a dict-style call"""
    def vis(d):
        return tuple(sorted((k, v) for k, v in d.items() if v is not None))

    def report(t, named, kw=None):
        for v in named.values():
            if isinstance(v, dict):          # dict-style call: f(t, args_dict)
                return (t, vis(v))
        items = dict(kw or {})
        items.update(named)
        return (t, vis(items))

    def f_dict(t, args):
        return report(t, {"args": args})

    def f_ab(t, a=None, b=None):
        return report(t, {"a": a, "b": b})

    def f_w(t, w=None):
        return report(t, {"w": w})

    def f_kw(t, **kw):
        return report(t, {}, kw)

    def f_a_kw(t, a=None, **kw):
        return report(t, {"a": a}, kw)

    def f_args_kw(t, args=None, **kw):
        return report(t, {"args": args}, kw)

    def f_t(t):
        return (t, ())

    def f_x_args(x, args):
        return report(x, {"args": args})

    def f_args_a(t, args=None, a=None):
        return report(t, {"args": args, "a": a})

    def f_kwonly(t, *, a=None, q=None):
        return report(t, {"a": a, "q": q})

    lam = lambda t, args: report(t, {"args": args})      # noqa: E731
    return {"f_dict": f_dict, "f_ab": f_ab, "f_w": f_w, "f_kw": f_kw,
            "f_a_kw": f_a_kw, "f_args_kw": f_args_kw, "f_t": f_t,
            "f_x_args": f_x_args, "f_args_a": f_args_a, "f_kwonly": f_kwonly,
            "lam": lam}


def gen_func_case(rng):
    fname = rng.choice(sorted(make_funcs()))
    style = rng.choice([None, "auto", "pythonic", "dict"])
    def rdict(p):
        return [(k, rng.randint(-9, 9)) for k in KEYS if rng.random() < p]
    ops = []
    for _ in range(rng.randint(0, 3)):
        ops.append({"op": rng.choice(["replace", "call"]),
                    "_args": rdict(0.3) if rng.random() < 0.7 else None,
                    "kw": rdict(0.25)})
    return {"func": fname, "style": style, "args": rdict(0.5), "ops": ops,
            "t": rng.randint(-5, 5)}


def run_impl_func(case):
    """returns observable trace of the implementation"""
    import inspect
    import qutip
    from qutip.core.cy.coefficient import (FunctionCoefficient,
                                           coefficient_function_parameters)
    f = make_funcs()[case["func"]]
    sig = inspect.signature(f)
    params = list(sig.parameters.keys())
    has_kw = any(p.kind == p.VAR_KEYWORD for p in sig.parameters.values())
    trace = {"params": params, "has_kw": has_kw}
    try:
        py, ps = coefficient_function_parameters(f, case["style"])
    except Exception as e:
        return {"error": type(e).__name__}
    trace["cfp"] = (bool(py), None if ps is None else sorted(ps))
    args0 = dict(case["args"])
    args0_before = dict(args0)
    try:
        co = FunctionCoefficient(f, args0, style=case["style"])
    except Exception as e:
        trace["init_error"] = type(e).__name__
        return trace
    trace["caller_args_unchanged"] = (args0 == args0_before)
    trace["args"] = [dict(co.args)]
    trace["same"] = []
    trace["orig_unchanged"] = []
    trace["calls"] = []
    t = float(case["t"])
    cur = co
    for op in case["ops"]:
        a = None if op["_args"] is None else dict(op["_args"])
        kw = dict(op["kw"])
        before = dict(cur.args)
        try:
            val_before = cur(t)
        except TypeError:
            val_before = "TypeError"
        if op["op"] == "replace":
            new = cur.replace_arguments(a, **kw)
            trace["same"].append(new is cur)
            try:
                val_after = cur(t)
            except TypeError:
                val_after = "TypeError"
            trace["orig_unchanged"].append(dict(cur.args) == before
                                           and val_after == val_before
                                           and (new is cur or new.args is not cur.args))
            cur = new
            trace["args"].append(dict(cur.args))
        else:
            try:
                v = cur(t, a, **kw)
            except TypeError:
                v = "TypeError"
            trace["calls"].append(v)
            try:
                val_after = cur(t)
            except TypeError:
                val_after = "TypeError"
            trace["orig_unchanged"].append(dict(cur.args) == before
                                           and val_after == val_before)
    try:
        trace["final_value"] = cur(t)
    except TypeError:
        trace["final_value"] = "TypeError"
    return trace


def cdict(items):
    return clist(items, lambda kv: "(%d%%nat, %s)" % (KEYID[kv[0]], cz(kv[1])))


def model_func_exprs(case, params, has_kw):
    """one Coq expression returning (cfp result, list of arg tables, list of
    same-object flags)"""
    st = {None: "SAuto", "auto": "SAuto", "pythonic": "SPythonic", "dict": "SDict"}[case["style"]]
    sig = "{| f_params := %s; f_has_kw := %s |}" % (
        clist([KEYID.get(p, 9) for p in params], lambda k: "%d%%nat" % k), cbool(has_kw))
    keys = clist([KEYID[k] for k in KEYS], lambda k: "%d%%nat" % k)
    lines = ["let s := %s in" % sig,
             "let o0 := fc_init (V:=Z) s %s %s in" % (st, cdict(case["args"]))]
    tabs = ["map (lookup (fc_args o0)) %s" % keys]
    same = []
    cur = "o0"
    i = 0
    for op in case["ops"]:
        a = cdict(op["_args"] or [])
        kw = cdict(op["kw"])
        if op["op"] == "replace":
            i += 1
            lines.append("let r%d := fc_replace %s %s %s in" % (i, cur, a, kw))
            lines.append("let o%d := fst r%d in" % (i, i))
            same.append("snd r%d" % i)
            cur = "o%d" % i
            tabs.append("map (lookup (fc_args %s)) %s" % (cur, keys))
        else:
            tabs.append("map (lookup (fc_args (fst (fc_replace %s %s %s)))) %s" % (cur, a, kw, keys))
    body = "(cfp s %s, %s, %s)" % (st, clist(tabs), clist(same) if same else "(@nil bool)")
    return "\n".join(lines) + "\n" + body


def expected_visible(tab):
    """model argument table -> what the python function reports"""
    return tuple(sorted((k, v[1]) for k, v in zip(KEYS, tab) if v is not None))


def check_func_case(ctx, case, trace, mv):
    """compare implementation trace with the model value; returns message or None"""
    (mcfp, tabs, same) = mv
    mpy, mps = mcfp
    mps = None if mps is None else sorted(mps)
    ips = trace["cfp"][1]
    ips_ids = None if ips is None else sorted(KEYID.get(p, 9) for p in ips)
    if (bool(mpy), mps) != (trace["cfp"][0], ips_ids):
        return "coefficient_function_parameters: impl %r, model %r" % (trace["cfp"], (mpy, mps))
    if "init_error" in trace:
        return "FunctionCoefficient construction raised %s" % trace["init_error"]
    # argument tables
    ti = 0
    impl_tabs = list(trace["args"])
    calls = list(trace["calls"])
    ri = 1
    for op, tab in zip([None] + case["ops"], tabs):
        vis_model = expected_visible(tab)
        if op is None or op["op"] == "replace":
            d = impl_tabs[0] if op is None else impl_tabs[ri]
            if op is not None:
                ri += 1
            vis_impl = tuple(sorted(d.items()))
            if vis_impl != vis_model:
                return "args after %s: impl %r, model %r" % (
                    "construction" if op is None else "replace_arguments", vis_impl, vis_model)
        else:
            v = calls.pop(0)
            if v == "TypeError":
                continue
            if tuple(v[1]) != vis_model:
                return "call-time arguments: function saw %r, model %r" % (v[1], vis_model)
    if [bool(x) for x in same] != trace["same"]:
        return "replace_arguments identity: impl %r, model %r" % (trace["same"], same)
    return None


def oracle_func(case, trace):
    """the property itself: original never changes; caller's dict untouched"""
    bad = []
    if "error" in trace or "init_error" in trace:
        return bad
    if not trace["caller_args_unchanged"]:
        bad.append("constructor modified the caller's args dict")
    if not all(trace["orig_unchanged"]):
        bad.append("replace_arguments / call-time arguments changed the original coefficient")
    return bad


# -------------------------------------------------------- expression strings
def gen_expr(rng, depth=0):
    names = ["t", "w", "a", "b"]
    if depth > 2 or rng.random() < 0.3:
        r = rng.random()
        if r < 0.35:
            return rng.choice(names)
        if r < 0.6:
            return str(rng.randint(0, 12))
        if r < 0.8:
            return rng.choice(["0.5", "2.25", "1e-3", "1.5e2", "0.125", ".5", "3."])
        return rng.choice(["1j", "2.5j", "0.5j", "1e-1j"])
    r = rng.random()
    if r < 0.55:
        op = rng.choice(["+", "-", "*", " + ", " * ", "/", "**"])
        rhs = gen_expr(rng, depth + 1)
        if op == "**":
            rhs = str(rng.randint(0, 3))
        if op == "/":
            rhs = rng.choice(["2", "4.0", "(1+abs(%s))" % rhs])
        return "%s%s%s" % (gen_expr(rng, depth + 1), op, rhs)
    if r < 0.8:
        fn = rng.choice(["sin", "cos", "exp", "conj", "real", "imag", "abs", "norm",
                         "sinh", "np.cos", "tanh"])
        inner = gen_expr(rng, depth + 1)
        if fn in ("exp", "sinh"):
            inner = "real(%s)/(1+abs(%s))" % (inner, inner)
        return "%s(%s)" % (fn, inner)
    return "(%s)" % gen_expr(rng, depth + 1)


def run_string_checks(ctx, rng, n):
    """interpreted string path and the pure-Python rewriting of
    coefficient.py::parse, against Python's own eval of the expression"""
    import warnings
    import qutip
    from qutip.core.cy.coefficient import StrFunctionCoefficient
    import importlib
    cmod = importlib.import_module("qutip.core.coefficient")
    env = dict(StrFunctionCoefficient.str_env)
    dist = {"strings": 0, "parse_checked": 0}
    fixed = [".5+t", "t*.25", "2.*cos(w*t)", "sin(w*t)+2.5*a + 3 + 1e-3j", "a*b*t**2",
             "1e3*t+1.5e-2j*w", "exp(-t/4.0)*conj(a)", "w*w + w"]
    for it in range(n):
        code = fixed[it] if it < len(fixed) else gen_expr(rng)
        args = {"w": rng.choice([2, 0.5, 1.5 + 0.5j, 3]), "a": rng.choice([1j, 2.0, -1]),
                "b": rng.choice([0.25, 4, 1 - 1j])}
        if rng.random() < 0.3:
            args["zz"] = 7
        t = rng.choice([0.0, 0.5, 1.0, 2.25, -0.75])
        try:
            with np.errstate(all="ignore"):
                want = complex(eval(code, dict(env), dict(args, t=t)))
        except Exception:
            continue
        if want != want:
            continue
        dist["strings"] += 1
        with warnings.catch_warnings():
            warnings.simplefilter("ignore")
            co = qutip.coefficient(code, args=dict(args))
            key = ("str", code, repr(sorted(args.items(), key=str)), t)
            ctx.count_case(key, nontrivial=len(code) > 3)
            with np.errstate(all="ignore"):
                got = complex(co(t))
                # arguments by replacement and at call time
                new_args = dict(args, w=args["w"] + 1)
                want2 = complex(eval(code, dict(env), dict(new_args, t=t)))
                co2 = co.replace_arguments(w=new_args["w"])
                got2 = complex(co2(t))
                got3 = complex(co(t, {"w": new_args["w"]}))
                got_after = complex(co(t))
                got_p = complex(pickle.loads(pickle.dumps(co))(t))
        def close(x, y):
            return x == y or abs(x - y) <= 1e-12 * max(1.0, abs(y))
        bad = None
        if not close(got, want):
            bad = "value %r != eval %r" % (got, want)
        elif not (close(got2, want2) and close(got3, want2)):
            bad = "replaced / call-time argument value %r / %r != eval %r" % (got2, got3, want2)
        elif not close(got_after, want) or (co2 is co and "w" in code):
            bad = "original changed by replace_arguments (%r -> %r)" % (want, got_after)
        elif not close(got_p, want):
            bad = "pickle round trip value %r != %r" % (got_p, want)
        if bad:
            ctx.violation("coefficient.str", "string-coefficient-value",
                          "string coefficient %r at t=%r: %s" % (code, t, bad),
                          {"kind": "string", "code": code, "args": repr(args), "t": t})
        # try_parse() (what coeff_from_str hands to the Cython code
        # generator): the rewritten expression must keep the value
        dotlit = re.search(r"(?<![0-9a-zA-Z_.])\.[0-9]", code) is not None
        try:
            with warnings.catch_warnings():
                warnings.simplefilter("ignore")
                ncode, variables, constants, raw = cmod.try_parse(
                    code, dict(args), {}, qutip.settings.compile)
        except Exception as e:
            if isinstance(e, SyntaxError) and dotlit:
                sig = "leading-dot-literal-split"
            else:
                sig = "try_parse-raises-" + type(e).__name__
            ctx.violation("coefficient.parse", sig,
                          "try_parse(%r) raised %s: the string is a valid coefficient for the "
                          "interpreted path (value %r) but cannot be prepared for compilation"
                          % (code, type(e).__name__, want),
                          {"kind": "parse", "code": code, "args": repr(args)})
            continue

        class DummySelf:
            pass
        for cte in constants:
            setattr(DummySelf, cte[0][5:], cmod.fromstr(cte[1]))
        for var in variables:
            setattr(DummySelf, var[0][5:], args[var[1]])
        loc = {"t": t, "self": DummySelf}
        if raw:
            loc.update({var[1]: args[var[1]] for var in variables})
        try:
            with np.errstate(all="ignore"):
                gotp = complex(eval(ncode, dict(env), loc))
        except Exception as e:
            gotp = "raised %s" % type(e).__name__
        dist["parse_checked"] += 1
        dist["parse_raw_fallback"] = dist.get("parse_raw_fallback", 0) + (1 if raw else 0)
        if isinstance(gotp, str) or not close(gotp, want):
            ctx.violation("coefficient.parse", "rewritten-expression-differs",
                          "try_parse(%r) -> %r evaluates to %r, original to %r" % (
                              code, ncode, gotp, want),
                          {"kind": "parse", "code": code, "ncode": ncode,
                           "args": repr(args), "t": t})
    return dist


# ------------------------------------------- parse(): token-level correspondence
HEADER_STR = ("From Coq Require Import List Bool Arith.\nImport ListNotations.\n"
              "From QV Require Import Model.C06_str.\n")
TYPECODES = {"TInt": ("_int", "int"), "TDbl": ("_dbl", "double"), "TCpl": ("_cpl", "complex"),
             "TStr": ("_str", "str"), "TObj": ("_obj", "object"), "TData": ("_datalayer", "Data")}
CT_OF = {v[1]: k for k, v in TYPECODES.items()}
_TOK_RE = re.compile(
    r"(?P<lit>(?<![0-9a-zA-Z_])(?:[0-9]*\.?[0-9]+e[+-]?[0-9]*j?|[0-9]+\.?[0-9]*e[+-]?[0-9]*j?"
    r"|[0-9]+\.?[0-9]*j?|[0-9]*\.?[0-9]+j?))|(?P<name>[0-9a-zA-Z_]+)"
    r"|(?P<syn>(?:(?!\.[0-9])[^0-9a-zA-Z_\s])+)")


def source_patterns(cmod):
    """the four regular expressions of extract_constant, read from the source
    under test"""
    import inspect
    src = inspect.getsource(cmod.extract_constant)
    pats = re.findall(r'"(\[\^[^"]*)"', src)
    if len(pats) != 4:
        raise RuntimeError("extract_constant no longer has four patterns: %r" % pats)
    return pats


def tokenize(code, pats):
    """word list of an expression as parse() sees it: (kind, text[, class])"""
    toks = []
    padded = " " + code + " "
    for m in _TOK_RE.finditer(padded):
        if m.lastgroup == "lit":
            text = m.group()
            prev = padded[m.start() - 1]
            cls = next((k for k, pt in enumerate(pats)
                        if re.fullmatch(pt, prev + text)), 4)
            toks.append(("lit", text, cls))
        elif m.lastgroup == "name":
            toks.append(("name", m.group()))
        else:
            toks.append(("syn", m.group()))
    return toks


def run_parse_corr(ctx, rng, n):
    import importlib
    import qutip
    cmod = importlib.import_module("qutip.core.coefficient")
    try:
        pats = source_patterns(cmod)
    except Exception as e:
        ctx.violation("corr:coefficient.parse", "patterns-unreadable", str(e), {}, found_input=False)
        return {"cases": 0}
    fixed = [".5+t", "t*.25", "2.*cos(w*t)", "sin(w*t)+2.5*a + 3 + 1e-3j", "a*b*t**2",
             "1e3*t+1.5e-2j*w", ".5 + w * 2.5 - 1e3 * w + a", "w*w + w", "2.e3*a+.5e1j-w",
             "a if t<1 else b", "np.cos(w*t)*q[0]+zz"]
    cases, exprs, impl = [], [], []
    for it in range(n):
        code = fixed[it] if it < len(fixed) else gen_expr(rng)
        if it >= len(fixed) and rng.random() < 0.5:
            # literals of every pattern class, repeated texts included
            code += rng.choice(["+", " - ", "*"]) + rng.choice(
                [".5", ".25j", "2.e3", "3.e-2j", "1e3", ".5e1", "7", "2.", "1.5j", "12.75",
                 "1e-3", ".125"])
        args = {"w": rng.choice([2, 0.5, 1.5 + 0.5j]), "a": rng.choice([1j, 2.0, -1]),
                "b": rng.choice([0.25, 4, 1 - 1j])}
        if rng.random() < 0.3:
            args["zz"] = rng.choice([7, "text", 1.5])
        if rng.random() < 0.2:
            args["q"] = [1, 2]
        ai, af = rng.random() < 0.5, rng.random() < 0.5
        opt = {"accept_int": ai, "accept_float": af}
        try:
            ncode, variables, constants = cmod.parse(code, dict(args), opt)
        except Exception as e:
            ctx.violation("corr:coefficient.parse", "parse-raises-" + type(e).__name__,
                          "parse(%r, accept_int=%s, accept_float=%s) raised %s" % (
                              code, ai, af, type(e).__name__),
                          {"kind": "parse-corr", "code": code, "args": repr(args)})
            continue
        toks = tokenize(code, pats)
        names, syns, texts = {}, {}, {}
        ctoks = []
        for tk in toks:
            if tk[0] == "lit":
                ctoks.append("TLit %d %d" % (tk[2], texts.setdefault(tk[1], len(texts))))
            elif tk[0] == "name":
                ctoks.append("TName %d" % names.setdefault(tk[1], len(names)))
            else:
                ctoks.append("TSyn %d" % syns.setdefault(tk[1], len(syns)))
        argty = " | ".join("%d => Some %s" % (names[k], CT_OF[cmod.compileType(v)])
                           for k, v in args.items() if k in names)
        litty = " | ".join("%d => %s" % (i, CT_OF.get(cmod.find_type_from_str(tx), "TObj"))
                           for tx, i in texts.items())
        exprs.append("parse %s %s (fun x => match x with %s_ => None end) "
                     "(fun x => match x with %s_ => TObj end) %s" % (
                         cbool(ai), cbool(af), (argty + " | ") if argty else "",
                         (litty + " | ") if litty else "", clist(ctoks)))
        cases.append((code, args, ai, af, toks, names, syns, texts))
        impl.append((ncode, variables, constants))
        ctx.count_case(("parse-corr", code, repr(sorted(args.items(), key=str)), ai, af),
                       nontrivial=len(toks) >= 3)
    try:
        vals = vlib.coq_eval_values("cases_C06s", HEADER_STR, exprs, chunk=100)
    except (RuntimeError, ValueError) as e:
        ctx.violation("corr:C06:model-eval", "coqc-parse", "parse model evaluation failed",
                      {"log": str(e)[-3000:]}, found_input=False)
        return {"cases": len(cases)}
    mism = 0
    classes = {}
    for (code, args, ai, af, toks, names, syns, texts), (ncode, variables, constants), v in zip(
            cases, impl, vals):
        for tk in toks:
            if tk[0] == "lit":
                classes[str(tk[2])] = classes.get(str(tk[2]), 0) + 1
        out, mvars, mord = vlib.parse_coq_value(v)
        rn = {i: k for k, i in names.items()}
        rs = {i: k for k, i in syns.items()}
        rt = {i: k for k, i in texts.items()}
        words = []
        for o in out:
            if o[0] == "OSyn":
                words.append(rs[o[1]])
            elif o[0] == "OName":
                words.append(rn[o[1]])
            elif o[0] == "OArg":
                words.append("self._arg%s%d" % (TYPECODES[o[1]][0], o[2]))
            elif o[0] == "OCte":
                words.append("self._cte%s%d" % (TYPECODES[o[1]][0], o[2]))
            else:
                words.append(rt[o[2]])
        m_vars = [("self._arg%s%d" % (TYPECODES[ct][0], k), rn[x], TYPECODES[ct][1])
                  for (ct, k, x) in mvars]
        m_ord = [("self._cte%s%d" % (TYPECODES[ct][0], k), rt[tx], TYPECODES[ct][1])
                 for k, (ct, tx) in enumerate(mord)]
        ctx.cov["traces_validated_against_impl"] += 1
        ok = ("".join(words) == "".join(ncode.split())
              and m_vars == [tuple(x) for x in variables]
              and m_ord == [tuple(x) for x in constants])
        if not ok:
            mism += 1
            if mism <= 3:
                ctx.violation("corr:coefficient.parse", "model-differs",
                              "parse(%r, accept_int=%s, accept_float=%s): implementation -> "
                              "(%r, %r, %r), model -> (%r, %r, %r)" % (
                                  code, ai, af, ncode, variables, constants,
                                  " ".join(words), m_vars, m_ord),
                              {"kind": "parse-corr", "code": code, "args": repr(args),
                               "accept_int": ai, "accept_float": af})
    return {"cases": len(cases), "mismatches": mism, "literal_pattern_class": classes}


# ------------------------- composite coefficients with argument histories
HEADER_ARGS = ("From Coq Require Import List ZArith Bool.\nImport ListNotations.\n"
               "From QV Require Import Model.C06 Model.C06_args.\nOpen Scope Z_scope.\n")
TNAMES = ["a", "b", "w", "zz", "q"]


def _lin_src(p, q, wts, getter):
    re_ = " + ".join(["%d*t" % p] + ["%d*%s" % (wr, getter(k)) for k, wr, wi in wts])
    im_ = " + ".join(["%d*t" % q] + ["%d*%s" % (wi, getter(k)) for k, wr, wi in wts])
    return re_, im_


def gen_tree_leaf(rng, tab, ftab):
    """returns (python builder, coq term); appends the leaf's table entry"""
    import qutip
    from qutip.core.cy.coefficient import (FunctionCoefficient, InterCoefficient,
                                           ConstantCoefficient)
    kind = rng.choice(["py", "py", "kw", "dict", "py_kw", "str", "str", "const", "inter"])
    args0 = [(k, rng.randint(-4, 4)) for k in TNAMES if rng.random() < 0.6]
    p, q = rng.randint(-3, 3), rng.randint(-3, 3)
    if kind in ("const", "inter"):
        if kind == "const":
            vals = [(rng.randint(-5, 5), rng.randint(-5, 5))]
            build = lambda: ConstantCoefficient(complex(*vals[0]))
        else:
            vals = [(rng.randint(-5, 5), rng.randint(-5, 5)) for _ in range(rng.randint(2, 5))]
            build = lambda: InterCoefficient(np.array([complex(*z) for z in vals]),
                                             np.arange(len(vals), dtype=float), 0, None)
        ftab.append(vals)
        return build, "CFixed %d%%nat" % (len(ftab) - 1), kind
    if kind == "str":
        names = [k for k, _ in args0] or ["a"]
        if not args0:
            args0 = [("a", rng.randint(-4, 4))]
        used = [k for k in names if rng.random() < 0.8] or names[:1]
        wts = [(k, rng.randint(-3, 3), rng.randint(-3, 3)) for k in used]
        re_, im_ = _lin_src(p, q, wts, lambda k: k)
        code = "(%s) + 1j*(%s)" % (re_, im_)
        tab.append((p, q, wts))
        d0 = dict(args0)
        return (lambda: qutip.coefficient(code, args=d0),
                "CStr %d%%nat %s" % (len(tab) - 1, cdict(args0)), kind)
    declared = [k for k in TNAMES if rng.random() < 0.5]
    if kind in ("kw", "dict"):
        visible = list(TNAMES)
    elif kind == "py_kw":
        visible = list(TNAMES)
    else:
        visible = list(declared)
    wts = [(k, rng.randint(-3, 3), rng.randint(-3, 3)) for k in visible if rng.random() < 0.8]
    if kind == "py":
        sig = "t" + "".join(", %s=0" % k for k in declared)
        getter = lambda k: k
        params, has_kw = ["t"] + declared, False
    elif kind == "py_kw":
        sig = "t" + "".join(", %s=0" % k for k in declared) + ", **kw"
        getter = lambda k: (k if k in declared else "kw.get('%s', 0)" % k)
        params, has_kw = ["t"] + declared + ["kw"], True
    elif kind == "kw":
        sig = "t, **kw"
        getter = lambda k: "kw.get('%s', 0)" % k
        params, has_kw = ["t", "kw"], True
    else:
        sig = "t, args"
        getter = lambda k: "args.get('%s', 0)" % k
        params, has_kw = ["t", "args"], False
    re_, im_ = _lin_src(p, q, wts, getter)
    ns = {}
    exec("def f(%s):\n    return complex(%s, %s)\n" % (sig, re_, im_), ns)
    f = ns["f"]
    tab.append((p, q, wts))
    d0 = dict(args0)
    direct = rng.random() < 0.5
    build = (lambda: FunctionCoefficient(f, d0)) if direct else (lambda: qutip.coefficient(f, args=d0))
    sigc = "{| f_params := %s; f_has_kw := %s |}" % (
        clist([KEYID.get(x, 9) for x in params], lambda k: "%d%%nat" % k), cbool(has_kw))
    return build, "CFunc %d%%nat (fc_init (V:=Z) %s SAuto %s)" % (len(tab) - 1, sigc, cdict(args0)), kind


def gen_tree(rng, depth, tab, ftab, kinds):
    if depth == 0 or rng.random() < 0.3:
        b, c, kind = gen_tree_leaf(rng, tab, ftab)
        kinds[kind] = kinds.get(kind, 0) + 1
        return b, c
    op = rng.choice(["sum", "sum", "mul", "conj", "norm"])
    kinds[op] = kinds.get(op, 0) + 1
    b1, c1 = gen_tree(rng, depth - 1, tab, ftab, kinds)
    if op in ("sum", "mul"):
        b2, c2 = gen_tree(rng, depth - 1, tab, ftab, kinds)
        if op == "sum":
            return (lambda: b1() + b2()), "CSum (%s) (%s)" % (c1, c2)
        return (lambda: b1() * b2()), "CMul (%s) (%s)" % (c1, c2)
    if op == "conj":
        return (lambda: b1().conj()), "CConj (%s)" % c1
    return (lambda: b1()._cdc()), "CNorm (%s)" % c1


def run_tree_corr(ctx, rng, n):
    import warnings
    cases, exprs, impl = [], [], []
    kinds = {}
    for _ in range(n):
        tab, ftab = [], []
        build, cterm = gen_tree(rng, rng.randint(0, 3), tab, ftab, kinds)
        hist = []
        for _h in range(rng.randint(0, 3)):
            hist.append(([(k, rng.randint(-5, 5)) for k in TNAMES if rng.random() < 0.3],
                         [(k, rng.randint(-5, 5)) for k in TNAMES if rng.random() < 0.3]))
        fa = [(k, rng.randint(-5, 5)) for k in TNAMES if rng.random() < 0.25]
        fkw = [(k, rng.randint(-5, 5)) for k in TNAMES if rng.random() < 0.25]
        t = rng.randint(-2, 5)
        desc = {"tree": cterm, "table": tab, "fixed": ftab, "history": hist,
                "call": [fa, fkw], "t": t}
        try:
            with warnings.catch_warnings():
                warnings.simplefilter("ignore")
                co = build()
                for a, kw in hist:
                    co = co.replace_arguments(dict(a) if (a or rng.random() < 0.5) else None,
                                              **dict(kw))
                v = complex(co(float(t), dict(fa), **dict(fkw))) if (fa or fkw or rng.random() < 0.3) \
                    else complex(co(float(t)))
        except Exception as e:
            ctx.violation("corr:coefficient.composite", "raises-" + type(e).__name__,
                          "composite coefficient with an argument history raised %s: %s" % (
                              type(e).__name__, str(e)[:200]),
                          {"kind": "tree", "case": desc})
            continue
        ctab = clist(tab, lambda s_: "(%s, %s, %s)" % (
            cz(s_[0]), cz(s_[1]), clist(s_[2], lambda w: "(%d%%nat, %s, %s)" % (
                KEYID[w[0]], cz(w[1]), cz(w[2])))))
        cft = clist(ftab, lambda vs: clist(vs, lambda z: "(%s, %s)" % (cz(z[0]), cz(z[1]))))
        chist = clist(hist, lambda h: "(%s, %s)" % (cdict(h[0]), cdict(h[1])))
        exprs.append("ccall gadd gmul gconj gnorm (lin_leaf %s) (lin_leaf %s) (fixed_leaf %s) "
                     "(apply_hist (%s) %s) %s %s %s" % (
                         ctab, ctab, cft, cterm, chist if hist else "(@nil (dict Z * dict Z))",
                         cz(t), cdict(fa) if fa else "(@nil (nat * Z))",
                         cdict(fkw) if fkw else "(@nil (nat * Z))"))
        cases.append(desc)
        impl.append(v)
        ctx.count_case(("tree", json.dumps(desc, sort_keys=True)), nontrivial=bool(hist or fa or fkw))
    try:
        vals = vlib.coq_eval_values("cases_C06t", HEADER_ARGS, exprs, chunk=100)
    except (RuntimeError, ValueError) as e:
        ctx.violation("corr:C06:model-eval", "coqc-tree", "composite model evaluation failed",
                      {"log": str(e)[-3000:]}, found_input=False)
        return {"cases": len(cases)}
    mism = skipped = 0
    for desc, v, mv in zip(cases, impl, vals):
        x, y = vlib.parse_coq_value(mv)
        if max(abs(x), abs(y)) >= 2 ** 50:
            skipped += 1
            continue
        ctx.cov["traces_validated_against_impl"] += 1
        if (v.real, v.imag) != (float(x), float(y)):
            mism += 1
            if mism <= 3:
                ctx.violation("corr:coefficient.composite", "value-differs-from-last-value-given",
                              "composite coefficient after %d replace_arguments and call-time "
                              "arguments %r: implementation %r, model (last value given per "
                              "accepted name) %r" % (len(desc["history"]), desc["call"], v, (x, y)),
                              {"kind": "tree", "case": desc})
    return {"cases": len(cases), "mismatches": mism, "skipped_large": skipped, "nodes": kinds}


# ------------------------------------------------------------ spline orders
def run_spline_validation(ctx, rng, n):
    """orders 2..5.  The spline fit is scipy's (oracle).  Checked here:
    (a) at every knot the coefficient returns the oracle spline's own value
    (the constant term of the piece; 1e-9 of the data scale), on every kind
    of grid; (b) on well-conditioned grids (linspace / k*dt / nearly uniform)
    every sample is returned at its sample time and the coefficient follows
    the oracle spline at midpoints (validation at 1e-7, not a proof
    obligation: spline fitting on wildly non-uniform grids is ill-conditioned
    inside scipy itself)."""
    from qutip.core.cy.coefficient import InterCoefficient
    from scipy.interpolate import make_interp_spline
    cnt = 0
    for _ in range(n):
        kind, g = gen_float_grid(rng, True)
        if len(g) < 7 or kind in ("tiny", "short"):
            continue
        order = rng.randint(2, 5)
        vals = np.array([complex(rng.uniform(-2, 2), rng.uniform(-2, 2)) for _ in g])
        bc = None
        if order == 3 and rng.random() < 0.6:
            # boundary conditions are handed to scipy unchanged
            bc = rng.choice(["natural", "clamped", "not-a-knot"])
        try:
            with np.errstate(all="ignore"):
                co = InterCoefficient(vals, np.array(g), order, bc)
                sp = make_interp_spline(np.array(g), vals, k=order, bc_type=bc)
        except Exception:
            continue
        cnt += 1
        ctx.count_case(("spline", order, tuple(g)), nontrivial=True)
        nz = impl_dt(co) != 0.0
        scale = max(1.0, float(np.max(np.abs(vals))))
        tame = kind in ("linspace", "mult", "nearly")
        checks = [(t, complex(sp(t)), 1e-9, "the spline's value at knot %d" % k)
                  for k, t in enumerate(g)]
        if tame:
            checks += [(t, complex(vals[k]), 1e-7, "sample %d at its sample time" % k)
                       for k, t in enumerate(g)]
            checks += [(a + (b - a) / 2, complex(sp(a + (b - a) / 2)), 1e-7,
                        "the spline's value at the midpoint of cell %d" % k)
                       for k, (a, b) in enumerate(zip(g[:-1], g[1:]))]
        if tame:
            # the pieces returned by the oracle join at the knots (hypothesis
            # `joins` of C06_continuity_reduces_to_joining_pieces), numerically
            ktl, kpoly = co.__reduce__()[1][:2]
            for k in range(len(ktl) - 1):
                left = complex(np.polyval(kpoly[:, k], ktl[k + 1] - ktl[k]))
                checks.append((None, (left, complex(kpoly[-1, k + 1])), 1e-7,
                               "joining pieces at knot %d" % (k + 1)))
        for t, want, tol, what in checks:
            if t is None:
                if not abs(want[0] - want[1]) <= tol * scale:
                    ctx.violation(SITE_INTER, "spline-pieces-do-not-join",
                                  "order %d coefficient (bc=%r, grid kind %s): %s: left piece "
                                  "gives %r, constant term of the next piece %r" % (
                                      order, bc, kind, what, want[0], want[1]),
                                  {"kind": "spline", "grid": [x.hex() for x in g], "order": order,
                                   "bc": bc})
                    break
                continue
            try:
                v = complex(co(t))
            except IndexError:
                v = None
            if v is None or not abs(v - want) <= tol * scale:
                case = {"kind": "init", "gridkind": kind, "grid": g, "order": order,
                        "vals": [(z.real, z.imag) for z in vals], "ts": [t]}
                sig = classify(case, nz) if nz else "spline-evaluation-differs"
                ctx.violation(SITE_INTER, sig,
                              "order %d coefficient does not return %s (t=%r): got %r, "
                              "expected %r (grid kind %s, index path %s)" % (
                                  order, what, t, v, want, kind,
                                  "formula" if nz else "binary search"),
                              {"kind": "spline", "case": jsonable(case), "index_path": nz,
                               "want": [want.real.hex(), want.imag.hex()], "tol": tol})
                break
    return cnt


# ------------------------------------------------------ construction isolation
# A Coefficient is immutable: whatever the caller later does IN PLACE to the
# objects it was built from (sample array, tlist, args dict, PPoly arrays ...)
# the coefficient - and every copy / pickle / replace_arguments result made
# from it, before or after - must keep returning the ORIGINAL values.
VAL_FORMS = ["c128", "c128_strided", "c128_fortran_col", "c128_readonly", "c64",
             "f64", "f64_strided", "int64", "list"]
T_FORMS = ["f64", "f64_strided", "f64_readonly", "f32", "int64", "list"]


def make_input(values, form):
    """values: list of python numbers.  Returns (object handed to qutip,
    mutate() that edits the underlying storage in place)"""
    if form == "list":
        obj = list(values)

        def mut():
            for k in range(len(obj)):
                obj[k] = obj[k] * 3 + 1
        return obj, mut
    dt = {"c128": np.complex128, "c64": np.complex64, "f64": np.float64,
          "f32": np.float32, "int64": np.int64}[form.split("_")[0]]
    if form.endswith("_strided"):
        base = np.zeros((len(values), 3), dtype=dt)
        base[:, 1] = values
        obj = base[:, 1]
    elif form.endswith("_fortran_col"):
        base = np.zeros((len(values), 3), dtype=dt, order="F")
        base[:, 1] = values
        obj = base[:, 1]
    elif form.endswith("_readonly"):
        base = np.array(values, dtype=dt)
        obj = base.view()
        obj.flags.writeable = False
    else:
        base = np.array(values, dtype=dt)
        obj = base

    def mut():
        base[...] = base * 3 + 1
    return obj, mut


def gen_iso_array_case(rng):
    n = rng.randint(2, 9)
    valkind = rng.choice(["complex", "real", "int"])
    tkind = rng.choice(["int", "dyadic", "float"])
    vforms = {"complex": ["c128", "c128_strided", "c128_fortran_col", "c128_readonly",
                          "c64", "list"],
              "real": ["f64", "f64_strided", "c128", "list", "c128_strided"],
              "int": ["int64", "f64", "c128", "list", "c128_readonly"]}[valkind]
    tforms = {"int": ["int64", "f64", "list", "f32", "f64_readonly"],
              "dyadic": ["f64", "f64_strided", "f64_readonly", "f32", "list"],
              "float": ["f64", "f64_strided", "f64_readonly", "list"]}[tkind]
    if tkind == "int":
        g = [0]
        for _ in range(n - 1):
            g.append(g[-1] + rng.randint(1, 4))
    elif tkind == "dyadic":
        g = [rng.randint(-4, 4) / 8.0]
        for _ in range(n - 1):
            g.append(g[-1] + rng.choice([0.125, 0.25, 0.5, 1.0, 2.0]))
    else:
        g = [rng.uniform(-1, 1)]
        for _ in range(n - 1):
            g.append(g[-1] + rng.uniform(0.05, 1.0))
    if valkind == "complex":
        v = [complex(rng.randint(-8, 8) / 4.0, rng.randint(-8, 8) / 4.0) for _ in g]
    elif valkind == "real":
        v = [rng.randint(-16, 16) / 8.0 for _ in g]
    else:
        v = [rng.randint(-9, 9) for _ in g]
    vform = rng.choice(vforms)
    route = rng.choice(["InterCoefficient", "coefficient", "coefficient", "QobjEvo"])
    if vform == "list":
        route = "InterCoefficient"      # coefficient() / QobjEvo only take ndarrays
    return {"route": route,
            "order": rng.choice([0, 0, 0, 1, 1, 2, 3, 5]), "grid": g, "vals": v,
            "vform": vform, "tform": rng.choice(tforms)}


def _evals(obj, ts, qevo=False):
    out = []
    for t in ts:
        if qevo:
            out.append(tuple(complex(z) for z in obj(float(t)).full().ravel()))
        else:
            try:
                out.append(complex(obj(float(t))))
            except IndexError:
                out.append("IndexError")
    return out


def _derived(co, qevo):
    """copies of a coefficient that must stay frozen as well"""
    if qevo:
        return {"copy": co.copy(), "pickle": pickle.loads(pickle.dumps(co))}
    return {"copy": co.copy(), "pickle": pickle.loads(pickle.dumps(co)),
            "replace_arguments(unused)": co.replace_arguments(unused_name=1)}


def iso_check(ctx, site, sig_prefix, what, case, build, mutators, ts, qevo=False,
              must_equal=None):
    """build() -> object; mutators: list of (name, fn).  Returns number of
    violations reported."""
    import warnings
    with warnings.catch_warnings():
        warnings.simplefilter("ignore")
        with np.errstate(all="ignore"):
            try:
                co = build()
                v0 = _evals(co, ts, qevo)
                before = _derived(co, qevo)
            except Exception as e:      # a valid input must be accepted
                ctx.violation(site, "%s:construction-raises-%s" % (sig_prefix, type(e).__name__),
                              "%s: construction / first evaluation raised %s: %s" % (
                                  what, type(e).__name__, str(e)[:200]),
                              {"kind": "isolation", "case": case})
                return 1
            nbad = 0
            if must_equal is not None and v0[:len(must_equal)] != must_equal:
                ctx.violation(site, sig_prefix + ":wrong-value-after-construction",
                              "%s: values right after construction %r differ from the data %r"
                              % (what, v0[:len(must_equal)], must_equal),
                              {"kind": "isolation", "case": case})
                return 1
            for name, fn in mutators:
                fn()
                after = {"the coefficient": co}
                after.update({"its %s (made before the edit)" % k: v for k, v in before.items()})
                after.update({"its %s (made after the edit)" % k: v
                              for k, v in _derived(co, qevo).items()})
                for who, obj in after.items():
                    v1 = _evals(obj, ts, qevo)
                    if v1 != v0:
                        k = next(j for j, (a, b) in enumerate(zip(v0, v1)) if a != b)
                        ctx.violation(
                            site, "%s:follows-in-place-edit-of-%s" % (
                                sig_prefix, re.sub(r"[^A-Za-z0-9_.]+", "-", name).strip("-")),
                            "%s: after the caller edited %s in place, %s returns %r at t=%r "
                            "instead of the original %r" % (what, name, who, v1[k],
                                                            float(ts[k]), v0[k]),
                            {"kind": "isolation", "case": case, "edited": name, "who": who,
                             "t": float(ts[k])})
                        nbad += 1
                        break
                if nbad:
                    break
    return nbad


def run_iso_array(ctx, case):
    import qutip
    from qutip.core.cy.coefficient import InterCoefficient
    g = case["grid"]
    v = [complex(*z) if isinstance(z, (list, tuple)) else z for z in case["vals"]]
    vobj, vmut = make_input(v, case["vform"])
    tobj, tmut = make_input(g, case["tform"])
    order, route = case["order"], case["route"]
    ts = list(g) + [a + (b - a) / 2 for a, b in zip(g[:-1], g[1:])] + [g[0] - 1, g[-1] + 1]
    qevo = route == "QobjEvo"

    def build():
        if route == "InterCoefficient":
            return InterCoefficient(vobj, tobj, order, None)
        if route == "coefficient":
            return qutip.coefficient(vobj, tlist=tobj, order=order)
        return qutip.QobjEvo([qutip.sigmax(), vobj], tlist=tobj, order=order)
    must = None
    if order <= 1 and not qevo:
        must = [complex(x) for x in v]        # every sample at its sample time
    what = "%s(%s samples, %s tlist, order=%d)" % (route, case["vform"], case["tform"], order)
    return iso_check(ctx, "coefficient.InterCoefficient.__init__", "array",
                     what, case, build, [("coeff_arr", vmut), ("tlist", tmut)],
                     ts, qevo, must)


STR_CODES = ["w*t+a", "a*exp(1j*w*t)", "sin(w*t)*b+a", "w*w+b*t", "conj(a)*t+w"]


def iso_f_py(t, w, a, b):
    return w * t + a * b


def iso_f_dict(t, args):
    return args["w"] * t + args["a"] * args["b"]


def iso_f_kw(t, **kw):
    return kw["w"] * t + kw["a"] * kw["b"]


def gen_iso_args_case(rng):
    return {"kind": rng.choice(["str", "str", "func_pythonic", "func_dict", "func_kw"]),
            "route": rng.choice(["coefficient", "class", "QobjEvo"]),
            "code": rng.choice(STR_CODES),
            "args": {"w": rng.randint(1, 5) / 2.0, "a": complex(rng.randint(-3, 3), rng.randint(-3, 3)),
                     "b": rng.randint(-4, 4) / 4.0},
            "replace": {rng.choice(["w", "a", "b"]): rng.randint(1, 9) / 2.0},
            "extra_key": rng.random() < 0.3}


def run_iso_args(ctx, case):
    import qutip
    from qutip.core.cy.coefficient import StrFunctionCoefficient, FunctionCoefficient
    d = {k: (complex(*v) if isinstance(v, (list, tuple)) else v) for k, v in case["args"].items()}
    if case["extra_key"]:
        d["zz"] = 7
    r = dict(case["replace"])
    kind, route = case["kind"], case["route"]
    base = {"str": case["code"], "func_pythonic": iso_f_py, "func_dict": iso_f_dict,
            "func_kw": iso_f_kw}[kind]
    qevo = route == "QobjEvo"

    def build():
        if qevo:
            return qutip.QobjEvo([qutip.sigmax(), base], args=d)
        if route == "class":
            if kind == "str":
                return StrFunctionCoefficient(base, d)
            return FunctionCoefficient(base, d)
        return qutip.coefficient(base, args=d)

    def mut_args():
        for k in list(d):
            d[k] = d[k] * 2 + 1
        d["w"] = 99.0

    def mut_clear():
        d.clear()
        d.update({"w": -1.0, "a": -1.0, "b": -1.0})
    ts = [0.0, 0.5, 1.0, -0.75]
    what = "%s(%s, args=dict)" % ({"coefficient": "coefficient", "class": "Str/FunctionCoefficient",
                                   "QobjEvo": "QobjEvo([op, .])"}[route],
                                  repr(base) if kind == "str" else kind)
    site = ("coefficient.StrFunctionCoefficient.__init__" if kind == "str"
            else "coefficient.FunctionCoefficient.__init__")
    nb = iso_check(ctx, site, "args-dict", what, case, build,
                   [("args", mut_args), ("args", mut_clear)],
                   ts, qevo)
    if nb or qevo:
        return nb
    # the dictionary handed to replace_arguments
    d2 = {k: (complex(*v) if isinstance(v, (list, tuple)) else v) for k, v in case["args"].items()}
    if route == "coefficient":
        co = qutip.coefficient(base, args=d2)
    elif kind == "str":
        co = StrFunctionCoefficient(base, d2)
    else:
        co = FunctionCoefficient(base, d2)

    def build2():
        return co.replace_arguments(r)

    def mut_r():
        for k in list(r):
            r[k] = r[k] * 5 + 3
    return iso_check(ctx, site.replace("__init__", "replace_arguments"), "replace-dict",
                     what + ".replace_arguments(dict)", case, build2,
                     [("_args", mut_r)], ts, False)


def run_iso_ppoly(ctx, rng):
    """coefficient(PPoly) / coefficient(BSpline): the scipy object's arrays"""
    import qutip
    from scipy.interpolate import PPoly, make_interp_spline
    n = rng.randint(2, 6)
    x = np.cumsum([rng.choice([0.25, 0.5, 1.0]) for _ in range(n + 1)])
    k = rng.randint(0, 3)
    cplx = rng.random() < 0.6
    c = np.array([[rng.randint(-4, 4) for _ in range(n)] for _ in range(k + 1)],
                 dtype=np.complex128 if cplx else np.float64)
    case = {"x": [float(a) for a in x], "c_dtype": str(c.dtype), "order": k, "n": n}
    pp = PPoly(c, x)
    ts = list(x) + [a + (b - a) / 2 for a, b in zip(x[:-1], x[1:])]

    def mc():
        pp.c[...] = pp.c * 3 + 1

    def mx():
        pp.x[...] = pp.x * 3 + 1
    nb = iso_check(ctx, "coefficient.InterCoefficient.from_PPoly", "ppoly",
                   "coefficient(PPoly with %s coefficients, order %d)" % (c.dtype, k), case,
                   lambda: qutip.coefficient(pp), [("ppoly.c", mc), ("ppoly.x", mx)], ts)
    g = np.arange(8.0)
    sp = make_interp_spline(g, np.array([rng.randint(-4, 4) for _ in g], dtype=float), k=3)

    def ms():
        sp.c[...] = sp.c * 3 + 1
    nb += iso_check(ctx, "coefficient.InterCoefficient.from_Bspline", "bspline",
                    "coefficient(BSpline)", {"bspline": "cubic on arange(8)"},
                    lambda: qutip.coefficient(sp), [("spline.c", ms)],
                    list(g) + [0.5, 3.25])
    return nb


def run_iso_nested(ctx, rng):
    """exploration, NOT a violation: values inside args are kept by reference
    (shallow copy of the dict), as documented Python semantics; recorded."""
    import qutip

    def h(t, w):
        return w[0] * t
    w = [2.0]
    co = qutip.coefficient(h, args={"w": w})
    v0 = co(1.0)
    w[0] = 10.0
    return co(1.0) != v0


def run_isolation(ctx, rng, n):
    dist = {"array_route": {}, "vform": {}, "tform": {}, "order": {}, "args_kind": {},
            "args_route": {}, "ppoly": 0, "failures": 0}
    for _ in range(n):
        c = gen_iso_array_case(rng)
        c["vals"] = [[z.real, z.imag] if isinstance(z, complex) else z for z in c["vals"]]
        for k, key in (("array_route", "route"), ("vform", "vform"), ("tform", "tform"),
                       ("order", "order")):
            dist[k][str(c[key])] = dist[k].get(str(c[key]), 0) + 1
        ctx.count_case(("iso-array", json.dumps(c, sort_keys=True)), nontrivial=True)
        dist["failures"] += 1 if run_iso_array(ctx, c) else 0
    for _ in range(n // 2):
        c = gen_iso_args_case(rng)
        c["args"] = {k: ([v.real, v.imag] if isinstance(v, complex) else v)
                     for k, v in c["args"].items()}
        dist["args_kind"][c["kind"]] = dist["args_kind"].get(c["kind"], 0) + 1
        dist["args_route"][c["route"]] = dist["args_route"].get(c["route"], 0) + 1
        ctx.count_case(("iso-args", json.dumps(c, sort_keys=True)), nontrivial=True)
        dist["failures"] += 1 if run_iso_args(ctx, c) else 0
    for _ in range(max(4, n // 10)):
        dist["ppoly"] += 1
        ctx.count_case(("iso-ppoly", dist["ppoly"], rng.random()), nontrivial=True)
        dist["failures"] += 1 if run_iso_ppoly(ctx, rng) else 0
    dist["nested_values_shared_by_reference(exploration)"] = bool(run_iso_nested(ctx, rng))
    return dist


# ---------------------------------------------------------------------- run
WITNESSES = [
    # (name, grid, vals, order, t, expected sample index)
    ("allclose-atol", [0.0, 1e-9, 4e-9], [10.0, 20.0, 30.0], 0, 2.5e-9, 1),
    ("allclose-atol-indexerror", [0.0, 1e-9, 4e-9], [10.0, 20.0, 30.0], 0, 3.5e-9, 1),
    ("allclose-rtol", [0.0, 1.0, 2 + 2.0 ** -17, 3 + 2.0 ** -16], [0.0, 1.0, 2.0, 3.0], 0,
     2 + 2.0 ** -18, 1),
    ("truncation-linspace", list(np.linspace(0, 0.7, 5)), [0.0, 1.0, 2.0, 3.0, 4.0], 0,
     float(np.linspace(0, 0.7, 5)[3]), 3),
]


def witness_cases():
    out = []
    for name, g, v, order, t, k in WITNESSES:
        out.append({"kind": "init", "gridkind": "witness:" + name, "grid": [float(x) for x in g],
                    "vals": [(float(x), 0.0) for x in v], "order": order, "ts": [float(t)]})
    return out


def run(ctx):
    rng = random.Random(ctx.seed * 104729 + 6)
    ctx.cov["rule"] = (
        "InterCoefficient case = (grid, complex samples, order, query times, copy/pickle?); "
        "float stream: arbitrary float64 grids (linspace / k*dt / nearly uniform / "
        "nanosecond-scale / wildly non-uniform / dyadic / 1-2 points) compared bit-exactly "
        "with the binary64 instance of the model; exact stream: dyadic grids (spacing 2^-40"
        "..2^20), Gaussian-integer samples compared exactly with the rational instance; "
        "poly stream: restore() with integer piecewise polynomials of order 1-3; "
        "FunctionCoefficient case = (signature style, style option, args, sequence of "
        "replace_arguments / call-time-argument operations); isolation case = (construction "
        "route: class / coefficient() / QobjEvo list form, input dtype and layout, order, "
        "which input is then edited in place). A case is non-trivial when the "
        "grid has >= 3 points (Inter) or at least one operation (Function); distinct by "
        "full case content.")
    ctx.cov["trusted_base"] += [
        "Model/C06.v is hand-written from coefficient.pyx (InterCoefficient.__init__ "
        "orders 0-1, _prepare, _binary_search, _call, restore/copy; "
        "coefficient_function_parameters; FunctionCoefficient.__init__/__call__/"
        "replace_arguments); tied to the source by the correspondence streams of "
        "tools/c06.py on every run",
        "Theorems assume order_laws (comparison of non-NaN doubles is a strict weak order) "
        "and, for order >= 1, field_laws (exact arithmetic); both are proved for the "
        "rational instance NQ; float rounding in Horner evaluation is outside",
        "PrimFloat primitives (add, sub, mul, div, abs, ltb, leb, eqb, Prim2SF) as "
        "evaluated by vm_compute stand for the C double operations; Print Assumptions "
        "lists them for the theorem stated on the float instance",
        "scipy.interpolate.make_interp_spline (orders >= 2) is an oracle: only the "
        "Horner evaluation of whatever piecewise polynomial it returns is modelled; "
        "sample reproduction for orders 2-5 is validation at 1e-7",
        "numpy complex128/float64 division modelled as a*(1/b) per component (Smith's "
        "formula with zero imaginary divisor), np.allclose(rtol=1e-8, atol=0) as |a-b| <= rtol*|b|",
        "expression-string path: Model/C06_str.v is a token-level model of "
        "extract_constant / parse (words = literals tagged with the first matching "
        "pattern of extract_constant, names, syntax chunks); the regular-expression engine, "
        "the harness tokenizer (tools/c06.py tokenize, which reads the four patterns from the "
        "source under test), compileType / find_type_from_str (inputs argty / litty of the "
        "model) and Python's evaluation of the rewritten text are not modelled; the "
        "interpreted StrFunctionCoefficient and try_parse are additionally checked against "
        "Python eval; the compiled path cannot run here (no filelock/cython in /venv)",
        "composite coefficients: ffun / sfun / xfun of Model/C06_args.v stand for the wrapped "
        "Python function, the evaluated expression of a string coefficient and an "
        "argument-free leaf (assumed to depend only on t and the argument lookups); "
        "the correspondence instantiates them with integer-linear leaves and Gaussian-"
        "integer arithmetic",
        "construction isolation (coefficients do not follow later in-place edits of the "
        "arrays / dicts they were built from) is an implementation-level oracle plus the "
        "np.shares_memory flag of the InterCoefficient correspondence (model: "
        "init_shares_inputs = false); values nested inside args are kept by reference "
        "(shallow copy, Python semantics) and only recorded",
    ]

    # ------------------------------------------------------------ proof step
    def search(failed, log):
        r2 = random.Random(ctx.seed + 17)
        for _ in range(400):
            case = gen_float_case(r2, True)
            nz, res, _ = run_impl_inter(case)
            bad = oracle_inter(case, nz, res)
            if bad:
                sig = classify(case, nz)
                ctx.violation(SITE_INTER, sig, bad[0][1],
                              {"kind": "inter", "case": jsonable(case),
                               "failed_theorems": failed})
                return

    vlib.standard_proof_step(
        ctx, ["Props/C06.vo", "Props/C06_str.vo", "Props/C06_poly.vo", "Props/C06_args.vo"],
        ["Props/C06.v", "Props/C06_str.v", "Props/C06_poly.v", "Props/C06_args.v"], search)
    ctx.log("proof step done")

    # -------------------------------------------------- InterCoefficient tie
    nfloat = 120 if ctx.quick else 1000
    nexact = 100 if ctx.quick else 800
    npoly = 30 if ctx.quick else 400
    fcases = witness_cases()
    cdir = os.path.join(vlib.VERIF, "corpus", "C06")
    if os.path.isdir(cdir):
        for f in sorted(os.listdir(cdir)):
            fcases.append(unjson(json.load(open(os.path.join(cdir, f)))))
    while len(fcases) < nfloat:
        fcases.append(gen_float_case(rng, ctx.quick))
    ecases = []
    while len(ecases) < nexact:
        c = gen_exact_case(rng, ctx.quick)
        if exact_margin_ok(c):
            ecases.append(c)
    pcases = [gen_poly_case(rng, ctx.quick) for _ in range(npoly)]

    dist = {"gridkind": {}, "order": {}, "index_path": {"formula": 0, "binary_search": 0},
            "n_points": {}, "impl_indexerror_results": 0, "queries": 0}
    streams = []          # (case, exact?, impl (nz,res,extra))
    for case in fcases:
        streams.append((case, False, run_impl_inter(case)))
    for case in ecases + pcases:
        streams.append((case, True, run_impl_inter(to_float_case(case))))
        # the same exact case also through the float instance
    ctx.log("implementation evaluated on %d InterCoefficient cases" % len(streams))
    exprs = []
    for case, exact, _ in streams:
        exprs.append(model_expr(case, exact))
    nb = len(exprs)
    # exact cases additionally through the binary64 instance
    extra_idx = []
    for i, (case, exact, _) in enumerate(streams):
        if exact:
            extra_idx.append(i)
            exprs.append(model_expr(to_float_case(case), False))
    # exact cases also against the SPECIFICATION (Model/C06_poly.v: powers of
    # t - t_k, cell by linear scan), which Props/C06_poly.v proves equal to
    # the code model
    nspec = len(exprs)
    for i in extra_idx:
        exprs.append(spec_expr(streams[i][0]))
    exprs.append("(@init_shares_inputs, 0)")
    try:
        vals = vlib.coq_eval_values("cases_C06", HEADER, exprs, chunk=60)
    except (RuntimeError, ValueError) as e:
        ctx.violation("corr:C06:model-eval", "coqc", "model evaluation failed",
                      {"log": str(e)[-3000:]}, found_input=False)
        vals = None

    ctx.log("model evaluated (%d expressions)" % len(exprs))
    model_shares = None
    if vals is not None:
        model_shares = bool(vlib.parse_coq_value(vals[-1])[0])
        vals = vals[:-1]
        exprs = exprs[:-1]
    mism = 0
    known_hits = {SIG_ALLCLOSE: 0, SIG_TRUNC: 0}
    for i, (case, exact, (nz, res, extra)) in enumerate(streams):
        gk = case["gridkind"].split(":")[0]
        dist["gridkind"][gk] = dist["gridkind"].get(gk, 0) + 1
        dist["order"][str(case["order"])] = dist["order"].get(str(case["order"]), 0) + 1
        dist["index_path"]["formula" if nz else "binary_search"] += 1
        nb_ = "1" if len(case["grid"]) == 1 else "2" if len(case["grid"]) == 2 else \
            "3-9" if len(case["grid"]) < 10 else "10+"
        dist["n_points"][nb_] = dist["n_points"].get(nb_, 0) + 1
        dist["queries"] += len(case["ts"])
        dist["impl_indexerror_results"] += sum(1 for r in res if r[0] != "Val")
        ctx.count_case(json.dumps(jsonable(case), sort_keys=True),
                       nontrivial=len(case["grid"]) >= 3)
        model_ok = None
        if vals is not None:
            mnz, mres = canon_model(vlib.parse_coq_value(vals[i]), exact)
            ires = res
            if exact:
                ires = [r if r[0] != "Val" else ("Val", Fraction(r[1]), Fraction(r[2]))
                        for r in res]
            model_ok = (mnz == nz and same_results(mres, ires))
            if "shares" in extra and extra["shares"] != model_shares:
                ctx.violation("corr:InterCoefficient", "shares-memory-with-inputs",
                              "InterCoefficient(order=%d) keeps memory of the arrays it was "
                              "built from (np.shares_memory(np_arrays, inputs) = %s, model: %s): "
                              "later in-place edits of the caller's buffers change the "
                              "coefficient" % (case["order"], extra["shares"], model_shares),
                              {"kind": "inter", "case": jsonable(case), "index_path": nz,
                               "shares": extra["shares"]})
            if model_ok and case.get("copy"):
                for nm in ("pickle", "copy"):
                    cnz, cres = extra[nm]
                    if exact:
                        cres = [r if r[0] != "Val" else ("Val", Fraction(r[1]), Fraction(r[2]))
                                for r in cres]
                    if not (cnz == mnz and same_results(mres, cres)):
                        model_ok = False
            ctx.cov["traces_validated_against_impl"] += 1
        bad = oracle_inter(case, nz, res)
        if model_ok is False:
            mism += 1
            if mism <= 4:
                # which query differs
                k = next((j for j, (x, y) in enumerate(zip(mres, ires))
                          if x[0] != y[0] or (x[0] == "Val" and (x[1] != y[1] or x[2] != y[2]))),
                         None)
                what = ("model (%s instance) and implementation disagree" % (
                    "NQ" if exact else "NF"))
                if mnz != nz:
                    what += "; index-path choice: impl %s, model %s" % (nz, mnz)
                if k is not None:
                    what += "; t=%r: impl %r, model %r" % (float(case["ts"][k]), ires[k], mres[k])
                if bad:
                    what += "; the implementation also violates the property: " + bad[0][1]
                ctx.violation("corr:InterCoefficient",
                              "model-differs" if not bad else "model-differs+" + classify(case, nz).split(":")[0],
                              what, {"kind": "inter", "case": jsonable(case),
                                     "index_path": nz}, found_input=True)
        elif bad:
            # the implementation behaves as the faithful model predicts, and
            # that behaviour violates the property
            sig = classify(case, nz)
            if sig in known_hits:
                known_hits[sig] += 1
            ctx.violation(SITE_INTER, sig,
                          "InterCoefficient(order=%d) on a %s grid of %d points (index "
                          "path: %s): %s" % (case["order"], case["gridkind"], len(case["grid"]),
                                             "formula (t-t0)/dt" if nz else "binary search",
                                             bad[0][1]),
                          {"kind": "inter", "case": jsonable(case), "index_path": nz,
                           "failures": [b[1] for b in bad[:5]]})
    # exact cases through the float instance as well
    if vals is not None:
        for j, i in enumerate(extra_idx):
            case, exact, (nz, res, extra) = streams[i]
            mnz, mres = canon_model(vlib.parse_coq_value(vals[nb + j]), False)
            ctx.count_case(("nf", json.dumps(jsonable(case), sort_keys=True)),
                           nontrivial=len(case["grid"]) >= 3)
            ctx.cov["traces_validated_against_impl"] += 1
            if not (mnz == nz and same_results(mres, res)):
                mism += 1
                if mism <= 4:
                    ctx.violation("corr:InterCoefficient", "model-differs",
                                  "binary64 instance of the model and implementation disagree "
                                  "on an exactly representable case",
                                  {"kind": "inter", "case": jsonable(case), "index_path": nz})
        spec_mism = 0
        for j, i in enumerate(extra_idx):
            case, exact, (nz, res, extra) = streams[i]
            sres = canon_model((False, vlib.parse_coq_value(vals[nspec + j])), True)[1]
            ires = [r if r[0] != "Val" else ("Val", Fraction(r[1]), Fraction(r[2])) for r in res]
            ctx.count_case(("spec", json.dumps(jsonable(case), sort_keys=True)),
                           nontrivial=len(case["grid"]) >= 3)
            ctx.cov["traces_validated_against_impl"] += 1
            if not same_results(sres, ires):
                spec_mism += 1
                if spec_mism <= 3:
                    k = next((q for q, (x, y) in enumerate(zip(sres, ires))
                              if x[0] != y[0] or (x[0] == "Val" and (x[1] != y[1] or x[2] != y[2]))),
                             0)
                    ctx.violation("corr:InterCoefficient", "differs-from-polynomial-specification",
                                  "InterCoefficient (%s, order %d) differs from the piecewise "
                                  "polynomial it stands for at t=%r: impl %r, specification %r" % (
                                      case["kind"], case["order"], float(case["ts"][k]),
                                      ires[k], sres[k]),
                                  {"kind": "inter", "case": jsonable(case), "index_path": nz})
        dist["specification_cases"] = len(extra_idx)
        dist["specification_mismatches"] = spec_mism
    dist["repaired_defect_signature_hits"] = known_hits
    dist["model_mismatches"] = mism

    # the witnesses of the defects repaired by b254917 / 4ce1843 (Examples
    # C06_old_rules_witness_* of Props/C06.v) stay in the stream as
    # regression cases: they must evaluate correctly (a failure is reported
    # as a violation by the oracle / correspondence above)
    for (name, g, v, order, t, k), (case, exact, (nz, res, _)) in zip(WITNESSES, streams):
        want = complex(v[k])
        got = res[0]
        reproduced = (got[0] != "Val") or complex(got[1], got[2]) != want
        ctx.add_obligation("witness-regression:" + name, not reproduced)

    ctx.log("InterCoefficient correspondence + oracle done: %d mismatches" % mism)
    # ------------------------------------------------- spline orders (validation)
    dist["spline_cases"] = run_spline_validation(ctx, rng, 60 if ctx.quick else 600)

    # ------------------------------------------------------ FunctionCoefficient
    nfunc = 200 if ctx.quick else 2500
    fc_cases = [gen_func_case(rng) for _ in range(nfunc)]
    traces = [run_impl_func(c) for c in fc_cases]
    fexprs = []
    fidx = []
    for i, (c, tr) in enumerate(zip(fc_cases, traces)):
        if "error" in tr:
            ctx.violation("coefficient.coefficient_function_parameters", "raises",
                          "coefficient_function_parameters raised %s" % tr["error"],
                          {"kind": "func", "case": c})
            continue
        fexprs.append(model_func_exprs(c, tr["params"], tr["has_kw"]))
        fidx.append(i)
    fdist = {"func": {}, "style": {}, "ops": {}}
    try:
        fvals = vlib.coq_eval_values("cases_C06f", HEADER, fexprs, chunk=100)
    except (RuntimeError, ValueError) as e:
        ctx.violation("corr:C06:model-eval", "coqc-func", "function model evaluation failed",
                      {"log": str(e)[-3000:]}, found_input=False)
        fvals = None
    for j, i in enumerate(fidx):
        c, tr = fc_cases[i], traces[i]
        fdist["func"][c["func"]] = fdist["func"].get(c["func"], 0) + 1
        fdist["style"][str(c["style"])] = fdist["style"].get(str(c["style"]), 0) + 1
        fdist["ops"][str(len(c["ops"]))] = fdist["ops"].get(str(len(c["ops"])), 0) + 1
        ctx.count_case(("func", json.dumps(c, sort_keys=True)), nontrivial=len(c["ops"]) >= 1)
        for b in oracle_func(c, tr):
            ctx.violation("coefficient.FunctionCoefficient", b.split(" ")[0] + "-" + b.split(" ")[1],
                          b, {"kind": "func", "case": c, "trace": repr(tr)})
        if fvals is None:
            continue
        mv = parse_func_value(fvals[j])
        msg = check_func_case(ctx, c, tr, mv)
        ctx.cov["traces_validated_against_impl"] += 1
        if msg:
            ctx.violation("corr:FunctionCoefficient", msg.split(":")[0], msg,
                          {"kind": "func", "case": c, "impl": repr(tr), "model": repr(mv)})
        else:
            # direct oracle: the final coefficient value is the function
            # applied to the arguments a user would expect
            pass
    ctx.log("FunctionCoefficient correspondence done")
    tdist = run_tree_corr(ctx, rng, 150 if ctx.quick else 2000)
    ctx.log("composite / argument-history correspondence done: %s" % tdist)
    fdist["composite_histories"] = tdist
    run_func_direct_oracle(ctx, rng, 100 if ctx.quick else 1000)
    ctx.log("function oracle done")

    # --------------------------------------------------- construction isolation
    idist = run_isolation(ctx, rng, 150 if ctx.quick else 1500)
    ctx.log("construction-isolation oracle done: %d failing cases" % idist["failures"])

    # ------------------------------------------------------- expression strings
    sdist = run_string_checks(ctx, rng, 120 if ctx.quick else 1500)

    pdist = run_parse_corr(ctx, rng, 150 if ctx.quick else 1500)
    ctx.log("parse() correspondence done: %s" % pdist)
    sdist["parse_model_correspondence"] = pdist
    ctx.cov["input_distribution"] = {"inter": dist, "function": fdist, "string": sdist,
                                     "isolation": idist}
    ctx.sample({"inter_case": jsonable({k: v for k, v in fcases[-1].items() if k != "ts"}),
                "n_queries": len(fcases[-1]["ts"]),
                "impl_first_results": repr(streams[len(fcases) - 1][2][1][:3])})
    ctx.sample({"exact_case": jsonable({k: v for k, v in ecases[-1].items() if k != "ts"})})
    ctx.sample({"function_case": fc_cases[-1], "impl_trace": repr(traces[-1])})
    ctx.cov["explanation"] = (
        "Theorems (Props/C06.v): the binary search returns the cell containing t within its "
        "64-step budget for every array of length < 2^63 and every comparison function; on "
        "strictly increasing grids of any scale/spacing the evaluation is the step function "
        "(order 0), the linear interpolant (order 1), the constant term of the piece at a "
        "knot (any order), constant outside, for any index computation that returns the "
        "right cell, and C06_index_right_cell shows the index _call computes (float quotient "
        "kept only when tlist[idx] <= t < tlist[idx+1], binary search otherwise) is that cell "
        "whatever dt, the uniform-grid test, the division and the size_t cast give, so the "
        "statements hold unconditionally for the code's own path. The rules before fixes "
        "b254917 / 4ce1843 survive as old_call / old_NQ / old_NF in two witness Examples; "
        "the witnesses stay in the correspondence stream as regression cases. "
        "Polynomial pieces (Props/C06_poly.v): the Horner loop is polynomial evaluation for "
        "every order; _call equals the piecewise-polynomial specification spec_eval (powers of "
        "t - t_k, cell by linear scan, constant outside) for every order, grid and t; "
        "continuity at a knot reduces to the pieces joining there, proved for order 1 and "
        "validated numerically for scipy's pieces (orders 2-5, boundary conditions natural / "
        "clamped / not-a-knot); spec_eval is compared exactly with the real class on the "
        "exact stream (orders 0-1 via __init__, 1-5 via restore). "
        "Argument histories (Props/C06_args.v): for coefficients composed with + * conj norm "
        "from function / string / argument-free leaves, after any history of "
        "replace_arguments and any call-time arguments every leaf sees, for each name it "
        "accepts, the last value given anywhere, else its construction value; tied to the "
        "real classes by exact comparison on generated trees and histories. "
        "String path (Props/C06_str.v): for every word list, args dictionary and typing, "
        "the expression rewritten by parse(), read with the variables and ordered constants "
        "it returns, denotes word for word what the original denotes (temporaries numbered "
        "pattern class first, position second, still point to their own literal; generated "
        "names never collide; repeated arguments re-use their variable), tied to parse() by "
        "exact comparison of (code, variables, constants). "
        "FunctionCoefficient: "
        "argument filtering/merging and equality of the construction / replacement / "
        "call-time paths. The model is tied to coefficient.pyx by bit-exact (binary64 "
        "instance) and exact (rational instance) comparison with the real classes.")


def parse_func_value(s):
    """((py, params-option), [tables], [same flags])"""
    v = vlib.parse_coq_value(s)
    # printed as (py, opt, tabs, same) because Coq flattens left-nested pairs
    if len(v) == 3 and isinstance(v[0], tuple):
        (cf, tabs, same) = v
        py, ps = cf
    else:
        py, ps, tabs, same = v
    if ps is not None:
        ps = list(ps[1])
    tabs = [[None if x is None else ("Some", x[1]) for x in tab] for tab in tabs]
    return ((py, ps), tabs, list(same))


def encode(seen):
    """injective numeric encoding of (t, items) so that the wrapped function
    returns a number, as qutip.coefficient requires"""
    t, items = seen
    acc = 0
    d = dict(items)
    for k in KEYS:
        acc = acc * 32 + (d[k] + 16 if k in d else 0)
    return complex(t, acc)


def numeric_funcs():
    import functools
    out = {}
    for name, f in make_funcs().items():
        def mk(f):
            import inspect
            sig = inspect.signature(f)

            def g(*a, **k):
                return encode(f(*a, **k))
            g.__signature__ = sig
            return g
        out[name] = mk(f)
    return out


def run_func_direct_oracle(ctx, rng, n):
    """independent of the model: qutip.coefficient(f, args=A) evaluated at t,
    after replace_arguments(B) and with call-time C, equals f applied
    directly to the merged arguments restricted to what f declares"""
    import inspect
    import qutip
    funcs = numeric_funcs()
    for _ in range(n):
        name = rng.choice(sorted(funcs))
        f = funcs[name]
        A = {k: rng.randint(-9, 9) for k in KEYS if rng.random() < 0.5}
        B = {k: rng.randint(-9, 9) for k in KEYS if rng.random() < 0.3}
        C = {k: rng.randint(-9, 9) for k in KEYS if rng.random() < 0.3}
        t = float(rng.randint(-4, 4))
        sig = inspect.signature(f)
        names = list(sig.parameters)
        has_kw = any(p.kind == p.VAR_KEYWORD for p in sig.parameters.values())
        dict_style = (names == ["t", "args"] and not has_kw)

        def direct(d):
            if dict_style:
                return f(t, dict(d))
            if has_kw:
                return f(t, **d)
            return f(t, **{k: v for k, v in d.items() if k in names[1:]})
        try:
            want = (direct(A), direct({**A, **B}), direct({**A, **B, **C}), direct(A),
                    direct({**A, **B}))
        except TypeError:
            continue          # the function cannot be called with these arguments
        ctx.count_case(("func-direct", name, repr(sorted(A.items())), repr(sorted(B.items())),
                        repr(sorted(C.items()))), nontrivial=bool(B or C))
        try:
            co = qutip.coefficient(f, args=dict(A))
            v0 = co(t)
            co2 = co.replace_arguments(dict(B))
            v1 = co2(t)
            v2 = co2(t, dict(C))
            v0b = co(t)
            v3 = co2.copy()(t)
            got = (v0, v1, v2, v0b, v3)
        except Exception as e:
            got = ("raised", type(e).__name__, str(e))
        if got != want:
            ctx.violation("coefficient.FunctionCoefficient", "value-differs-from-function",
                          "coefficient(%s, args=%r); replace %r; call-time %r: got %r, the "
                          "function gives %r" % (name, A, B, C, got, want),
                          {"kind": "func-direct", "func": name, "A": A, "B": B, "C": C, "t": t})


# -------------------------------------------------------------------- replay
def replay(ctx, payload):
    d = payload["detail"]
    if d.get("kind") == "inter":
        case = unjson(d["case"])
        fcase = to_float_case(case) if any(isinstance(x, Fraction) for x in case["grid"]) else case
        nz, res, _ = run_impl_inter(fcase)
        bad = oracle_inter(case, nz, res)
        if case["kind"] == "init" and case["order"] >= 2:
            bad = bad or [("value", "spline sample not reproduced", None)]
        if bad:
            ctx.violation(payload["site"], payload["signature"], bad[0][1],
                          {"kind": "inter", "case": d["case"], "index_path": nz})
        return
    if d.get("kind") == "isolation":
        case = d["case"]
        if "vform" in case:
            run_iso_array(ctx, case)
        elif "code" in case:
            run_iso_args(ctx, case)
        else:
            run_iso_ppoly(ctx, random.Random(0))
        return
    if d.get("kind") == "func":
        tr = run_impl_func(d["case"])
        for b in oracle_func(d["case"], tr):
            ctx.violation(payload["site"], payload["signature"], b, d)
        return
    ctx.log("replay: payload kind %r is re-run by the full check" % d.get("kind"))
