"""C10 - all deterministic evolution routes agree with the exact solution.

Parts of a run (see BUILDING.md):
  T   tools/tx_c10_tableau.py regenerates coq/Gen/C10_tab_*.v (the Butcher
      tableaux as the exact doubles of the source); Proofs/C10_tab_*.v
      re-prove row sums, ALL rooted-tree order conditions up to the advertised
      order, Taylor coefficients of the kernel's symbolic run, dense output.
  K   the real Explicit_RungeKutta (explicit_rk.pyx) is driven with custom
      dyadic tableaux, Gaussian-integer generators M0 + t*M1, dyadic step
      sizes and times; every returned state is compared EXACTLY with the Coq
      model (Model/C10.v, vm_compute over Gaussian rationals).
      stack_columns / unstack_columns and Solver._prepare_state /
      _restore_state are compared exactly with the index model.
  O   oracle (always run, exploration - tolerances, not a proof): every
      registered integration method x data format x state form x coefficient
      kind against scipy.linalg.expm / against the other routes; norm, trace,
      Hermiticity at every stored time.
"""
import json
import math
import os
import random
from fractions import Fraction as Fr

import numpy as np

import vlib
import tx_c10_tableau as tx

HEADER = ("From Coq Require Import List ZArith QArith Bool.\nImport ListNotations.\n"
          "From QV Require Import Model.C10_trees Model.C10.\nLocal Open Scope Z_scope.\n")


# =====================================================================
#  K1: kernel correspondence
# =====================================================================
def _rq(rng, den, lo, hi):
    return Fr(rng.randint(lo, hi), den)


def gen_kernel_case(rng, size):
    """size 0..2: how much arithmetic the case may contain (exactness budget)."""
    n = rng.choice([1, 2, 2, 3])
    m = rng.choice([1, 1, n])
    adaptive = rng.random() < 0.5
    s = rng.choice([1, 2, 2, 3, 3, 4])
    extra = s + (rng.choice([0, 1, 2]) if (adaptive or rng.random() < 0.4) else 0)
    dense = adaptive or (extra > s) or rng.random() < 0.2
    q = rng.choice([1, 2, 3]) if dense else 0
    den = rng.choice([1, 2, 4])
    tdep = rng.random() < 0.5

    def ent():
        return _rq(rng, den, -2 * den, 2 * den) if rng.random() < 0.8 else Fr(0)

    a = [[ent() for _ in range(extra)] for _ in range(extra)]
    if rng.random() < 0.3:      # a proper explicit tableau now and then
        for i in range(extra):
            for j in range(i, extra):
                a[i][j] = Fr(0)
    b = [ent() for _ in range(s)]
    c = [_rq(rng, rng.choice([1, 2]), -2, 4) for _ in range(extra)]
    e = [ent() for _ in range(s)] if adaptive else None
    bi = [[ent() for _ in range(q)] for _ in range(extra)] if dense else None

    def gi():
        if rng.random() < 0.35:
            return (0, 0)
        return (rng.randint(-2, 2), rng.randint(-2, 2))
    M0 = [[gi() for _ in range(n)] for _ in range(n)]
    M1 = [[gi() for _ in range(n)] for _ in range(n)] if tdep else None
    y0 = [[(rng.randint(-3, 3), rng.randint(-3, 3)) for _ in range(m)] for _ in range(n)]
    t0 = Fr(rng.randint(-2, 3), rng.choice([1, 2]))
    h = Fr(1, rng.choice([1, 2, 4])) * rng.choice([1, 1, 2])
    ncalls = rng.choice([1, 2, 3]) if size == 0 else rng.choice([2, 3, 4, 5])
    ts = []
    if adaptive:
        # times on a grid of h/4, forward moves of at most ~2 steps, now and
        # then a query back inside the current window or a repeated time
        t = t0
        front = t0
        prev = t0
        for _ in range(ncalls):
            r = rng.random()
            if r < 0.04:
                t = prev - h / 2               # malformed: before the window
            elif r < 0.15 and front > prev:
                t = prev + (front - prev) * Fr(rng.randint(0, 4), 4)
            elif r < 0.25:
                pass                       # same time again
            else:
                t = max(t, prev) + h * Fr(rng.randint(1, 9), 4)
            ts.append(t)
            while front < t:
                prev, front = front, front + h
    else:
        t = t0
        prev = t0
        for _ in range(ncalls):
            r = rng.random()
            if r < 0.04:
                t = prev - 1                   # malformed: before the window
            elif r < 0.1:
                pass
            else:
                prev = t
                t = t + Fr(rng.randint(1, 6), rng.choice([1, 2, 4]))
            ts.append(t)
            if t < prev:
                break
    prelude = None
    if rng.random() < 0.4:
        # history on ONE integrator object: an earlier session (other state,
        # possibly other shape, other start time) before set_initial_value
        mp = rng.choice([m, 1, n])
        tp = Fr(rng.randint(-3, 3), rng.choice([1, 2]))
        tsp, tt = [], tp
        for _ in range(rng.choice([1, 2, 3])):
            tt = tt + h * Fr(rng.randint(1, 9), 4)
            tsp.append(tt)
        prelude = {"y0": [[(rng.randint(-3, 3), rng.randint(-3, 3)) for _ in range(mp)]
                          for _ in range(n)], "t0": tp, "ts": tsp}
    return {"n": n, "m": m, "a": a, "b": b, "c": c, "e": e, "bi": bi, "prelude": prelude,
            "M0": M0, "M1": M1, "y0": y0, "t0": t0, "h": h, "ts": ts,
            "adaptive": adaptive,
            "op_dtype": rng.choice(["Dense", "CSR", "Dia"]),
            "state_dtype": "Dense" if adaptive else rng.choice(["Dense", "Dense", "CSR"])}


def case_to_json(case):
    def f(x):
        if isinstance(x, Fr):
            return [x.numerator, x.denominator]
        if isinstance(x, (list, tuple)):
            return [f(e) for e in x]
        if isinstance(x, dict):
            return {k: f(v) for k, v in x.items()}
        return x
    return {k: f(v) for k, v in case.items()}


def case_from_json(d):
    def fr(x):
        return Fr(x[0], x[1])

    def frl(x):
        return None if x is None else [fr(e) for e in x]

    def frm(x):
        return None if x is None else [[fr(e) for e in r] for r in x]

    def gm(x):
        return None if x is None else [[tuple(e) for e in r] for r in x]
    c = dict(d)
    c["a"], c["bi"] = frm(d["a"]), frm(d["bi"])
    c["b"], c["c"], c["e"], c["ts"] = frl(d["b"]), frl(d["c"]), frl(d["e"]), frl(d["ts"])
    c["t0"], c["h"] = fr(d["t0"]), fr(d["h"])
    c["M0"], c["M1"], c["y0"] = gm(d["M0"]), gm(d["M1"]), gm(d["y0"])
    pr = d.get("prelude")
    c["prelude"] = None if not pr else {"y0": gm(pr["y0"]), "t0": fr(pr["t0"]), "ts": frl(pr["ts"])}
    return c


# ---- exact reference (only used as an input filter: are all intermediate
# values exactly representable in double precision?) -----------------------
class Budget:
    def __init__(self):
        self.maxabs = Fr(0)
        self.maxden = 1

    def note(self, x):
        for p in (x[0], x[1]):
            if abs(p) > self.maxabs:
                self.maxabs = abs(p)
            if p.denominator > self.maxden:
                self.maxden = p.denominator

    def bits(self):
        if self.maxden & (self.maxden - 1):
            return 999
        return (self.maxabs.numerator.bit_length() - self.maxabs.denominator.bit_length() + 2
                + self.maxden.bit_length())


def ref_session(case):
    """Mirror of Model/C10.v with Fractions; returns (outputs, bits)."""
    bud = Budget()
    n, m = case["n"], case["m"]
    a, b, c, bi = case["a"], case["b"], case["c"], case["bi"]
    s, extra = len(b), len(c)
    q = len(bi[0]) if bi else 0
    M0 = [[(Fr(x), Fr(y)) for x, y in r] for r in case["M0"]]
    M1 = [[(Fr(x), Fr(y)) for x, y in r] for r in case["M1"]] if case["M1"] else None

    def cmul(x, y):
        # bound intermediate products too
        for p in (x[0] * y[0], x[1] * y[1], x[0] * y[1], x[1] * y[0]):
            bud.note((p, Fr(0)))
        return (x[0] * y[0] - x[1] * y[1], x[0] * y[1] + x[1] * y[0])

    def matmul(M, Y):
        out = []
        for i in range(n):
            row = []
            for j in range(m):
                acc = (Fr(0), Fr(0))
                absacc = Fr(0)
                for k in range(n):
                    p = cmul(M[i][k], Y[k][j])
                    acc = (acc[0] + p[0], acc[1] + p[1])
                    absacc += abs(p[0]) + abs(p[1])
                bud.note((absacc, Fr(0)))
                row.append(acc)
            out.append(row)
        return out

    def F(t, Y):
        r = matmul(M0, Y)
        if M1 is not None:
            r1 = matmul(M1, Y)
            tt = (t, Fr(0))
            for i in range(n):
                for j in range(m):
                    p = cmul(tt, r1[i][j])
                    r[i][j] = (r[i][j][0] + p[0], r[i][j][1] + p[1])
                    bud.note((abs(r[i][j][0]) + abs(p[0]), abs(r[i][j][1]) + abs(p[1])))
        return r

    def accumulate(target, factors, dt, ks, size):
        tgt = [row[:] for row in target]
        for i in range(min(size, len(factors), len(ks))):
            f = dt * factors[i]
            bud.note((f, Fr(0)))
            if f == 0:
                continue
            for r in range(n):
                for cc in range(m):
                    p = cmul((f, Fr(0)), ks[i][r][cc])
                    v = (tgt[r][cc][0] + p[0], tgt[r][cc][1] + p[1])
                    bud.note((abs(tgt[r][cc][0]) + abs(p[0]), abs(tgt[r][cc][1]) + abs(p[1])))
                    tgt[r][cc] = v
        return tgt

    def stages(tp, yp, dt, i0, cnt, ks):
        ks = list(ks)
        for i in range(i0, i0 + cnt):
            ti = tp + c[i] * dt
            bud.note((ti, Fr(0)))
            ks.append(F(ti, accumulate(yp, a[i], dt, ks, i)))
        return ks

    y0 = [[(Fr(x), Fr(y)) for x, y in r] for r in case["y0"]]
    st = {"t": case["t0"], "y": y0, "tp": case["t0"], "yp": y0,
          "tf": case["t0"], "yf": y0, "ks": [], "dt": Fr(0)}
    outs = []
    for t in case["ts"]:
        if t == st["t"]:
            outs.append((st["t"], st["y"]))
            continue
        if t < st["tp"]:
            outs.append(None)
            break
        while st["tf"] < t:
            dt = case["h"] if case["adaptive"] else t - st["tf"]
            ks = stages(st["tf"], st["yf"], dt, 1, s - 1, [F(st["tf"], st["yf"])])
            st = {"t": st["t"], "y": st["y"], "tp": st["tf"], "yp": st["yf"],
                  "tf": st["tf"] + dt, "yf": accumulate(st["yf"], b, dt, ks, s),
                  "ks": ks, "dt": dt}
        if t < st["tf"]:
            ks = stages(st["tp"], st["yp"], st["dt"], s, extra - s, st["ks"])
            tau = (t - st["tp"]) / st["dt"]
            bfs = []
            for i in range(extra):
                bf = Fr(0)
                for j in range(q - 1, -1, -1):
                    bf = (bf + bi[i][j]) * tau
                    bud.note((bf, Fr(0)))
                bfs.append(bf)
            st = dict(st, t=t, y=accumulate(st["yp"], bfs, st["dt"], ks, extra), ks=ks)
        else:
            st = dict(st, t=st["tf"], y=st["yf"])
        outs.append((st["t"], st["y"]))
    return outs, bud.bits()


# ---- the real kernel ---------------------------------------------------
def impl_session(case):
    import qutip
    from qutip.solver.integrator.explicit_rk import Explicit_RungeKutta
    n, m = case["n"], case["m"]

    def arr(M):
        return np.array([[complex(x, y) for x, y in r] for r in M], dtype=complex)
    dt_map = {"Dense": "dense", "CSR": "csr", "Dia": "dia"}
    M0 = qutip.Qobj(arr(case["M0"])).to(dt_map[case["op_dtype"]])
    if case["M1"] is not None:
        M1 = qutip.Qobj(arr(case["M1"])).to(dt_map[case["op_dtype"]])
        qevo = qutip.QobjEvo([M0, [M1, _lin_coeff]])
    else:
        qevo = qutip.QobjEvo(M0)
    meth = {"order": 2,
            "a": np.ascontiguousarray(np.array([[float(x) for x in r] for r in case["a"]], dtype=np.float64)),
            "b": np.array([float(x) for x in case["b"]], dtype=np.float64),
            "c": np.array([float(x) for x in case["c"]], dtype=np.float64)}
    if case["e"] is not None:
        meth["e"] = np.array([float(x) for x in case["e"]], dtype=np.float64)
    if case["bi"] is not None:
        meth["bi"] = np.ascontiguousarray(
            np.array([[float(x) for x in r] for r in case["bi"]], dtype=np.float64).reshape(len(case["c"]), -1))
    h = float(case["h"])
    if case["adaptive"]:
        ode = Explicit_RungeKutta(qevo, rtol=1e-6, atol=1e200, nsteps=1000, first_step=h,
                                  min_step=0, max_step=h, interpolate=True, method=meth)
    else:
        ode = Explicit_RungeKutta(qevo, rtol=1e-6, atol=1e-12, nsteps=1000, first_step=0,
                                  min_step=0, max_step=0, interpolate=True, method=meth)
    y0 = qutip.data.Dense(arr(case["y0"]).reshape(n, m))
    if case["state_dtype"] == "CSR":
        y0 = qutip.data.to(qutip.data.CSR, y0)
    pr = case.get("prelude")
    if pr:
        yp = np.array([[complex(x, y) for x, y in r] for r in pr["y0"]], dtype=complex)
        yp = qutip.data.Dense(yp.reshape(n, -1))
        if case["state_dtype"] == "CSR":
            yp = qutip.data.to(qutip.data.CSR, yp)
        ode.set_initial_value(yp, float(pr["t0"]))
        for t in pr["ts"]:
            ode.integrate(float(t))
    ode.set_initial_value(y0, float(case["t0"]))
    outs = []
    for t in case["ts"]:
        ode.integrate(float(t))
        if ode.status < 0:
            outs.append(None)
            break
        outs.append((ode.t, np.array(ode.y.to_array())))
    return outs


def _lin_coeff(t):
    return t


def impl_canon(outs):
    res = []
    for o in outs:
        if o is None:
            res.append(None)
            continue
        t, y = o
        res.append((Fr(float(t)), [[(Fr(float(v.real)), Fr(float(v.imag))) for v in row] for row in y]))
    return res


# ---- the Coq model ------------------------------------------------------
def cq(x):
    x = Fr(x)
    return "(gqz %s %d 0 1)" % (vlib.cz(x.numerator), x.denominator)


def cgi(p):
    return "(gqz %s 1 %s 1)" % (vlib.cz(p[0]), vlib.cz(p[1]))


def cmat(M, f):
    return vlib.clist(M, lambda r: vlib.clist(r, f))


def coq_expr(case):
    n = case["n"]
    tb = "(mk_tableau gq %s %s %s %s %s)" % (
        cmat(case["a"], cq), vlib.clist(case["b"], cq), vlib.clist(case["c"], cq),
        vlib.cbool(case["adaptive"]), cmat(case["bi"], cq) if case["bi"] else "[]")
    m1 = case["M1"] if case["M1"] is not None else [[(0, 0)] * n for _ in range(n)]
    return "g_run %s %s %s 64%%nat %s %s %s %s" % (
        tb, cmat(case["M0"], cgi), cmat(m1, cgi), cq(case["h"]), cmat(case["y0"], cgi),
        cq(case["t0"]), vlib.clist(case["ts"], cq))


def model_canon(v):
    res = []
    for o in v:
        if o is None:
            res.append(None)
            continue
        assert o[0] == "Some", o
        # Coq prints ((a, b), (c, d), m) as (a, b, (c, d), m)
        tn, td, _ti, mat = o[1]
        res.append((Fr(tn, td),
                    [[(Fr(e[0], e[1]), Fr(e[2][0], e[2][1])) for e in row] for row in mat]))
    return res


def show(outs):
    def f(x):
        return str(x)
    return [None if o is None else [f(o[0]), [[[f(e[0]), f(e[1])] for e in r] for r in o[1]]] for o in outs]


def kernel_oracle(case, got):
    """The property itself on one kernel session: for a time-independent
    generator and a *consistent* use of the tableau the result must be the
    exact Runge-Kutta value (reference arithmetic)."""
    ref, _ = ref_session(case)
    return ref == got


def run_kernel_corr(ctx, rng, ncases):
    cases = []
    cdir = os.path.join(vlib.VERIF, "corpus", "C10")
    if os.path.isdir(cdir):
        for f in sorted(os.listdir(cdir)):
            d = json.load(open(os.path.join(cdir, f)))
            if d.get("kind") == "kernel":
                cases.append(case_from_json(d["case"]))
    tries = 0
    skipped = 0
    refs = []
    for c in cases:
        refs.append(ref_session(c)[0])
    while len(cases) < ncases and tries < ncases * 20:
        tries += 1
        c = gen_kernel_case(rng, rng.choice([0, 1, 1]))
        ref, bits = ref_session(c)
        if bits > 50:
            skipped += 1
            continue
        cases.append(c)
        refs.append(ref)
    impl = []
    for c in cases:
        try:
            impl.append(impl_canon(impl_session(c)))
        except Exception as e:          # noqa
            impl.append(("raise", type(e).__name__ + ": " + str(e)[:200]))
    try:
        vals = vlib.coq_eval_values("cases_C10k", HEADER, [coq_expr(c) for c in cases], chunk=40)
    except RuntimeError as e:
        ctx.violation("corr:C10:kernel-model-eval", "coqc", "kernel model evaluation failed",
                      {"log": str(e)}, found_input=False)
        return
    dist = {"adaptive": 0, "fixed": 0, "time_dependent": 0, "interpolated_outputs": 0,
            "op_dtype": {}, "state_dtype": {}, "stages": {}, "skipped_for_exactness": skipped}
    bad = 0
    for k, c in enumerate(cases):
        model = model_canon(vlib.parse_coq_value(vals[k]))
        dist["adaptive" if c["adaptive"] else "fixed"] += 1
        dist["time_dependent"] += 1 if c["M1"] is not None else 0
        dist["object_reused_after_earlier_session"] = (
            dist.get("object_reused_after_earlier_session", 0) + (1 if c.get("prelude") else 0))
        dist["interpolated_outputs"] += sum(1 for j in range(len(c["ts"])) if _is_interp(c, j))
        dist["op_dtype"][c["op_dtype"]] = dist["op_dtype"].get(c["op_dtype"], 0) + 1
        dist["state_dtype"][c["state_dtype"]] = dist["state_dtype"].get(c["state_dtype"], 0) + 1
        key = "%d/%d" % (len(c["b"]), len(c["c"]))
        dist["stages"][key] = dist["stages"].get(key, 0) + 1
        ctx.count_case(json.dumps(case_to_json(c), sort_keys=True),
                       nontrivial=len(c["ts"]) >= 1 and len(c["b"]) >= 2)
        ctx.cov["traces_validated_against_impl"] += 1
        if model != refs[k]:
            # harness self-check: the two exact evaluations of the model differ
            ctx.violation("corr:C10:kernel-reference", "model-vs-reference",
                          "Coq model and exact Python reference disagree (harness defect)",
                          {"case": case_to_json(c), "model": show(model), "reference": show(refs[k])},
                          found_input=False)
            continue
        if impl[k] != model:
            bad += 1
            if bad <= 3:
                what = ("Explicit_RungeKutta returns a state that is not the Runge-Kutta value "
                        "of its tableau (exact comparison, dyadic data)")
                ctx.violation("corr:explicit_rk.kernel", _kernel_signature(c, impl[k], model), what,
                              {"kind": "kernel", "case": case_to_json(c),
                               "impl": impl[k] if isinstance(impl[k], tuple) else show(impl[k]),
                               "model": show(model)}, found_input=True)
    ctx.cov["input_distribution"]["kernel"] = dist
    if cases:
        c = cases[-1]
        ctx.sample({"kernel_case": case_to_json(c), "impl_equals_model": impl[-1] == refs[-1]})
    ctx.log("kernel correspondence: %d sessions, %d mismatches, %d candidates skipped (exactness budget)"
            % (len(cases), bad, skipped))


def _kernel_signature(c, impl, model):
    if isinstance(impl, tuple):
        return "raises"
    if len(impl) != len(model):
        return "different-number-of-outputs"
    for k, (a, b) in enumerate(zip(impl, model)):
        if a != b:
            if a is None or b is None:
                return "status-differs"
            if a[0] != b[0]:
                return "time-differs"
            return "interpolated-value-differs" if (c["adaptive"] or c["bi"]) and _is_interp(c, k) \
                else "step-value-differs"
    return "?"


def _is_interp(c, k):
    if not c["adaptive"]:
        return False
    t = c["ts"][k]
    return ((t - c["t0"]) / c["h"]).denominator != 1


def run_init_coeff_corr(ctx, rng, ncases):
    """malformed stream: tableau parts of inconsistent shapes; the real
    _init_coeff must raise ValueError exactly when Model/C10_init.v says so"""
    import qutip
    from qutip.solver.integrator.explicit_rk import Explicit_RungeKutta
    qevo = qutip.QobjEvo(qutip.Qobj(np.array([[1.0]])))
    cases, exprs, got = [], [], []
    for _ in range(ncases):
        nc = rng.choice([1, 2, 3, 4])
        nb = rng.choice([nc, nc, max(1, nc - 1), nc + 1])
        na0 = rng.choice([nc, nc, nc, nc + 1, max(1, nc - 1)])
        na1 = rng.choice([nc, nc, nc, nc + 1, max(1, nc - 1)])
        ne = rng.choice([None, nb, nb, nb + 1, max(1, nb - 1)])
        nbi = rng.choice([None, nc, nc, nc + 1, max(1, nc - 1)])
        interp = rng.random() < 0.7
        meth = {"order": 2, "a": np.zeros((na0, na1)), "b": np.ones(nb) / nb, "c": np.zeros(nc)}
        if ne is not None:
            meth["e"] = np.zeros(ne)
        if nbi is not None:
            meth["bi"] = np.zeros((nbi, 2))
        try:
            Explicit_RungeKutta(qevo, interpolate=interp, method=meth)
            ok = True
        except ValueError:
            ok = False
        cases.append((nb, nc, na0, na1, ne, nbi, interp))
        got.append(ok)
        exprs.append("init_coeff_ok %d %d %d %d %s %s %s" % (
            nb, nc, na0, na1, vlib.copt(ne), vlib.copt(nbi), vlib.cbool(interp)))
    hdr = "From Coq Require Import Arith Bool.\nFrom QV Require Import Model.C10_init.\n"
    try:
        vals = vlib.coq_eval_values("cases_C10i", hdr, exprs, chunk=400)
    except RuntimeError as e:
        ctx.violation("corr:C10:init-model-eval", "coqc", "init_coeff model evaluation failed",
                      {"log": str(e)}, found_input=False)
        return
    nbad = 0
    for c, g, v in zip(cases, got, vals):
        ctx.count_case(("init_coeff",) + c, nontrivial=True)
        ctx.cov["traces_validated_against_impl"] += 1
        nbad += 0 if g else 1
        if vlib.parse_coq_value(v) != g:
            ctx.violation("corr:explicit_rk._init_coeff", "accepts" if g else "rejects",
                          "_init_coeff %s a tableau with shapes (b,c,a0,a1,e,bi,interpolate)=%r "
                          "against the shape rule" % ("accepts" if g else "rejects", c),
                          {"kind": "init_coeff", "shapes": list(c)}, found_input=True)
    ctx.cov["input_distribution"]["init_coeff"] = {"cases": len(cases), "rejected": nbad}


# =====================================================================
#  K2: state packing
# =====================================================================
def run_packing_corr(ctx, rng, ncases):
    import qutip
    from qutip.core.superoperator import stack_columns, unstack_columns
    exprs, want = [], []
    shapes = {}
    for _ in range(ncases):
        n, m = rng.choice([1, 2, 3, 4]), rng.choice([1, 2, 3, 4])
        rows = [[rng.randint(-9, 9) for _ in range(m)] for _ in range(n)]
        dt = rng.choice(["dense", "csr", "dia"])
        X = qutip.Qobj(np.array(rows, dtype=complex).reshape(n, m)).to(dt).data
        st = stack_columns(X)
        got = [int(round(v.real)) for v in st.to_array().reshape(-1)]
        exprs.append("stack_rows %d%%nat %d%%nat %s" % (n, m, cmat(rows, vlib.cz)))
        want.append(("stack", (n, m, dt), rows, got, list(st.shape)))
        shapes["%dx%d" % (n, m)] = shapes.get("%dx%d" % (n, m), 0) + 1
        v = [rng.randint(-9, 9) for _ in range(n * n)]
        V = qutip.Qobj(np.array(v, dtype=complex).reshape(n * n, 1)).to(dt).data
        us = unstack_columns(V)
        gotm = [[int(round(x.real)) for x in r] for r in us.to_array()]
        exprs.append("unstack_list %d%%nat %s" % (n, vlib.clist(v, vlib.cz)))
        want.append(("unstack", (n, dt), v, gotm, list(us.shape)))
    try:
        vals = vlib.coq_eval_values("cases_C10p", HEADER, exprs, chunk=200)
    except RuntimeError as e:
        ctx.violation("corr:C10:packing-model-eval", "coqc", "packing model evaluation failed",
                      {"log": str(e)}, found_input=False)
        return
    for val, (kind, key, inp, got, shape) in zip(vals, want):
        model = vlib.parse_coq_value(val)
        model = [list(r) for r in model] if kind == "unstack" else list(model)
        ctx.count_case((kind, key, inp), nontrivial=len(inp) > 1)
        ctx.cov["traces_validated_against_impl"] += 1
        if model != got:
            ctx.violation("corr:superoperator.%s_columns" % kind, "index-map-differs",
                          "%s_columns does not place entry (i,j) at index j*n+i" % kind,
                          {"kind": "packing", "op": kind, "key": key, "input": inp,
                           "impl": got, "model": model}, found_input=True)
    ctx.cov["input_distribution"]["packing_shapes"] = shapes


def packing_roundtrip_oracle(ctx, rng, ncases):
    """Solver._restore_state(Solver._prepare_state(s)) == s (or ket2dm(s)) exactly,
    for every state form, with the dims and the normalisation decision of
    solver_base.py checked against the rule written out here."""
    import qutip
    from qutip.solver.sesolve import SESolver
    from qutip.solver.mesolve import MESolver
    dist = {}
    for _ in range(ncases):
        dims = rng.choice([[2], [3], [2, 2]])
        N = int(np.prod(dims))
        Hm = np.array([[rng.randint(-2, 2) for _ in range(N)] for _ in range(N)], dtype=complex)
        Hm = Hm + Hm.conj().T
        H = qutip.Qobj(Hm, dims=[dims, dims])
        solver_kind = rng.choice(["se", "me", "me_liouv"])
        norm_opt = rng.random() < 0.7
        if solver_kind == "se":
            S = SESolver(H, options={"normalize_output": norm_opt})
            forms = ["ket", "ket_unnorm", "oper", "oper_id"]
        else:
            c = qutip.Qobj(np.triu(np.ones((N, N)), 1), dims=[dims, dims])
            S = MESolver(H if solver_kind == "me" else qutip.liouvillian(H, [c]),
                         [c] if solver_kind == "me" else [],
                         options={"normalize_output": norm_opt})
            forms = ["ket", "ket_unnorm", "dm", "dm_unnorm", "operket", "super_id"]
        form = rng.choice(forms)
        dist[(solver_kind, form)] = dist.get((solver_kind, form), 0) + 1

        def iv(shape):
            return (np.array([rng.randint(-3, 3) for _ in range(int(np.prod(shape)))], dtype=float)
                    + 1j * np.array([rng.randint(-3, 3) for _ in range(int(np.prod(shape)))])).reshape(shape)
        if form == "ket":
            v = np.zeros((N, 1), dtype=complex)
            v[rng.randrange(N), 0] = rng.choice([1, -1, 1j])
            s = qutip.Qobj(v, dims=[dims, [1] * len(dims)])
        elif form == "ket_unnorm":
            s = qutip.Qobj(iv((N, 1)), dims=[dims, [1] * len(dims)])
        elif form == "oper":
            s = qutip.Qobj(iv((N, N)), dims=[dims, dims])
        elif form == "oper_id":
            s = qutip.qeye(dims)
        elif form == "dm":
            v = np.zeros((N, N), dtype=complex)
            k = rng.randrange(N)
            v[k, k] = 1
            s = qutip.Qobj(v, dims=[dims, dims])
        elif form == "dm_unnorm":
            a = iv((N, N))
            s = qutip.Qobj(a + a.conj().T, dims=[dims, dims])
        elif form == "operket":
            a = iv((N, N))
            s = qutip.operator_to_vector(qutip.Qobj(a + a.conj().T, dims=[dims, dims]))
        else:
            s = qutip.to_super(qutip.qeye(dims))
        s = s.to(rng.choice(["dense", "csr"]))
        key = (solver_kind, form, norm_opt)
        try:
            data = S._prepare_state(s)
            back = S._restore_state(data, copy=True)
        except Exception as e:          # noqa
            ctx.violation("oracle:Solver._prepare_state", [solver_kind, form, "raises"],
                          "state form %s rejected by %s: %s" % (form, solver_kind, e),
                          {"kind": "packing_roundtrip", "key": key})
            continue
        expect = qutip.ket2dm(s) if (solver_kind != "se" and form.startswith("ket")) else s
        stacked = solver_kind != "se" and form in ("ket", "ket_unnorm", "dm", "dm_unnorm")
        want_shape = (N * N, 1) if stacked else expect.shape
        # normalisation rule of _prepare_state, written independently
        # (unit norm / unit trace is decided from the data, independently of qutip)
        arr0 = s.full()
        if form in ("ket", "ket_unnorm"):
            n2 = float(np.sum(np.abs(arr0) ** 2))
            unit = abs((n2 if solver_kind != "se" else math.sqrt(n2)) - 1) <= 1e-12
        elif form in ("dm", "dm_unnorm"):
            unit = abs(np.trace(arr0) - 1) <= 1e-12
        elif form in ("oper", "oper_id") and solver_kind == "se":
            unit = False           # operators are never normalised by sesolve
        else:
            unit = False
        should_norm = norm_opt and unit and (stacked or expect.shape[1] == 1)
        problems = []
        if tuple(data.shape) != tuple(want_shape):
            problems.append("packed-shape")
        if back.dims != expect.dims:
            problems.append("dims")
        if back.shape != expect.shape or not np.array_equal(back.full(), expect.full()):
            # normalised output of an exactly normalised state is the same matrix
            problems.append("data")
        if S._normalize_output != should_norm:
            problems.append("normalize-decision")
        if not problems and S._normalize_output:
            # the normalisation itself: hand _restore_state twice the state
            # (plus, for a density matrix, a trace-free nilpotent part so that
            # trace and trace-norm differ); exact because the divisor is 2
            from qutip.core.superoperator import stack_columns as _stk
            ex = expect.full()
            pert = np.zeros_like(ex)
            if ex.shape[1] > 1:
                pert[0, ex.shape[0] - 1] = 3
            s2 = qutip.Qobj(2 * ex + pert, dims=expect.dims).to("dense")
            d2 = _stk(s2.data) if stacked else s2.data
            back2 = S._restore_state(d2, copy=True)
            if not np.array_equal(back2.full(), ex + pert / 2):
                problems.append("normalisation-value")
        ctx.count_case(("roundtrip",) + key, nontrivial=True)
        for p in problems:
            ctx.violation("oracle:Solver._prepare_state/_restore_state", [solver_kind, form, p],
                          "restore(prepare(state)) differs from the state in %s (solver %s, form %s)"
                          % (p, solver_kind, form),
                          {"kind": "packing_roundtrip", "key": key, "state": s.full().tolist(),
                           "dims": s.dims, "back": back.full().tolist(), "back_dims": back.dims})
    ctx.cov["input_distribution"]["roundtrip_forms"] = {"%s/%s" % k: v for k, v in dist.items()}


# =====================================================================
#  O: implementation-level oracle (exploration; tolerances)
# =====================================================================
SE_METHODS = ["adams", "bdf", "lsoda", "dop853", "vern7", "vern9", "diag", "krylov"]
ME_METHODS = ["adams", "bdf", "lsoda", "dop853", "vern7", "vern9", "diag"]
ATOL, RTOL = 1e-10, 1e-8
SAFETY = 2e3            # accepted global error = SAFETY * (ATOL + RTOL * |y|)


def _opts(method, extra=None):
    o = {"method": method, "normalize_output": False, "progress_bar": ""}
    if method in ("adams", "bdf", "lsoda", "dop853", "vern7", "vern9"):
        o.update(atol=ATOL, rtol=RTOL, nsteps=100000)
    if method == "krylov":
        o.update(atol=ATOL, krylov_dim=0)
    if extra:
        o.update(extra)
    return o


def gen_system(rng, N=None):
    N = N or rng.choice([2, 2, 3, 4])
    den = rng.choice([1, 2, 4])

    def z():
        return complex(rng.randint(-2, 2), rng.randint(-2, 2)) / den
    A = np.array([[z() for _ in range(N)] for _ in range(N)])
    H = (A + A.conj().T) / 2
    B = np.array([[z() for _ in range(N)] for _ in range(N)])
    H1 = (B + B.conj().T) / 2
    ncops = rng.choice([1, 1, 2])
    cops = [np.array([[z() if rng.random() < 0.5 else 0 for _ in range(N)] for _ in range(N)]) / 2
            for _ in range(ncops)]
    psi = np.array([z() for _ in range(N)])
    if np.linalg.norm(psi) == 0:
        psi[0] = 1
    psi = psi / np.linalg.norm(psi)
    T = rng.choice([1.0, 1.5, 2.0])
    npts = rng.choice([3, 4, 6])
    t0 = rng.choice([0.0, 0.0, 0.5])           # time lists need not start at 0
    pts = sorted(set([t0, t0 + T] + [round(rng.uniform(t0, t0 + T), 3) for _ in range(npts - 2)]))
    return {"N": N, "H": H, "H1": H1, "cops": cops, "psi": psi, "tlist": pts}


def sys_to_json(s):
    def c(a):
        return [[[float(v.real), float(v.imag)] for v in r] for r in np.atleast_2d(a)]
    return {"N": s["N"], "H": c(s["H"]), "H1": c(s["H1"]), "cops": [c(x) for x in s["cops"]],
            "psi": c(s["psi"]), "tlist": list(s["tlist"])}


def sys_from_json(d):
    def m(a):
        return np.array([[complex(v[0], v[1]) for v in r] for r in a])
    return {"N": d["N"], "H": m(d["H"]), "H1": m(d["H1"]), "cops": [m(x) for x in d["cops"]],
            "psi": m(d["psi"]).reshape(-1), "tlist": list(d["tlist"])}


def _tol(ref):
    return SAFETY * (ATOL + RTOL * max(1.0, np.linalg.norm(ref)))


def check_se_case(sysd, method, fmt, form):
    """returns list of (signature, what, detail-extras)"""
    import qutip
    import scipy.linalg as sl
    N = sysd["N"]
    H = qutip.Qobj(sysd["H"]).to(fmt)
    tl = sysd["tlist"]
    if form == "ket":
        s0 = qutip.Qobj(sysd["psi"].reshape(N, 1))
    else:
        s0 = qutip.qeye(N)
    s0 = s0.to("dense" if fmt == "dia" else fmt) if form == "ket" else s0.to(fmt)
    if method == "krylov" and form != "ket":
        return []
    e_op = qutip.Qobj(sysd["H1"])
    res = qutip.sesolve(H, s0, tl, e_ops=[e_op] if form == "ket" else None,
                        options=_opts(method, {"store_states": True}))
    bad = []
    for k, t in enumerate(tl):
        U = sl.expm(-1j * sysd["H"] * (t - tl[0]))
        ref = U @ s0.full()
        got = res.states[k].full()
        err = np.linalg.norm(got - ref)
        if not err <= _tol(ref):
            bad.append(("state-vs-expm", "sesolve state differs from expm(-iHt) state: err %.2e at t=%g"
                        % (err, t)))
            break
        if form == "ket":
            nrm = abs(np.linalg.norm(got) - 1)
            if not nrm <= _tol(ref):
                bad.append(("norm", "norm not preserved: %.2e" % nrm))
                break
            ex = (ref.conj().T @ sysd["H1"] @ ref)[0, 0]
            if not abs(res.expect[0][k] - ex) <= 4 * _tol(ref) * max(1, np.linalg.norm(sysd["H1"])):
                bad.append(("expect-vs-expm", "expectation value differs from exact"))
                break
        else:
            un = np.linalg.norm(got.conj().T @ got - np.eye(N))
            if not un <= 4 * _tol(ref):
                bad.append(("unitarity", "propagated operator not unitary: %.2e" % un))
                break
    return bad


def check_me_case(sysd, method, fmt, form, route):
    import qutip
    import scipy.linalg as sl
    N = sysd["N"]
    H = qutip.Qobj(sysd["H"]).to(fmt)
    cops = [qutip.Qobj(c).to(fmt) for c in sysd["cops"]]
    tl = sysd["tlist"]
    Hm = sysd["H"]
    I = np.eye(N)
    Lm = -1j * (np.kron(I, Hm) - np.kron(Hm.T, I))
    for c in sysd["cops"]:
        cd = c.conj().T @ c
        Lm = Lm + np.kron(c.conj(), c) - 0.5 * np.kron(I, cd) - 0.5 * np.kron(cd.T, I)
    psi = sysd["psi"].reshape(N, 1)
    rho0 = psi @ psi.conj().T
    if form == "ket":
        s0 = qutip.Qobj(psi)
    elif form == "dm":
        s0 = qutip.Qobj(rho0)
    elif form == "operket":
        s0 = qutip.operator_to_vector(qutip.Qobj(rho0))
    else:
        s0 = qutip.to_super(qutip.qeye(N))
    if route == "H+c_ops":
        args = (H, s0, tl, cops)
    else:
        args = (qutip.liouvillian(H, cops), s0, tl, [])
    e_op = qutip.Qobj(sysd["H1"])
    res = qutip.mesolve(args[0], args[1], args[2], c_ops=args[3],
                        e_ops=[e_op] if form in ("ket", "dm") else None,
                        options=_opts(method, {"store_states": True}))
    bad = []
    for k, t in enumerate(tl):
        P = sl.expm(Lm * (t - tl[0]))
        got = res.states[k].full()
        if form == "super":
            ref = P
            g = got
        else:
            ref = (P @ rho0.reshape(-1, 1, order="F"))
            g = got.reshape(-1, 1, order="F") if form != "operket" else got
        err = np.linalg.norm(g - ref)
        if not err <= _tol(ref):
            bad.append(("state-vs-expm", "mesolve state differs from expm(Lt) vec(rho0): err %.2e at t=%g"
                        % (err, t)))
            break
        if form in ("ket", "dm"):
            tr = abs(np.trace(got) - 1)
            hm = np.linalg.norm(got - got.conj().T)
            ev = np.linalg.eigvalsh((got + got.conj().T) / 2).min()
            if not tr <= _tol(ref):
                bad.append(("trace", "trace not preserved: %.2e" % tr))
                break
            if not hm <= _tol(ref):
                bad.append(("hermiticity", "state not Hermitian: %.2e" % hm))
                break
            if not ev >= -_tol(ref):
                bad.append(("positivity", "negative eigenvalue %.2e" % ev))
                break
            rr = ref.reshape(N, N, order="F")
            ex = np.trace(sysd["H1"] @ rr)
            if not abs(res.expect[0][k] - ex) <= 4 * _tol(ref) * max(1, np.linalg.norm(sysd["H1"])):
                bad.append(("expect-vs-expm", "expectation value differs from exact"))
                break
    return bad


COEFF_KINDS = ["function", "array", "string"]


def _coeff(kind, w, tl_max):
    import qutip
    if kind == "function":
        return qutip.coefficient(lambda t, w=w: np.cos(w * t))
    if kind == "string":
        return qutip.coefficient("cos(w*t)", args={"w": w})
    tt = np.linspace(0, tl_max, 401)
    return qutip.coefficient(np.cos(w * tt), tlist=tt, order=3)


def check_td_case(sysd, kind, method):
    """time-dependent H(t) = H + cos(w t) H1: routes must agree with a tight
    reference (dop853 with function coefficient computed directly with
    scipy.solve_ivp on the dense matrices)."""
    import qutip
    from scipy.integrate import solve_ivp
    N = sysd["N"]
    w = 1.5
    tl = sysd["tlist"]
    Hm, H1m = sysd["H"], sysd["H1"]
    psi = sysd["psi"].reshape(N, 1)

    def rhs(t, y):
        return (-1j * (Hm + np.cos(w * t) * H1m) @ y.reshape(N, 1)).reshape(-1)
    sol = solve_ivp(rhs, (tl[0], tl[-1]), psi.reshape(-1).astype(complex), method="DOP853",
                    t_eval=tl, rtol=1e-12, atol=1e-13)
    ref = [sol.y[:, k].reshape(N, 1) for k in range(len(tl))]
    tolr = max(_tol(psi), 2e-5 if kind == "array" else 0)     # spline interpolation error
    Ht = qutip.QobjEvo([qutip.Qobj(Hm), [qutip.Qobj(H1m), _coeff(kind, w, tl[-1])]])
    bad = []
    # route 1: sesolve ket
    r1 = qutip.sesolve(Ht, qutip.Qobj(psi), tl, options=_opts(method, {"store_states": True}))
    for k in range(len(tl)):
        err = np.linalg.norm(r1.states[k].full() - ref[k])
        if not err <= tolr:
            bad.append(("td-ket-vs-reference", "sesolve with %s coefficient differs from reference: %.2e"
                        % (kind, err)))
            break
    # route 2: mesolve on the density matrix, no c_ops (ket vs dm)
    r2 = qutip.mesolve(Ht, qutip.Qobj(psi @ psi.conj().T), tl, options=_opts(method, {"store_states": True}))
    for k in range(len(tl)):
        err = np.linalg.norm(r2.states[k].full() - ref[k] @ ref[k].conj().T)
        if not err <= 4 * tolr:
            bad.append(("td-dm-vs-ket", "mesolve(rho) differs from |psi><psi| of the reference: %.2e" % err))
            break
    # route 3: propagator applied to the initial state
    if method in ("adams", "vern7", "dop853"):
        if tl[0] == 0:
            U = qutip.propagator(Ht, tl[-1], options=_opts(method))
        else:
            U = qutip.Propagator(Ht, options=_opts(method))(tl[-1], tl[0])
        err = np.linalg.norm(U.full() @ psi - ref[-1])
        if not err <= 4 * tolr:
            bad.append(("td-propagator-vs-ket", "propagator(H,t) psi0 differs from the evolved ket: %.2e" % err))
    # route 4: pre-assembled Liouvillian with c_ops vs H + c_ops
    if method in ("adams", "vern9", "bdf"):
        cops = [qutip.Qobj(c) for c in sysd["cops"]]
        rho0 = qutip.Qobj(psi @ psi.conj().T)
        ra = qutip.mesolve(Ht, rho0, tl, c_ops=cops, options=_opts(method, {"store_states": True}))
        Lt = qutip.liouvillian(Ht, cops)
        rb = qutip.mesolve(Lt, rho0, tl, options=_opts("dop853", {"store_states": True}))
        for k in range(len(tl)):
            err = np.linalg.norm(ra.states[k].full() - rb.states[k].full())
            if not err <= 4 * tolr:
                bad.append(("td-liouvillian-vs-cops", "H+c_ops and pre-assembled Liouvillian differ: %.2e" % err))
                break
            g = ra.states[k].full()
            if not (abs(np.trace(g) - 1) <= 4 * tolr and np.linalg.norm(g - g.conj().T) <= 4 * tolr):
                bad.append(("td-trace-herm", "trace/Hermiticity lost on the time-dependent route"))
                break
    return bad


FSE_SITE = "floquet.fsesolve"
FSE_SIG = "psi0-taken-at-t=0-instead-of-tlist[0]"


def fsesolve_witness(ctx):
    """The witness that refuted the rule before a3f3594, kept as a regression
    case on the real implementation: a driven qubit, time list starting at
    0.5; the state at tlist[0] must be psi0 (C10_fsesolve_initial_state)."""
    import qutip
    w = 2.0
    T = 2 * np.pi / w
    H = qutip.QobjEvo([0.5 * qutip.sigmaz(), [0.25 * qutip.sigmax(), lambda t: np.cos(w * t)]])
    psi0 = qutip.basis(2, 0)
    tl = [0.5, 1.0]
    fb = qutip.FloquetBasis(H, T, options={"atol": ATOL, "rtol": RTOL})
    rf = qutip.fsesolve(fb, psi0, tl, options={"store_states": True, "normalize_output": False})
    err0 = float(np.linalg.norm(rf.states[0].full() - psi0.full()))
    ctx.count_case(("fsesolve-witness",), nontrivial=True)
    if err0 > 1e-6:
        ref0 = qutip.sesolve(H, psi0, [0.0] + tl, options=_opts("vern9", {"store_states": True})).states[1:]
        same = all(np.linalg.norm(a.full() - b.full()) <= 1e-5 for a, b in zip(rf.states, ref0))
        ctx.violation(FSE_SITE, FSE_SIG if same else "initial-state-not-returned",
                      "fsesolve(H, psi0, tlist=[0.5, 1.0]).states[0] differs from psi0 by %.3f: "
                      "psi0 is expanded in the Floquet basis at t=0, not at tlist[0]" % err0,
                      {"kind": "fsesolve_witness", "tlist": tl, "err_at_tlist0": err0,
                       "matches_psi0_at_time_zero": bool(same),
                       "snippet": "H=QobjEvo([.5*sigmaz(),[.25*sigmax(),lambda t: cos(2*t)]]); "
                                  "fsesolve(H, basis(2,0), [0.5,1.0], T=pi).states[0]"},
                      found_input=True)


def run_fsesolve_corr(ctx, rng, ncases):
    """Trace correspondence of fsesolve's time bookkeeping: a scripted
    FloquetBasis (one quasi-energy, phases written additively on 1x1 integer
    kets) is handed to the real fsesolve; the returned states are compared
    exactly with Model/C10_floquet.v."""
    import qutip
    from qutip.solver.floquet import FloquetBasis

    class Fake(FloquetBasis):
        def __init__(self):
            self.calls = []

        def to_floquet_basis(self, lab_basis, t=0):
            self.calls.append(("to", t))
            return qutip.Qobj([[lab_basis.full()[0, 0] - t]])

        def from_floquet_basis(self, floquet_basis, t=0):
            self.calls.append(("from", t))
            return qutip.Qobj([[floquet_basis.full()[0, 0] + t]])

    cases, got = [], []
    for _ in range(ncases):
        v = rng.randint(-9, 9)
        t0 = rng.choice([0, 0, 1, 3, -2])
        ts = [t0]
        for _ in range(rng.choice([0, 1, 2, 4])):
            ts.append(ts[-1] + rng.randint(1, 4))
        if rng.random() < 0.05:
            ts = []                                 # malformed: no tlist[0]
        fake = Fake()
        try:
            r = qutip.fsesolve(fake, qutip.Qobj([[complex(v)]]), [float(t) for t in ts],
                               options={"store_states": True, "normalize_output": False})
            got.append([int(round(x.full()[0, 0].real)) for x in r.states])
        except IndexError:
            got.append(None)
        except Exception as e:          # noqa
            got.append("raise %s" % e)
        cases.append((v, ts))
    hdr = ("From Coq Require Import List ZArith.\nImport ListNotations.\n"
           "From QV Require Import Model.C10_floquet.\n")
    try:
        vals = vlib.coq_eval_values(
            "cases_C10f", hdr,
            ["toy_fsesolve %s %s" % (vlib.cz(v), vlib.clist(ts, vlib.cz)) for v, ts in cases],
            chunk=400)
    except RuntimeError as e:
        ctx.violation("corr:C10:fsesolve-model-eval", "coqc", "fsesolve model evaluation failed",
                      {"log": str(e)}, found_input=False)
        return
    nonzero_start = 0
    for (v, ts), g, val in zip(cases, got, vals):
        m = vlib.parse_coq_value(val)
        model = None if m is None else list(m[1])
        ctx.count_case(("fsesolve", v, tuple(ts)), nontrivial=len(ts) > 1)
        ctx.cov["traces_validated_against_impl"] += 1
        nonzero_start += 1 if (ts and ts[0] != 0) else 0
        if model != g:
            first = (isinstance(g, list) and ts and g and g[0] != v)
            ctx.violation("corr:floquet.fsesolve",
                          "initial-state-not-returned" if first else "time-bookkeeping-differs",
                          "fsesolve does not return the states from_floquet_basis("
                          "to_floquet_basis(psi0, tlist[0]), t) for t in tlist"
                          + (": the state at tlist[0] is not psi0" if first else ""),
                          {"kind": "fsesolve_corr", "psi0": v, "tlist": ts, "impl": g, "model": model},
                          found_input=True)
    ctx.cov["input_distribution"]["fsesolve_trace"] = {
        "cases": len(cases), "time_list_not_starting_at_0": nonzero_start,
        "empty_time_list": sum(1 for _, ts in cases if not ts)}


def check_floquet_br_case(sysd):
    """periodic H(t) = H + cos(w t) H1: the Floquet-basis solution (fsesolve,
    FloquetBasis.state / to_/from_floquet_basis built from the one-period
    propagator) against sesolve; brmesolve without a_ops against mesolve."""
    import qutip
    N = sysd["N"]
    w = 2.0
    T = 2 * np.pi / w
    tl = sorted(set(list(sysd["tlist"]) + [T, T + 0.37]))
    Ht = qutip.QobjEvo([qutip.Qobj(sysd["H"]), [qutip.Qobj(sysd["H1"]), lambda t: np.cos(w * t)]])
    psi = qutip.Qobj(sysd["psi"].reshape(N, 1))
    tight = {"atol": ATOL, "rtol": RTOL, "nsteps": 100000}
    bad = []
    ref = qutip.sesolve(Ht, psi, tl, options=_opts("vern9", {"store_states": True}))
    fb = qutip.FloquetBasis(Ht, T, options=dict(tight))
    rf = qutip.fsesolve(fb, psi, tl, options={"store_states": True, "normalize_output": False})
    tol = 4 * _tol(psi.full())
    for k in range(len(tl)):
        err = np.linalg.norm(rf.states[k].full() - ref.states[k].full())
        if not err <= tol:
            sig = "floquet-vs-sesolve"
            if tl[0] != 0:
                # is it exactly the known defect (psi0 used as the state at t = 0)?
                ref0 = qutip.sesolve(Ht, psi, [0.0] + list(tl),
                                     options=_opts("vern9", {"store_states": True})).states[1:]
                if all(np.linalg.norm(rf.states[j].full() - ref0[j].full()) <= tol
                       for j in range(len(tl))):
                    sig = FSE_SIG
            bad.append((sig, "fsesolve differs from sesolve at t=%g: %.2e (time list starts at %g)"
                        % (tl[k], err, tl[0])))
            break
    t1 = tl[1]
    fk = fb.to_floquet_basis(psi, t1)
    back = fb.from_floquet_basis(fk, t1)
    err = np.linalg.norm(back.full() - psi.full())
    if not err <= tol:
        bad.append(("floquet-basis-roundtrip", "from_floquet_basis(to_floquet_basis(psi)) differs: %.2e" % err))
    # Floquet state k at time t = mode(t) exp(-i e_k t); evolving state(0) gives state(t)
    st0 = fb.state(0.0, data=False)
    stt = fb.state(t1, data=False)
    st0 = st0 if isinstance(st0, list) else [st0]
    stt = stt if isinstance(stt, list) else [stt]
    ev = qutip.sesolve(Ht, st0[0], [0, t1], options=_opts("vern9", {"store_states": True})).states[-1]
    err = np.linalg.norm(ev.full() - stt[0].full())
    if not err <= tol:
        bad.append(("floquet-state-vs-sesolve", "FloquetBasis.state(t) is not the evolved state(0): %.2e" % err))
    cops = [qutip.Qobj(c) for c in sysd["cops"]]
    rho0 = qutip.ket2dm(psi)
    ra = qutip.mesolve(qutip.Qobj(sysd["H"]), rho0, sysd["tlist"], c_ops=cops,
                       options=_opts("vern9", {"store_states": True}))
    rb = qutip.brmesolve(qutip.Qobj(sysd["H"]), rho0, sysd["tlist"], a_ops=[], c_ops=cops,
                         options={"atol": ATOL, "rtol": RTOL, "nsteps": 100000, "store_states": True,
                                  "normalize_output": False})
    for k in range(len(sysd["tlist"])):
        err = np.linalg.norm(ra.states[k].full() - rb.states[k].full())
        if not err <= tol:
            bad.append(("brmesolve-vs-mesolve", "brmesolve without a_ops differs from mesolve: %.2e" % err))
            break
    return bad


# ---- K3: IntegratorDiag and IntegratorKrylov bookkeeping (scripted kernels) ----
class _NpExp2:
    """stands for the module-level `np` of qutip_integrator: exp(x) := 2**x
    (exact for the integer arguments used), every call is recorded"""
    def __init__(self):
        self.calls = []

    def __getattr__(self, name):
        return getattr(np, name)

    def exp(self, x):
        x = np.asarray(x)
        self.calls.append(x.copy())
        return (2.0 ** x.real).astype(complex)


def run_diag_corr(ctx, rng, ncases):
    """The real IntegratorDiag.set_state / integrate / get_state driven through
    random histories with a scripted eigen-decomposition (integer U, Uinv,
    integer exponents) and a scripted exponential; outputs AND the sequence of
    step lengths for which the exponential was recomputed are compared exactly
    with Model/C10_diag.v."""
    import qutip
    import qutip.solver.integrator.qutip_integrator as qi
    from qutip.solver.integrator.qutip_integrator import IntegratorDiag
    unimod = [([[1, 1], [0, 1]], [[1, -1], [0, 1]]),
              ([[1, 0], [2, 1]], [[1, 0], [-2, 1]]),
              ([[0, 1], [1, 0]], [[0, 1], [1, 0]]),
              ([[1, 1, 0], [0, 1, 0], [0, 0, 1]], [[1, -1, 0], [0, 1, 0], [0, 0, 1]]),
              ([[1, 0, 0], [0, 1, 2], [0, 0, 1]], [[1, 0, 0], [0, 1, -2], [0, 0, 1]])]
    cases, got = [], []
    real_np = qi.np
    try:
        for _ in range(ncases):
            U, Ui = rng.choice(unimod)
            n = len(U)
            diag = [rng.randint(-2, 2) for _ in range(n)]
            ops = []
            t = rng.randint(-3, 3)
            ops.append(("set", t, [rng.randint(-4, 4) for _ in range(n)]))
            for _ in range(rng.choice([2, 4, 6, 9])):
                r = rng.random()
                if r < 0.12:
                    t = rng.randint(-3, 6)
                    ops.append(("set", t, [rng.randint(-4, 4) for _ in range(n)]))
                elif r < 0.2:
                    ops.append(("int", t))                       # dt == 0
                else:
                    t = t + rng.choice([1, 1, 1, 2, 2, 3, -1, -2, 4])
                    ops.append(("int", t))
            if rng.random() < 0.05:
                ops = [op for op in ops if op[0] != "set"] or [("int", 1)]   # malformed: never set
            # the time unit: the same history in units of 1, 2^-40 (steps of the
            # order 1e-12) and 2^20; exponents scaled inversely, all exact
            tau = rng.choice([1.0, 2.0 ** -40, 2.0 ** 20])
            proxy = _NpExp2()
            qi.np = proxy
            integ = IntegratorDiag(qutip.QobjEvo(qutip.Qobj(np.diag([1.0 * k for k in range(n)]))), {})
            integ.diag = (np.array(diag, dtype=complex) / tau).reshape(-1, 1)
            integ.U = qutip.data.Dense(np.array(U, dtype=complex))
            integ.Uinv = qutip.data.Dense(np.array(Ui, dtype=complex))
            proxy.calls = []
            outs = []
            for op in ops:
                try:
                    if op[0] == "set":
                        integ.set_state(float(op[1]) * tau, qutip.data.Dense(
                            np.array(op[2], dtype=complex).reshape(-1, 1)))
                    else:
                        tt, st = integ.integrate(float(op[1]) * tau)
                        outs.append((Fr(float(tt)) / Fr(tau),
                                     [Fr(float(v.real)) for v in st.to_array().reshape(-1)]))
                except Exception:              # noqa
                    outs.append(None)
                    break
            log = []
            for c in proxy.calls:       # recover dt from diag*dt where possible
                nz = [j for j in range(n) if diag[j] != 0]
                log.append(int(round(float(c.reshape(-1)[nz[0]].real) / diag[nz[0]])) if nz else None)
            cases.append((diag, U, Ui, ops, tau))
            got.append((outs, log))
    finally:
        qi.np = real_np

    def cop(op):
        if op[0] == "set":
            return "DSet Z qv %s %s" % (vlib.cz(op[1]), vlib.clist(op[2], lambda v: "(inject_Z %s)" % vlib.cz(v)))
        return "DInt Z qv %s" % vlib.cz(op[1])
    hdr = ("From Coq Require Import List ZArith QArith.\nImport ListNotations.\n"
           "From QV Require Import Model.C10_diag.\nLocal Open Scope Z_scope.\n")
    try:
        vals = vlib.coq_eval_values(
            "cases_C10d", hdr,
            ["toy_d_run %s %s %s %s" % (vlib.clist(d, vlib.cz), cmat(U, vlib.cz), cmat(Ui, vlib.cz),
                                        vlib.clist(ops, cop)) for d, U, Ui, ops, _tau in cases], chunk=100)
    except RuntimeError as e:
        ctx.violation("corr:C10:diag-model-eval", "coqc", "diag model evaluation failed",
                      {"log": str(e)}, found_input=False)
        return
    skipped = 0
    for (d, U, Ui, ops, tau), (outs, log), val in zip(cases, got, vals):
        mo, mlog = vlib.parse_coq_value(val)
        model = []
        for o in mo:
            if o is None:
                model.append(None)
            else:
                t, vec = o[1]
                model.append((Fr(t), [Fr(a, b) for a, b in vec]))
        # exactness budget: every model value must fit a double with room to
        # spare (the intermediate products of the implementation then do too)
        if any(o is not None and any(x.numerator.bit_length() > 46 for x in o[1]) for o in model):
            skipped += 1
            continue
        ctx.count_case(("diag", tuple(d), str(U), str(ops)), nontrivial=len(ops) > 2)
        ctx.cov["traces_validated_against_impl"] += 1
        zero_diag = all(k == 0 for k in d)
        if model != outs or (not zero_diag and list(mlog) != log):
            sig = "outputs-differ" if model != outs else "exp-cache-refresh-differs"
            ctx.violation("corr:qutip_integrator.IntegratorDiag", sig,
                          "IntegratorDiag history: %s from the model of set_state/integrate "
                          "(cached exp(diag*dt) keyed by dt)" % sig,
                          {"kind": "diag_corr", "diag": d, "U": U, "Uinv": Ui, "ops": ops,
                           "time_unit": tau,
                           "impl": [None if o is None else [str(o[0]), [str(x) for x in o[1]]] for o in outs],
                           "impl_exp_steps": log,
                           "model": [None if o is None else [str(o[0]), [str(x) for x in o[1]]] for o in model],
                           "model_exp_steps": list(mlog)}, found_input=True)
    ctx.cov["input_distribution"]["diag_trace"] = {"cases": len(cases) - skipped,
                                                   "skipped_for_exactness": skipped}


def run_krylov_corr(ctx, rng, ncases):
    """The real IntegratorKrylov.set_state / integrate (the re-basing loop, _t_0,
    _max_step) with scripted Lanczos / eigen-set / psi / step-length kernels on
    states m*i^k; outputs, the times at which the basis was rebuilt and the
    final _max_step are compared exactly with Model/C10_krylov.v."""
    import qutip
    from qutip.solver.integrator.krylov import IntegratorKrylov
    from qutip.solver.integrator import IntegratorException

    class Tri:
        def __init__(self, n):
            self.shape = (n, n)

    def phase_k(z):
        for k, u in enumerate((1, 1j, -1, -1j)):
            if abs(z - u) < 1e-12:
                return k
        return 1        # the random trial vector of _prepare

    class Scripted(IntegratorKrylov):
        tbl = [1, 1, 1, 1]

        def _lanczos_algorithm(self, psi):
            k = phase_k(complex(psi.to_array()[0, 0]))
            self.rebuilt.append(getattr(self, "_t_0", None))
            return Tri(1 if k % 2 == 0 else 2), psi

        def _compute_krylov_set(self, tri, basis):
            return "eigs", basis, qutip.data.Dense(np.array([[1.0 + 0j]]))

        def _compute_psi(self, dt, eigenvalues, U, e0):
            z = complex(U.to_array()[0, 0]) * complex(e0.to_array()[0, 0]) * (1j ** int(round(dt)))
            return qutip.data.Dense(np.array([[z]]))

        def _compute_max_step(self, tri, basis, krylov_state=None):
            k = phase_k(complex(basis.to_array()[0, 0]))
            return float(self.tbl[k])
    Scripted.rebuilt = []
    cases, got = [], []
    for _ in range(ncases):
        tbl = [rng.randint(1, 4) for _ in range(4)]
        always = rng.random() < 0.4
        nsteps = rng.choice([2, 3, 5, 50])
        ms0 = rng.choice(["neg", "pos", 1, 2, 3]) if not always else rng.choice(["neg", "neg", "pos", 2])
        ops = []
        t = rng.randint(-2, 2)
        ops.append(("set", t, (rng.randint(1, 5), rng.randint(0, 3))))
        for _ in range(rng.choice([2, 3, 5, 7])):
            r = rng.random()
            if r < 0.15:
                t = rng.randint(-2, 6)
                ops.append(("set", t, (rng.randint(1, 5), rng.randint(0, 3))))
            elif r < 0.22:
                ops.append(("int", t - rng.randint(1, 3)))      # a query behind the last one
            else:
                t = t + rng.choice([0, 1, 1, 2, 3, 5, 9])
                ops.append(("int", t))
        Scripted.tbl = tbl
        Scripted.rebuilt = []
        integ = Scripted(qutip.QobjEvo(qutip.Qobj(np.array([[1.0]]))),
                         {"krylov_dim": 1, "always_compute_step": always, "nsteps": nsteps})
        integ._max_step = {"neg": -np.inf, "pos": np.inf}.get(ms0, float(ms0) if not isinstance(ms0, str) else 0)
        Scripted.rebuilt = []
        outs = []
        for op in ops:
            try:
                if op[0] == "set":
                    m, k = op[2]
                    integ.set_state(float(op[1]), qutip.data.Dense(np.array([[m * (1j ** k)]])))
                else:
                    tt, st = integ.integrate(float(op[1]))
                    z = complex(st.to_array()[0, 0])
                    m = int(round(abs(z)))
                    outs.append((int(round(tt)), m, phase_k(z / m) if m else 0))
            except IntegratorException:
                outs.append(None)
                break
        ms = integ._max_step
        cases.append((tbl, always, nsteps, ms0, ops))
        got.append((outs, [int(round(x)) for x in Scripted.rebuilt],
                    "PosInf" if ms == np.inf else ("NegInf" if ms == -np.inf else int(round(ms)))))
    hdr = ("From Coq Require Import List ZArith Bool.\nImport ListNotations.\n"
           "From QV Require Import Model.C10_krylov.\nLocal Open Scope Z_scope.\n")

    def cop(op):
        if op[0] == "set":
            return "KSet tstate %s (%s, %s)" % (vlib.cz(op[1]), vlib.cz(op[2][0]), vlib.cz(op[2][1]))
        return "KInt tstate %s" % vlib.cz(op[1])

    def cms0(x):
        return {"neg": "NegInf", "pos": "PosInf"}.get(x, "(Fin %s)" % x)
    try:
        vals = vlib.coq_eval_values(
            "cases_C10y", hdr,
            ["toy_k_run %s %s %d%%nat %s %s" % (vlib.clist(tbl, vlib.cz), vlib.cbool(al), ns, cms0(m0),
                                              vlib.clist(ops, cop)) for tbl, al, ns, m0, ops in cases],
            chunk=100)
    except RuntimeError as e:
        ctx.violation("corr:C10:krylov-model-eval", "coqc", "krylov model evaluation failed",
                      {"log": str(e)}, found_input=False)
        return
    nraise = 0
    for case, (outs, rebuilt, ms), val in zip(cases, got, vals):
        mo, mlog, mms = vlib.parse_coq_value(val)
        model = [None if o is None else (o[1][0], o[1][1][0], o[1][1][1] % 4) for o in mo]
        mms = mms if isinstance(mms, str) else mms[1]
        nraise += 1 if None in outs else 0
        ctx.count_case(("krylov", str(case)), nontrivial=len(case[4]) > 2)
        ctx.cov["traces_validated_against_impl"] += 1
        raised = None in outs
        # after an exception the model keeps the object as it was before the
        # failing call (the history ends there): the real object has done some
        # of the re-bases, so only a prefix of its rebuild times is comparable
        log_ok = (rebuilt[:len(mlog)] == list(mlog)) if raised else (list(mlog) == rebuilt)
        ms_ok = True if raised else (mms == ms)
        if model != outs or not log_ok or not ms_ok:
            sig = ("outputs-differ" if model != outs else
                   "rebuild-times-differ" if not log_ok else "max-step-differs")
            ctx.violation("corr:krylov.IntegratorKrylov", sig,
                          "IntegratorKrylov history: %s from the model of set_state/integrate "
                          "(_t_0, _max_step, re-basing loop)" % sig,
                          {"kind": "krylov_corr", "tbl": case[0], "always_compute_step": case[1],
                           "nsteps": case[2], "max_step_after_prepare": case[3], "ops": case[4],
                           "impl": [outs, rebuilt, ms], "model": [model, list(mlog), mms]},
                          found_input=True)
    ctx.cov["input_distribution"]["krylov_trace"] = {"cases": len(cases), "ended_in_exception": nraise}


# ---- histories on ONE solver object -------------------------------------
def _herm(rng, N, den, sparse=False):
    A = np.zeros((N, N), dtype=complex)
    for i in range(N):
        for j in range(i, N):
            if sparse and j > i and rng.random() < 0.55:
                continue
            A[i, j] = complex(rng.randint(-2, 2), rng.randint(-2, 2) if j > i else 0) / den
            A[j, i] = np.conj(A[i, j])
    return A


def gen_history(rng, kind, N):
    """One system and a list of runs for ONE solver object.  Runs alternate
    'special' initial states (eigenstates / stationary states / states in a
    small invariant subspace / basis states) with generic ones, use different
    start times, tiny and non-unit norms, the start/step interface, and
    option changes between runs."""
    H = _herm(rng, N, 4 if N > 6 else 2, sparse=N > 6)
    if kind == "se":
        ev, V = np.linalg.eigh(H)
        L = None
        dim = N

        def generic():
            v = np.array([complex(rng.gauss(0, 1), rng.gauss(0, 1)) for _ in range(N)])
            return v / np.linalg.norm(v)
        a, b = rng.sample(range(N), 2)
        special = [("eigenstate", V[:, a].copy()),
                   ("two-eigenstates", (V[:, a] + 1j * V[:, b]) / np.sqrt(2)),
                   ("basis", np.eye(N, dtype=complex)[:, rng.randrange(N)])]
        generic_s = [("generic", generic()), ("tiny", 1e-6 * generic()),
                     ("norm-2", 2 * generic()), ("generic", generic())]
        cops = []
    else:
        cops = [np.triu(_herm(rng, N, 4), 1) + np.diag([rng.randint(0, 2) / 4 for _ in range(N)])
                for _ in range(rng.choice([1, 2]))]
        I = np.eye(N)
        L = -1j * (np.kron(I, H) - np.kron(H.T, I))
        for c in cops:
            cd = c.conj().T @ c
            L = L + np.kron(c.conj(), c) - 0.5 * np.kron(I, cd) - 0.5 * np.kron(cd.T, I)
        dim = N * N
        w, vecs = np.linalg.eig(L)
        ss = vecs[:, np.argmin(abs(w))].reshape(N, N, order="F")
        ss = ss / np.trace(ss)
        ss = (ss + ss.conj().T) / 2

        def generic():
            v = np.array([[complex(rng.gauss(0, 1), rng.gauss(0, 1)) for _ in range(N)]
                          for _ in range(N)])
            r = v @ v.conj().T
            return r / np.trace(r)
        e0 = np.zeros((N, N), dtype=complex)
        k = rng.randrange(N)
        e0[k, k] = 1
        special = [("stationary", ss), ("basis-projector", e0), ("maximally-mixed", np.eye(N) / N)]
        generic_s = [("generic", generic()), ("tiny", 1e-6 * generic()),
                     ("trace-2", 2 * generic()), ("generic", generic())]
    rng.shuffle(special)
    rng.shuffle(generic_s)
    T = 6.0 if N > 6 else 2.0
    starts = [0.0, 0.7, -1.0, 0.0, 2.5, 0.0]
    runs = []
    for k in range(6):
        nm, st = (special[(k // 2) % len(special)] if k % 2 == 0 else generic_s[(k // 2) % len(generic_s)])
        t0 = starts[k] if k > 0 else 0.0
        runs.append({"state_name": nm, "state": st, "t0": t0,
                     "tlist": [t0, t0 + T / 3, t0 + T],
                     "api": "start/step" if k == 3 else "run",
                     "loose": k == 2,          # tolerances loosened for this run, tightened after
                     "form": rng.choice(["dm", "operket"]) if kind == "me" and k == 5 else
                             ("ket" if kind == "se" else "dm")})
    return {"kind": kind, "N": N, "H": H, "cops": cops, "L": L, "dim": dim, "runs": runs}


def hist_to_json(h):
    def c(a):
        return [[[float(v.real), float(v.imag)] for v in r] for r in np.atleast_2d(a)]
    return {"kind": h["kind"], "N": h["N"], "H": c(h["H"]), "cops": [c(x) for x in h["cops"]],
            "runs": [{**{k: v for k, v in r.items() if k != "state"}, "state": c(r["state"])}
                     for r in h["runs"]]}


def hist_from_json(d):
    def m(a):
        return np.array([[complex(v[0], v[1]) for v in r] for r in a])
    N = d["N"]
    h = {"kind": d["kind"], "N": N, "H": m(d["H"]), "cops": [m(x) for x in d["cops"]], "L": None,
         "dim": N if d["kind"] == "se" else N * N, "runs": []}
    for r in d["runs"]:
        st = m(r["state"])
        st = st.reshape(-1) if d["kind"] == "se" else st.reshape(N, N)
        h["runs"].append({**r, "state": st})
    if d["kind"] == "me":
        I = np.eye(N)
        L = -1j * (np.kron(I, h["H"]) - np.kron(h["H"].T, I))
        for c in h["cops"]:
            cd = c.conj().T @ c
            L = L + np.kron(c.conj(), c) - 0.5 * np.kron(I, cd) - 0.5 * np.kron(cd.T, I)
        h["L"] = L
    return h


LOOSE = {"atol": 1e-6, "rtol": 1e-4}
KRY_SITE = "krylov.set_state"
KRY_SIG = "initial-state-of-norm-not-1"


_KRY = {}


def _krylov_norm_defect():
    """relative error of sesolve(krylov) on c*|0>, c in (2, 0.5) (cached)"""
    if "v" not in _KRY:
        import qutip
        import scipy.linalg as sl
        Hm = np.array([[1, 0.5], [0.5, -1]], dtype=complex)
        worst = 0.0
        for c in (2.0, 0.5):
            psi = c * qutip.basis(2, 0)
            r = qutip.sesolve(qutip.Qobj(Hm), psi, [0, 1.0],
                              options={"method": "krylov", "normalize_output": False,
                                       "store_states": True, "progress_bar": ""})
            worst = max(worst, float(np.linalg.norm(r.states[-1].full()
                                                    - sl.expm(-1j * Hm) @ psi.full())) / c)
        _KRY["v"] = worst
    return _KRY["v"]


KRYP_SITE = "krylov._prepare"
KRYP_SIG = "2-level-identity-raises"


def krylov_identity_witness(ctx):
    """sesolve(krylov) on a 2-level Hamiltonian proportional to the identity
    must return exp(-i c t)|psi0> like every other method."""
    import qutip
    ctx.count_case(("krylov-identity-witness",), nontrivial=True)
    try:
        r = qutip.sesolve(3 * qutip.qeye(2), qutip.basis(2, 0), [0, 1.0],
                          options={"method": "krylov", "store_states": True, "progress_bar": ""})
        err = abs(r.states[-1].full()[0, 0] - np.exp(-3j))
        if err > 1e-8:
            ctx.violation(KRYP_SITE, "2-level-identity-wrong", "krylov on 3*qeye(2): error %.2e" % err,
                          {"kind": "krylov_identity_witness"}, found_input=True)
    except ValueError as e:
        ctx.violation(KRYP_SITE, KRYP_SIG,
                      "sesolve(3*qeye(2), basis(2,0), [0,1], method='krylov') raises %s" % str(e)[:120],
                      {"kind": "krylov_identity_witness",
                       "snippet": "sesolve(3*qeye(2), basis(2,0), [0,1], options={'method':'krylov'})"},
                      found_input=True)


def krylov_norm_witness(ctx):
    """sesolve(method='krylov') is linear in the initial ket: the witness that
    a ket of norm 2 is evolved wrongly by a fresh solver (2-level system)."""
    worst = _krylov_norm_defect()
    ctx.count_case(("krylov-norm-witness",), nontrivial=True)
    if worst > 1e-6:
        ctx.violation(KRY_SITE, KRY_SIG,
                      "sesolve(H, c*|0>, [0,1], method='krylov') is not c times the evolution of |0>: "
                      "relative error %.2f for H=[[1,.5],[.5,-1]], c in (2, 0.5)" % worst,
                      {"kind": "krylov_norm_witness", "relative_error": worst,
                       "snippet": "sesolve(Qobj([[1,.5],[.5,-1]]), 2*basis(2,0), [0,1], options="
                                  "{'method':'krylov','normalize_output':False}).states[-1]"},
                      found_input=True)


def _set_tol(solver, method, loose):
    """option change on a live solver object"""
    if method in ("adams", "bdf", "lsoda", "dop853", "vern7", "vern9"):
        solver.options["atol"] = LOOSE["atol"] if loose else ATOL
        solver.options["rtol"] = LOOSE["rtol"] if loose else RTOL
    elif method == "krylov":
        solver.options["atol"] = LOOSE["atol"] if loose else ATOL


def _htol(method, loose, ref):
    if method in ("diag",):
        return SAFETY * ATOL * max(1.0, np.linalg.norm(ref))
    at, rt = (LOOSE["atol"], LOOSE["rtol"]) if loose else (ATOL, RTOL)
    if method == "krylov":
        rt = 0.0
        at = at * 50          # krylov's atol bounds one subspace, errors add up over steps
    return SAFETY * (at + rt * np.linalg.norm(ref))


def check_history(h, method, fresh_too=True):
    """Run the whole history on ONE solver object; every stored state must be
    the exact evolution of that run's initial state from that run's start
    time, and (time permitting) equal to what a fresh object returns."""
    import qutip
    import scipy.linalg as sl
    N, kind = h["N"], h["kind"]

    def mk():
        if kind == "se":
            return qutip.SESolver(qutip.Qobj(h["H"]), options=_opts(method, {"store_states": True}))
        return qutip.MESolver(qutip.Qobj(h["H"]), [qutip.Qobj(c) for c in h["cops"]],
                              options=_opts(method, {"store_states": True}))

    def qstate(r):
        if kind == "se":
            return qutip.Qobj(r["state"].reshape(N, 1))
        q = qutip.Qobj(r["state"].reshape(N, N))
        return qutip.operator_to_vector(q) if r["form"] == "operket" else q

    def exact(r, t):
        if kind == "se":
            return sl.expm(-1j * h["H"] * (t - r["t0"])) @ r["state"].reshape(N, 1)
        v = sl.expm(h["L"] * (t - r["t0"])) @ r["state"].reshape(N, N).reshape(-1, 1, order="F")
        return v if r["form"] == "operket" else v.reshape(N, N, order="F")

    def evolve(solver, r):
        if r["api"] == "run":
            return [x.full() for x in solver.run(qstate(r), r["tlist"]).states]
        solver.start(qstate(r), r["tlist"][0])
        out = [qstate(r).full()]
        for t in r["tlist"][1:]:
            out.append(solver.step(t).full())
        return out

    bad = []
    if method == "krylov" and _krylov_norm_defect() > 1e-6:
        # While the krylov integrator mishandles kets of norm != 1 (own
        # site/signature, reported by krylov_norm_witness on a fresh solver;
        # the step length estimated from such a state is also kept inside the
        # object), those states are normalised in krylov histories, so that
        # every OTHER state carried across set_state stays visible and is not
        # attributed to that defect.  Once it is repaired the histories run as
        # generated.
        h = dict(h, runs=[dict(r, state=r["state"] / np.linalg.norm(r["state"]),
                               state_name=r["state_name"] + "(normalised)")
                          if abs(np.linalg.norm(r["state"]) - 1) > 1e-9 else r
                          for r in h["runs"]])
    solver = mk()
    for k, r in enumerate(h["runs"]):
        _set_tol(solver, method, r["loose"])
        got = evolve(solver, r)
        prev = h["runs"][k - 1]["state_name"] if k else "-"
        for j, t in enumerate(r["tlist"]):
            ref = exact(r, t)
            err = np.linalg.norm(got[j] - ref)
            if not err <= _htol(method, r["loose"], ref):
                bad.append(("history-vs-exact",
                            "run %d of a history on one %s object (%s, %s state after a %s state, "
                            "t0=%g, %s): state at t=%g differs from the exact evolution by %.2e"
                            % (k, "SESolver" if kind == "se" else "MESolver", method,
                               r["state_name"], prev, r["t0"], r["api"], t, err)))
                break
        if [b for b in bad if b[0] != KRY_SIG]:
            break
        if fresh_too:
            f = mk()
            _set_tol(f, method, r["loose"])
            fg = evolve(f, r)
            for j, t in enumerate(r["tlist"]):
                ref = exact(r, t)
                err = np.linalg.norm(got[j] - fg[j])
                if not err <= 2 * _htol(method, r["loose"], ref):
                    bad.append(("history-vs-fresh",
                                "run %d (%s, %s after %s): reused object and fresh object differ "
                                "by %.2e at t=%g" % (k, method, r["state_name"], prev, err, t)))
                    break
            if [b for b in bad if b[0] != KRY_SIG]:
                break
    return bad


def check_history_td(sysd, method):
    """time-dependent generator: several runs on one SESolver with different
    states and start times against scipy DOP853 started at each run's t0"""
    import qutip
    from scipy.integrate import solve_ivp
    N = sysd["N"]
    w = 1.5
    Hm, H1m = sysd["H"], sysd["H1"]
    Ht = qutip.QobjEvo([qutip.Qobj(Hm), [qutip.Qobj(H1m), lambda t: np.cos(w * t)]])
    solver = qutip.SESolver(Ht, options=_opts(method, {"store_states": True}))
    psi = sysd["psi"].reshape(N, 1)
    e0 = np.zeros((N, 1), dtype=complex)
    e0[0, 0] = 1
    bad = []
    for k, (st, t0) in enumerate([(e0, 0.0), (psi, 0.9), (1e-6 * psi, -0.5), (psi, 0.0)]):
        tl = [t0, t0 + 0.6, t0 + 1.7]

        def rhs(t, y):
            return (-1j * (Hm + np.cos(w * t) * H1m) @ y.reshape(N, 1)).reshape(-1)
        sol = solve_ivp(rhs, (tl[0], tl[-1]), st.reshape(-1).astype(complex), method="DOP853",
                        t_eval=tl, rtol=1e-12, atol=1e-15)
        res = solver.run(qutip.Qobj(st), tl)
        for j in range(len(tl)):
            err = np.linalg.norm(res.states[j].full().reshape(-1) - sol.y[:, j])
            if not err <= _tol(st):
                bad.append(("history-td-vs-reference",
                            "run %d of a history on one SESolver (%s, H(t), t0=%g): differs from "
                            "the reference by %.2e at t=%g" % (k, method, t0, err, tl[j])))
                return bad
    return bad


def run_history_oracle(ctx, rng, nsys):
    dist = {"se_histories": 0, "me_histories": 0, "td_histories": 0, "runs_per_history": 6}
    for k in range(nsys):
        hs = [gen_history(rng, "se", rng.choice([12, 13, 14])),
              gen_history(rng, "se", rng.choice([2, 3, 4]))]
        for h in hs:
            for method in SE_METHODS:
                _guard_h(ctx, "history:sesolve", [method, "N>=12" if h["N"] > 6 else "small"], h,
                         lambda: check_history(h, method, fresh_too=(h["N"] > 6 or k == 0)))
                dist["se_histories"] += 1
        hm = gen_history(rng, "me", rng.choice([2, 3]))
        for method in ME_METHODS:
            _guard_h(ctx, "history:mesolve", [method], hm, lambda: check_history(hm, method))
            dist["me_histories"] += 1
        sysd = gen_system(rng)
        for method in (["adams", "vern7", "bdf"], ["lsoda", "vern9", "dop853"])[k % 2]:
            _guard(ctx, "history_td", [method], sysd, lambda: check_history_td(sysd, method))
            dist["td_histories"] += 1
    ctx.cov["input_distribution"]["history_runs"] = dist
    ctx.log("history oracle: %d sesolve, %d mesolve, %d time-dependent histories on one solver object"
            % (dist["se_histories"], dist["me_histories"], dist["td_histories"]))


def _guard_h(ctx, site, key, h, fn):
    try:
        bad = fn()
    except Exception as e:              # noqa
        bad = [("raises", "%s: %s" % (type(e).__name__, str(e)[:300]))]
    ctx.count_case((site, tuple(key), json.dumps(hist_to_json(h), sort_keys=True)), nontrivial=True)
    for sig, what in bad:
        if sig == KRY_SIG:
            ctx.violation(KRY_SITE, KRY_SIG, what,
                          {"kind": "history", "method": key[0], "history": hist_to_json(h)},
                          found_input=True)
            continue
        ctx.violation("oracle:%s" % site, key + [sig], what,
                      {"kind": "history", "method": key[0], "history": hist_to_json(h)},
                      found_input=True)


# ---- state form x purity x normalize_output: full product ----------------
def _sf_states(rng, N, kind):
    """(form, purity, Qobj, numpy initial data in the form the solver returns)"""
    import qutip
    v = np.array([complex(rng.gauss(0, 1), rng.gauss(0, 1)) for _ in range(N)])
    v = v / np.linalg.norm(v)
    w = np.array([complex(rng.gauss(0, 1), rng.gauss(0, 1)) for _ in range(N)])
    w = w / np.linalg.norm(w)
    pure = np.outer(v, v.conj())
    mixed = 0.6 * pure + 0.4 * np.outer(w, w.conj())
    out = []
    if kind == "se":
        out.append(("ket", "pure", qutip.Qobj(v.reshape(N, 1))))
        out.append(("ket", "non-normalised", qutip.Qobj(1.7 * v.reshape(N, 1))))
        out.append(("oper", "unitary", qutip.qeye(N)))
        out.append(("oper", "non-normalised", qutip.Qobj(0.5 * np.eye(N) + 0.1 * pure)))
    else:
        out.append(("ket", "pure", qutip.Qobj(v.reshape(N, 1))))
        out.append(("ket", "non-normalised", qutip.Qobj(1.7 * v.reshape(N, 1))))
        for nm, r in (("pure", pure), ("mixed", mixed), ("non-normalised", 1.7 * mixed)):
            out.append(("dm", nm, qutip.Qobj(r)))
            out.append(("operket", nm, qutip.operator_to_vector(qutip.Qobj(r))))
        out.append(("super", "identity", qutip.to_super(qutip.qeye(N))))
        out.append(("super", "non-normalised", 0.5 * qutip.to_super(qutip.qeye(N))))
    return out


NORM_OPTS = ["default", True, False]


def check_stateform(sysd, kind, method, form, purity, state, norm_opt):
    """Exact evolution preserves norm / trace, so whatever normalize_output is,
    every stored state must be expm applied to the initial data, in the form
    the state was given (ket -> density matrix under a master equation)."""
    import qutip
    import scipy.linalg as sl
    N = sysd["N"]
    tl = sysd["tlist"]
    opts = _opts(method, {"store_states": True})
    del opts["normalize_output"]
    if norm_opt != "default":
        opts["normalize_output"] = norm_opt
    Hm = sysd["H"]
    if kind == "se":
        res = qutip.sesolve(qutip.Qobj(Hm), state, tl, options=opts)

        def exact(t):
            return sl.expm(-1j * Hm * (t - tl[0])) @ state.full()
    else:
        I = np.eye(N)
        L = -1j * (np.kron(I, Hm) - np.kron(Hm.T, I))
        for c in sysd["cops"]:
            cd = c.conj().T @ c
            L = L + np.kron(c.conj(), c) - 0.5 * np.kron(I, cd) - 0.5 * np.kron(cd.T, I)
        res = qutip.mesolve(qutip.Qobj(Hm), state, tl, c_ops=[qutip.Qobj(c) for c in sysd["cops"]],
                            options=opts)
        s0 = state.full()
        if form == "ket":
            s0 = s0 @ s0.conj().T

        def exact(t):
            P = sl.expm(L * (t - tl[0]))
            if form == "super":
                return P @ s0
            if form == "operket":
                return P @ s0
            return (P @ s0.reshape(-1, 1, order="F")).reshape(N, N, order="F")
    bad = []
    for k, t in enumerate(tl):
        ref = exact(t)
        got = res.states[k].full()
        if got.shape != ref.shape:
            bad.append(("state-shape", "stored state has shape %s, expected %s" % (got.shape, ref.shape)))
            break
        err = np.linalg.norm(got - ref)
        if not err <= _htol(method, False, ref) * (4 if method in ("adams", "bdf", "lsoda") else 1):
            tr = ""
            if kind == "me" and form in ("dm", "ket", "operket"):
                g = got if form != "operket" else got.reshape(N, N, order="F")
                tr = "; trace %.6f (initial %.6f)" % (np.trace(g).real, np.trace(
                    s0 if form != "operket" else s0.reshape(N, N, order="F")).real)
            bad.append(("state-vs-expm",
                        "%s, method %s, initial state %s/%s, normalize_output=%s: stored state %d (t=%g) "
                        "differs from expm by %.2e%s"
                        % ("sesolve" if kind == "se" else "mesolve", method, form, purity, norm_opt,
                           k, t, err, tr)))
            break
    return bad


def run_stateform_oracle(ctx, rng, nsys):
    n = 0
    for _ in range(nsys):
        for kind, methods in (("se", SE_METHODS), ("me", ME_METHODS)):
            sysd = gen_system(rng, rng.choice([2, 3]))
            sysd["cops"] = [c for c in sysd["cops"]] or [np.triu(np.ones((sysd["N"],) * 2), 1) / 2]
            if all(np.allclose(c, 0) for c in sysd["cops"]):
                sysd["cops"] = [np.triu(np.ones((sysd["N"],) * 2), 1) / 2]
            states = _sf_states(rng, sysd["N"], kind)
            for method in methods:
                for form, purity, st in states:
                    if method == "krylov" and form != "ket":
                        continue
                    for no in NORM_OPTS:
                        key = [method, form, purity, "normalize_output=%s" % no]
                        try:
                            bad = check_stateform(sysd, kind, method, form, purity, st, no)
                        except Exception as e:      # noqa
                            bad = [("raises", "%s: %s" % (type(e).__name__, str(e)[:300]))]
                        n += 1
                        ctx.count_case(("stateform", kind, tuple(key), json.dumps(sys_to_json(sysd), sort_keys=True)),
                                       nontrivial=True)
                        for sig, what in bad:
                            ctx.violation("oracle:stateform:%s" % ("sesolve" if kind == "se" else "mesolve"),
                                          key + [sig], what,
                                          {"kind": "stateform", "solver": kind, "method": method, "form": form,
                                           "purity": purity, "normalize_output": no,
                                           "state": [[[float(x.real), float(x.imag)] for x in r] for r in st.full()],
                                           "state_dims": st.dims, "system": sys_to_json(sysd)},
                                          found_input=True)
    ctx.cov["input_distribution"]["stateform_runs"] = {
        "runs": n, "forms": ["ket", "dm", "operket", "oper", "super"],
        "purity": ["pure", "mixed", "non-normalised"], "normalize_output": [str(x) for x in NORM_OPTS]}
    ctx.log("state-form oracle: %d runs (method x state form x purity x normalize_output)" % n)


def run_prepare_corr(ctx, rng, nsys):
    """The normalisation decision of the real Solver._prepare_state against
    Model/C10_prepare.v over the product solver x state form x purity x option;
    the attributes fed to the model are read off the state independently
    (numpy norm / trace, Qobj.type, dims)."""
    import qutip
    from qutip.solver.sesolve import SESolver
    from qutip.solver.mesolve import MESolver
    rows, exprs = [], []
    for _ in range(nsys):
        N = rng.choice([2, 3])
        H = qutip.Qobj(_herm(rng, N, 2))
        c = qutip.Qobj(np.triu(np.ones((N, N)), 1))
        for kind in ("se", "me", "me_liouv"):
            for opt in (True, False, "default"):
                o = {} if opt == "default" else {"normalize_output": opt}
                S = (SESolver(H, options=o) if kind == "se" else
                     MESolver(H, [c], options=o) if kind == "me" else
                     MESolver(qutip.liouvillian(H, [c]), options=o))
                eff_opt = True if opt == "default" else opt      # documented default: True
                for form, purity, st in _sf_states(rng, N, "se" if kind == "se" else "me"):
                    try:
                        S._prepare_state(st)
                    except Exception as e:          # noqa
                        ctx.violation("oracle:Solver._prepare_state", [kind, form, "raises"],
                                      "state form %s rejected by %s: %s" % (form, kind, e),
                                      {"kind": "prepare_corr"})
                        continue
                    s2 = qutip.ket2dm(st) if (kind != "se" and st.type == "ket") else st
                    arr = s2.full()
                    fm = {"ket": "FKet", "oper": "FOper", "operator-ket": "FOperKet",
                          "super": "FSuper"}.get(s2.type, "FOther")
                    square = arr.shape[0] == arr.shape[1] and s2.dims[0] == s2.dims[1]
                    dims_match = (S.rhs.dims[1] == s2.dims)
                    col = arr.shape[1] == 1
                    l2 = abs(np.linalg.norm(arr) - 1) <= 1e-12
                    tr = bool(square and abs(np.trace(arr) - 1) <= 1e-12)
                    rows.append((kind, opt, form, purity, bool(S._normalize_output)))
                    exprs.append("(wf %s (mk_pstate %s %s %s %s %s %s), normalize_output %s "
                                 "(mk_pstate %s %s %s %s %s %s))" % (
                                     vlib.cbool(kind != "se"), fm, vlib.cbool(square), vlib.cbool(dims_match),
                                     vlib.cbool(col), vlib.cbool(l2), vlib.cbool(tr), vlib.cbool(eff_opt),
                                     fm, vlib.cbool(square), vlib.cbool(dims_match), vlib.cbool(col),
                                     vlib.cbool(l2), vlib.cbool(tr)))
    hdr = "From Coq Require Import Bool.\nFrom QV Require Import Model.C10_prepare.\n"
    try:
        vals = vlib.coq_eval_values("cases_C10n", hdr, exprs, chunk=400)
    except RuntimeError as e:
        ctx.violation("corr:C10:prepare-model-eval", "coqc", "prepare model evaluation failed",
                      {"log": str(e)}, found_input=False)
        return
    for (kind, opt, form, purity, got), val in zip(rows, vals):
        wf, model = vlib.parse_coq_value(val)
        ctx.count_case(("prepare", kind, str(opt), form, purity), nontrivial=True)
        ctx.cov["traces_validated_against_impl"] += 1
        if not wf:
            ctx.violation("corr:Solver._prepare_state", [kind, form, "attributes-not-well-formed"],
                          "state form %s under %s has attributes outside the modelled combinations"
                          % (form, kind), {"kind": "prepare_corr"}, found_input=True)
        elif model != got:
            ctx.violation("corr:Solver._prepare_state", [kind, form, purity, "normalize-decision"],
                          "Solver._prepare_state decides normalize_output=%s for a %s %s state under %s "
                          "(option %s); the modelled rule says %s" % (got, purity, form, kind, opt, model),
                          {"kind": "prepare_corr", "solver": kind, "form": form, "purity": purity,
                           "option": str(opt)}, found_input=True)
    ctx.cov["input_distribution"]["prepare_decision_cases"] = len(rows)


# ---- the propagator route, compared AFTER all propagators were requested ----
PROP_METHODS = ["adams", "bdf", "lsoda", "dop853", "vern7", "vern9", "diag"]
PROP_DTYPES = ["dense", "csr", "dia"]
PROP_STYLES = ["object-increasing", "object-repeated", "function-tlist"]


def check_propagator_route(sysd, kind, method, dtype, style, td=False):
    """Every propagator handed to the caller is kept; only after ALL of them
    have been requested are they compared with expm (or DOP853 for H(t)) at
    their own times, with a snapshot taken when they were returned, and -
    applied to the initial state - with the state route of sesolve / mesolve."""
    import qutip
    import scipy.linalg as sl
    from scipy.integrate import solve_ivp
    N = sysd["N"]
    times = [t - sysd["tlist"][0] for t in sysd["tlist"][1:]][:4]
    times = sorted(set(round(t, 6) for t in times if t > 0))
    Hm, H1m = sysd["H"], sysd["H1"]
    w = 1.5
    with qutip.CoreOptions(default_dtype=dtype):
        H = qutip.Qobj(Hm).to(dtype)
        if td:
            H = qutip.QobjEvo([H, [qutip.Qobj(H1m).to(dtype), lambda t: np.cos(w * t)]])
        cops = [qutip.Qobj(c).to(dtype) for c in sysd["cops"]] if kind == "me" else []
        opts = {k: v for k, v in _opts(method).items() if k not in ("normalize_output", "progress_bar")}
        kept = []            # (time, returned object, snapshot at return)
        if style == "function-tlist":
            outs = qutip.propagator(H, [0.0] + times, c_ops=cops or None, options=opts)
            for t, U in zip([0.0] + times, outs):
                kept.append((t, U, U.full().copy()))
        else:
            P = qutip.Propagator(H, c_ops=cops or None, options=opts)
            order = list(times)
            if style == "object-repeated" and len(times) >= 2:
                order = [times[1], times[0], times[1]] + times[2:] + [times[0], times[-1]]
            for t in order:
                U = P(t)
                kept.append((t, U, U.full().copy()))
    # references
    if kind == "se":
        dim = N

        def gen(t):
            return -1j * (Hm + (np.cos(w * t) * H1m if td else 0))
    else:
        dim = N * N
        I = np.eye(N)

        def gen(t):
            Ht = Hm + (np.cos(w * t) * H1m if td else 0)
            L = -1j * (np.kron(I, Ht) - np.kron(Ht.T, I))
            for c in sysd["cops"]:
                cd = c.conj().T @ c
                L = L + np.kron(c.conj(), c) - 0.5 * np.kron(I, cd) - 0.5 * np.kron(cd.T, I)
            return L
    refs = {}
    if td:
        sol = solve_ivp(lambda t, y: (gen(t) @ y.reshape(dim, dim)).reshape(-1), (0, max(times)),
                        np.eye(dim, dtype=complex).reshape(-1), method="DOP853", t_eval=times,
                        rtol=1e-12, atol=1e-14)
        for k, t in enumerate(times):
            refs[t] = sol.y[:, k].reshape(dim, dim)
    else:
        for t in times:
            refs[t] = sl.expm(gen(0.0) * t)
    refs[0.0] = np.eye(dim, dtype=complex)
    bad = []
    for k, (t, U, snap) in enumerate(kept):
        now = U.full()
        tol = (1e-9 if kind == "se" else 2e-7) if method == "diag" else 4 * _htol(method, False, refs[t])
        if not np.array_equal(now, snap):
            bad.append(("returned-propagator-changed-later",
                        "%s propagator (%s, default_dtype=%s, %s): the object returned for t=%g (request %d of %d) "
                        "changed after later requests by %.2e; error vs exact now %.2e"
                        % (kind, method, dtype, style, t, k + 1, len(kept),
                           np.linalg.norm(now - snap), np.linalg.norm(now - refs[t]))))
            break
        err = np.linalg.norm(now - refs[t])
        if not err <= tol:
            bad.append(("propagator-vs-exact",
                        "%s propagator (%s, default_dtype=%s, %s): U(%g) (request %d of %d), compared after all "
                        "requests, differs from the exact propagator by %.2e"
                        % (kind, method, dtype, style, t, k + 1, len(kept), err)))
            break
    if not bad and not td:
        # route agreement: kept propagators applied to the initial state vs the state route
        psi = sysd["psi"].reshape(N, 1)
        tl = [0.0] + times
        if kind == "se":
            st = qutip.sesolve(qutip.Qobj(Hm), qutip.Qobj(psi), tl,
                               options=_opts("vern9", {"store_states": True})).states
            vec0 = psi
        else:
            rho0 = psi @ psi.conj().T
            st = qutip.mesolve(qutip.Qobj(Hm), qutip.Qobj(rho0), tl, c_ops=[qutip.Qobj(c) for c in sysd["cops"]],
                               options=_opts("vern9", {"store_states": True})).states
            vec0 = rho0.reshape(-1, 1, order="F")
        for t, U, _ in kept:
            ref = st[tl.index(t)].full()
            ref = ref if kind == "se" else ref.reshape(-1, 1, order="F")
            err = np.linalg.norm(U.full() @ vec0 - ref)
            if not err <= 8 * _htol(method, False, ref):
                bad.append(("propagator-vs-state-route",
                            "%s propagator (%s, %s, %s) applied to the initial state differs from the "
                            "state route at t=%g by %.2e" % (kind, method, dtype, style, t, err)))
                break
    return bad


def run_propagator_oracle(ctx, rng, nsys):
    n = 0
    for i in range(nsys):
        sysd = gen_system(rng, rng.choice([2, 3]))
        for kind in ("se", "me"):
            for mi, method in enumerate(PROP_METHODS):
                for di, dtype in enumerate(PROP_DTYPES):
                    for si, style in enumerate(PROP_STYLES):
                        tds = [False]
                        if method != "diag" and (mi + di + si + i) % 4 == 0:
                            tds.append(True)
                        for td in tds:
                            key = [kind, method, dtype, style, "H(t)" if td else "const"]
                            try:
                                bad = check_propagator_route(sysd, kind, method, dtype, style, td)
                            except Exception as e:      # noqa
                                bad = [("raises", "%s: %s" % (type(e).__name__, str(e)[:300]))]
                            n += 1
                            ctx.count_case(("propagator", tuple(key), json.dumps(sys_to_json(sysd), sort_keys=True)),
                                           nontrivial=True)
                            for sig, what in bad:
                                ctx.violation("oracle:propagator-route", key + [sig], what,
                                              {"kind": "propagator_route", "solver": kind, "method": method,
                                               "dtype": dtype, "style": style, "td": td,
                                               "system": sys_to_json(sysd)}, found_input=True)
    ctx.cov["input_distribution"]["propagator_route_runs"] = {
        "runs": n, "methods": PROP_METHODS, "default_dtype": PROP_DTYPES, "styles": PROP_STYLES}
    ctx.log("propagator-route oracle: %d sessions (method x default_dtype x call style; compared after all requests)" % n)


# ---- time scales and non-uniform time lists -----------------------------
SCALES = [1e-9, 1e-6, 1e-3, 1.0, 1e3, 1e6]


def gen_timescale_case(rng, kind):
    """A system in natural units and a non-uniform increasing time list whose
    consecutive steps are equal, nearly equal (last ulps, 1e-9, 1e-6 relative)
    and wildly different (x10, /7, x3)."""
    N = rng.choice([2, 3]) if kind == "me" else rng.choice([2, 3, 4])
    H = _herm(rng, N, 1) * 1.5
    cops = []
    if kind == "me":
        cops = [np.triu(_herm(rng, N, 2), 1) for _ in range(rng.choice([1, 2]))]
    v = np.array([complex(rng.gauss(0, 1), rng.gauss(0, 1)) for _ in range(N)])
    v = v / np.linalg.norm(v)
    d = rng.choice([0.25, 0.5, 1.0])
    steps = [d, d, d * (1 + 1e-6), d * (1 + 2.0 ** -50), d * (1 - 1e-6), 3 * d, d / 7, d,
             d * (1 + 1e-9), 2 * d, d * (1 + 3e-6), 10 * d / 4, d]
    head, tail = steps[:2], steps[2:]
    rng.shuffle(tail)
    steps = head + tail[:rng.choice([6, 8])]
    t0 = rng.choice([0.0, 0.0, 0.3])
    tl = [t0]
    for x in steps:
        tl.append(tl[-1] + x)
    return {"kind": kind, "N": N, "H": H, "cops": cops, "psi": v, "tlist": tl}


def ts_to_json(c):
    def m(a):
        return [[[float(v.real), float(v.imag)] for v in r] for r in np.atleast_2d(a)]
    return {"kind": c["kind"], "N": c["N"], "H": m(c["H"]), "cops": [m(x) for x in c["cops"]],
            "psi": m(c["psi"]), "tlist": [float(t).hex() for t in c["tlist"]]}


def ts_from_json(d):
    def m(a):
        return np.array([[complex(v[0], v[1]) for v in r] for r in a])
    return {"kind": d["kind"], "N": d["N"], "H": m(d["H"]), "cops": [m(x) for x in d["cops"]],
            "psi": m(d["psi"]).reshape(-1), "tlist": [float.fromhex(t) for t in d["tlist"]]}


def check_timescale(c, method, scale):
    """The same physics with time multiplied by `scale` and the generator
    divided by it: every stored state must be the exact state at that output
    time (expm in natural units)."""
    import qutip
    import scipy.linalg as sl
    N, kind = c["N"], c["kind"]
    tl_nat = c["tlist"]
    tl = [t * scale for t in tl_nat]
    Hs = c["H"] / scale
    opts = _opts(method, {"store_states": True})
    if method == "krylov":
        # options that carry a time dimension are rescaled with the physics
        opts.update(min_step=1e-5 * scale, max_step=1e5 * scale)
    psi = c["psi"].reshape(N, 1)
    if kind == "se":
        res = qutip.sesolve(qutip.Qobj(Hs), qutip.Qobj(psi), tl, options=opts)

        def exact(k):
            # exact in the rescaled problem: generator Hs over the elapsed
            # rescaled time (the same numbers the solver is given)
            return sl.expm(-1j * Hs * (tl[k] - tl[0])) @ psi
    else:
        cs = [x / np.sqrt(scale) for x in c["cops"]]
        I = np.eye(N)
        L = -1j * (np.kron(I, Hs) - np.kron(Hs.T, I))
        for x in cs:
            cd = x.conj().T @ x
            L = L + np.kron(x.conj(), x) - 0.5 * np.kron(I, cd) - 0.5 * np.kron(cd.T, I)
        rho0 = psi @ psi.conj().T
        res = qutip.mesolve(qutip.Qobj(Hs), qutip.Qobj(rho0), tl, c_ops=[qutip.Qobj(x) for x in cs],
                            options=opts)

        def exact(k):
            return (sl.expm(L * (tl[k] - tl[0])) @ rho0.reshape(-1, 1, order="F")).reshape(N, N, order="F")
    bad = []
    errs = [float(np.linalg.norm(res.states[k].full() - exact(k))) for k in range(len(tl))]
    for k in range(len(tl)):
        ref = exact(k)
        err = errs[k]
        tol = (1e-9 if kind == "se" else 2e-7) if method == "diag" else _htol(method, False, ref)
        if not err <= tol:
            bad.append(("state-vs-expm-at-output-time",
                        "%s, method %s, time scale %g: state at output %d (t=%.17g, step %.17g after "
                        "step %.17g) differs from expm by %.2e; largest error over the %d output "
                        "times %.2e"
                        % ("sesolve" if kind == "se" else "mesolve", method, scale, k, tl[k],
                           tl[k] - tl[k - 1] if k else 0.0, tl[k - 1] - tl[k - 2] if k > 1 else 0.0, err,
                           len(tl), max(errs))))
            break
    return bad


def run_timescale_oracle(ctx, rng, nsys):
    dist = {"runs": 0, "scales": SCALES}
    for _ in range(nsys):
        for kind, methods in (("se", SE_METHODS), ("me", ME_METHODS)):
            c = gen_timescale_case(rng, kind)
            for method in methods:
                for scale in SCALES:
                    key = [method, "scale=%g" % scale]
                    try:
                        bad = check_timescale(c, method, scale)
                    except Exception as e:      # noqa
                        bad = [("raises", "%s: %s" % (type(e).__name__, str(e)[:300]))]
                    ctx.count_case(("timescale", kind, tuple(key), json.dumps(ts_to_json(c), sort_keys=True)),
                                   nontrivial=True)
                    dist["runs"] += 1
                    for sig, what in bad:
                        ctx.violation("oracle:timescale:%s" % ("sesolve" if kind == "se" else "mesolve"),
                                      key + [sig], what,
                                      {"kind": "timescale", "method": method, "scale": scale,
                                       "case": ts_to_json(c)}, found_input=True)
    ctx.cov["input_distribution"]["timescale_runs"] = dist
    ctx.log("time-scale oracle: %d runs (every method x scales %s, non-uniform time lists)"
            % (dist["runs"], SCALES))


def run_oracle(ctx, rng, budget):
    """budget: number of random systems"""
    import qutip
    dist = {"se": 0, "me": 0, "td": 0, "string_coeff_unavailable": False}
    string_ok = True
    try:
        qutip.coefficient("cos(w*t)", args={"w": 1.0})(0.3)
    except Exception:                    # noqa  (no compiler / sympy in this sandbox)
        string_ok = False
        dist["string_coeff_unavailable"] = True
    fmts = ["dense", "csr", "dia"]
    for k in range(budget):
        sysd = gen_system(rng)
        # every method at least once per system; format/form rotate
        for mi, method in enumerate(SE_METHODS):
            fmt = fmts[(k + mi) % 3]
            for form in (["ket", "oper"] if (k + mi) % 2 == 0 else ["ket"]):
                _guard(ctx, "sesolve", [method, fmt, form], sysd,
                       lambda: check_se_case(sysd, method, fmt, form))
                dist["se"] += 1
        forms = ["ket", "dm", "operket", "super"]
        for mi, method in enumerate(ME_METHODS):
            fmt = fmts[(k + mi + 1) % 3]
            form = forms[(k + mi) % 4]
            route = ["H+c_ops", "liouvillian"][(k + mi) % 2]
            _guard(ctx, "mesolve", [method, fmt, form, route], sysd,
                   lambda: check_me_case(sysd, method, fmt, form, route))
            dist["me"] += 1
        kinds = [kd for kd in COEFF_KINDS if kd != "string" or string_ok]
        kind = kinds[k % len(kinds)]
        for method in (["adams", "vern7", "vern9", "dop853", "bdf", "lsoda"][k % 6],
                       ["vern7", "vern9", "adams"][k % 3]):
            _guard(ctx, "td", [method, kind], sysd, lambda: check_td_case(sysd, kind, method))
            dist["td"] += 1
        _guard(ctx, "floquet_br", [], sysd, lambda: check_floquet_br_case(sysd))
        dist["floquet_br"] = dist.get("floquet_br", 0) + 1
    ctx.cov["input_distribution"]["oracle_runs"] = dist
    ctx.log("oracle: %d sesolve, %d mesolve, %d time-dependent route checks"
            % (dist["se"], dist["me"], dist["td"]))


def _guard(ctx, which, key, sysd, fn):
    try:
        bad = fn()
    except Exception as e:              # noqa
        bad = [("raises", "%s: %s" % (type(e).__name__, str(e)[:300]))]
    ctx.count_case(("oracle", which, tuple(key), json.dumps(sys_to_json(sysd), sort_keys=True)),
                   nontrivial=True)
    for sig, what in bad:
        if (sig == "raises" and which == "sesolve" and key[0] == "krylov" and sysd["N"] == 2
                and "shape must be a 2-tuple" in what
                and np.allclose(sysd["H"], sysd["H"][0, 0] * np.eye(2))):
            ctx.violation(KRYP_SITE, KRYP_SIG, what,
                          {"kind": "oracle", "which": which, "key": key, "system": sys_to_json(sysd)},
                          found_input=True)
            continue
        if sig == FSE_SIG:
            ctx.violation(FSE_SITE, FSE_SIG, what,
                          {"kind": "oracle", "which": which, "key": key, "system": sys_to_json(sysd)},
                          found_input=True)
            continue
        ctx.violation("oracle:%s" % which, key + [sig], what,
                      {"kind": "oracle", "which": which, "key": key, "system": sys_to_json(sysd)},
                      found_input=True)


# ---- validation (labelled, tolerance): the real vern7/vern9/rk4 kernels on
# one fixed step agree with the model's rational arithmetic to rounding ----
def run_validation(ctx, rng, tabs):
    import qutip
    from qutip.solver.integrator.explicit_rk import Explicit_RungeKutta
    worst = {}
    for name, key in (("rk4", "rk4_coeff"), ("vern7", "vern7_coeff"), ("vern9", "vern9_coeff")):
        t = tabs[key]
        a = [[Fr(x) for x in r] for r in t["a"]]
        b = [Fr(x) for x in t["b"]]
        s = len(b)
        for _ in range(3):
            N = rng.choice([2, 3])
            M = [[Fr(rng.randint(-2, 2), 2) for _ in range(N)] for _ in range(N)]
            y0 = [Fr(rng.randint(-3, 3)) for _ in range(N)]
            dt = Fr(1, rng.choice([2, 4, 8]))

            def mv(v):
                return [sum(M[i][j] * v[j] for j in range(N)) for i in range(N)]
            ks = []
            for i in range(s):
                yt = [y0[r] + dt * sum(a[i][j] * ks[j][r] for j in range(i)) for r in range(N)]
                ks.append(mv(yt))
            yf = [y0[r] + dt * sum(b[i] * ks[i][r] for i in range(s)) for r in range(N)]
            qevo = qutip.QobjEvo(qutip.Qobj(np.array([[float(x) for x in r] for r in M], dtype=complex)))
            ode = Explicit_RungeKutta(qevo, rtol=1e-6, atol=1e200, nsteps=10, first_step=float(dt),
                                      min_step=0, max_step=float(dt), interpolate=False, method=name)
            ode.set_initial_value(qutip.data.Dense(np.array([float(x) for x in y0], dtype=complex).reshape(N, 1)), 0.0)
            ode.integrate(float(dt))
            got = ode.y.to_array().reshape(-1)
            err = max(abs(got[r] - float(yf[r])) for r in range(N))
            scale = max(1.0, max(abs(float(x)) for x in yf))
            worst[name] = max(worst.get(name, 0), err / scale)
            ctx.count_case(("validation", name, str(M), str(y0), str(dt)))
            if err > 1e-12 * scale:
                ctx.violation("validation:explicit_rk.%s" % name, "one-step-differs",
                              "one fixed step of the real %s kernel differs from the exact "
                              "Runge-Kutta value of the translated tableau by %.2e" % (name, err),
                              {"kind": "validation", "method": name,
                               "M": [[str(x) for x in r] for r in M], "y0": [str(x) for x in y0],
                               "dt": str(dt), "impl": [str(complex(v)) for v in got],
                               "exact": [str(x) for x in yf]}, found_input=True)
    ctx.cov["input_distribution"]["validation_one_step_relative_error"] = worst


# =====================================================================
def tableau_search(ctx, failed, log):
    """A tableau obligation no longer checks: show the effect on the real
    implementation.  One step of y' = M y (2x2) with step sizes 1, 1/2 ... 1/16
    against expm: the local error of a method of order p must fall by about
    2^(p+1) per halving (checked with slack 4, only where the error is above
    rounding).  A perturbed coefficient adds a term delta*dt^k with k <= p that
    dominates for small dt."""
    import qutip
    import scipy.linalg as sl
    from qutip.solver.integrator.explicit_rk import Explicit_RungeKutta
    found = False
    M = np.array([[0, 1j], [1j, 0.5j]])
    y0 = np.array([[1.0 + 0j], [0.5]])
    dts = [1.0, 0.5, 0.25, 0.125, 0.0625]
    for name, order in (("rk4", 4), ("vern7", 7), ("vern9", 9)):
        errs = []
        for dt in dts:
            ode = Explicit_RungeKutta(qutip.QobjEvo(qutip.Qobj(M)), rtol=1e-6, atol=1e200, nsteps=10,
                                      first_step=dt, min_step=0, max_step=dt, interpolate=False,
                                      method=name)
            ode.set_initial_value(qutip.data.Dense(y0.copy()), 0.0)
            ode.integrate(dt)
            errs.append(float(np.linalg.norm(ode.y.to_array() - sl.expm(M * dt) @ y0)))
        for a, b, dt in zip(errs, errs[1:], dts):
            if b > 2e-15 and a / b < 2.0 ** (order + 1) / 4:
                found = True
                ctx.violation("tableau:%s" % name, "local-order-lost",
                              "one step of y' = M y with method %s: local error %.3e at dt=%g but %.3e "
                              "at dt=%g (ratio %.1f, order %d needs about %d)"
                              % (name, a, dt, b, dt / 2, a / b, order, 2 ** (order + 1)),
                              {"kind": "tableau", "method": name, "M": [[str(x) for x in r] for r in M],
                               "y0": [str(x[0]) for x in y0], "dts": dts, "errors": errs,
                               "failed_theorems": failed, "log": log[-1500:]}, found_input=True)
                break
    return found


def run(ctx):
    rng = random.Random(ctx.seed * 104729 + 10)
    ctx.cov["input_distribution"] = {}
    ctx.cov["rule"] = (
        "kernel case = (random dyadic tableau a/b/c[/e/bi] incl. non-zero upper triangle, "
        "Gaussian-integer generator M0 [+ t*M1], dyadic step h, initial state, list of "
        "integrate(t) calls); non-trivial = at least 2 stages; distinct by full case. "
        "packing case = (shape, integer matrix, data format). oracle runs are counted "
        "as evaluations but are exploration, not obligations.")
    ctx.cov["trusted_base"] += [
        "Model/C10.v is hand-written from explicit_rk.pyx (iadd_data, _accumulate, _compute_step, "
        "_prep_dense_out, _interpolate_step, forward part of integrate); tied by exact session "
        "equality on generated dyadic inputs; the step-size controller is pinned "
        "(first_step = max_step, tolerance never binding) and not modelled here (C11)",
        "tools/tx_c10_tableau.py: the supported Python subset of verner7efficient.py / "
        "verner9efficient.py and the two dict literals of explicit_rk.pyx is the modelled part; "
        "floats are evaluated by CPython's float arithmetic (= numpy float64)",
        "order conditions are necessary and sufficient for the order of a Runge-Kutta method "
        "(Butcher); this classical theorem is NOT proved here - what is proved is that all "
        "conditions hold up to 2^-40, and local exactness for linear autonomous systems",
        "module laws / linearity of the right-hand side (hypotheses of the linear-step theorems) "
        "for complex matrices; 'doubles approximate them'",
        "IntegratorDiag / IntegratorKrylov: the numerical kernels (eigen-decomposition, exp(diag*dt), "
        "Lanczos, eigen-set of the tridiagonal matrix, _compute_psi, _compute_max_step) are oracles of "
        "Model/C10_diag.v and Model/C10_krylov.v with the stated exactness hypotheses; the bookkeeping "
        "(cache keyed by dt; _t_0, _max_step, re-basing loop) is tied by exact trace correspondence with "
        "scripted kernels; FloquetBasis enters Props/C10_floquet_mx.v as a unitary matrix W(t)",
        "scipy.linalg.expm and scipy.integrate.solve_ivp(DOP853, rtol 1e-12) as reference "
        "solutions of the exploration oracle; SciPy zvode/dop853/lsoda, Krylov, diag internals "
        "are explored only",
    ]
    # ---- T: regenerate the tableaux from the source
    tabs = None
    try:
        tabs = tx.generate()
        ctx.add_obligation("tx_c10_tableau: source within supported subset", True)
    except Exception as e:              # noqa
        ctx.add_obligation("tx_c10_tableau: source within supported subset", False)
        found = tableau_search(ctx, ["translator"], str(e))
        if not found:
            ctx.violation("translator:tx_c10_tableau", "fail-closed",
                          "tableau source no longer within the translated subset: %s" % e,
                          {"error": str(e)}, found_input=False)

    def search(failed, log):
        tableau_search(ctx, failed, log)
        r2 = random.Random(ctx.seed + 77)
        run_kernel_corr(ctx, r2, 40)
        run_oracle(ctx, r2, 1)

    # the kernel / packing / matrix theorems: coqc, and coqchk in the thorough tier
    vlib.standard_proof_step(ctx, ["Props/C10.vo", "Props/C10_mx.vo", "Props/C10_floquet.vo",
                                   "Props/C10_integrators.vo", "Props/C10_floquet_mx.vo",
                                   "Props/C10_prepare.vo"],
                             ["Props/C10.v", "Props/C10_mx.v", "Props/C10_floquet.v",
                              "Props/C10_integrators.v", "Props/C10_floquet_mx.v",
                              "Props/C10_prepare.v"], search)
    if tabs is not None:
        # the computed tableau facts are evaluated by the kernel's VM (about 6
        # minutes of vm_compute for the 2056 plane trees of order <= 9 on 26
        # stages); coqchk has no VM and would take hours, so these are checked
        # by coqc only - recorded in the evidence as such
        had = "coqchk" in ctx.cov
        if not had:
            ctx.cov["coqchk"] = []
        vlib.standard_proof_step(ctx, ["Props/C10_tab.vo"], ["Props/C10_tab.v"], search)
        if not had and not ctx.cov["coqchk"]:
            del ctx.cov["coqchk"]
        if not ctx.quick:
            ctx.cov.setdefault("coqchk", []).append({
                "module": "QV.Props.C10_tab", "rc": -1,
                "summary": "SKIPPED (not an obligation): coqchk evaluates VM casts with its lazy "
                           "machine; the order-condition evaluations (6 min in the kernel VM) did "
                           "not finish in 17 min of coqchk CPU. Checked by coqc's kernel only."})
        ctx.notes.append("Props/C10_tab.v (vm_compute evaluations of the order conditions) is "
                         "checked by coqc only, not by coqchk (no VM in coqchk)")
    # ---- K
    run_kernel_corr(ctx, rng, 160 if ctx.quick else 1500)
    run_init_coeff_corr(ctx, rng, 80 if ctx.quick else 400)
    run_fsesolve_corr(ctx, rng, 60 if ctx.quick else 300)
    run_diag_corr(ctx, rng, 80 if ctx.quick else 500)
    run_krylov_corr(ctx, rng, 80 if ctx.quick else 500)
    fsesolve_witness(ctx)
    run_packing_corr(ctx, rng, 60 if ctx.quick else 400)
    packing_roundtrip_oracle(ctx, rng, 60 if ctx.quick else 400)
    if tabs is not None:
        run_validation(ctx, rng, tabs)
    # ---- O
    run_oracle(ctx, rng, 3 if ctx.quick else 30)
    krylov_norm_witness(ctx)
    krylov_identity_witness(ctx)
    run_history_oracle(ctx, rng, 1 if ctx.quick else 6)
    run_timescale_oracle(ctx, rng, 1 if ctx.quick else 5)
    run_propagator_oracle(ctx, rng, 1 if ctx.quick else 3)
    run_prepare_corr(ctx, rng, 1 if ctx.quick else 4)
    run_stateform_oracle(ctx, rng, 1 if ctx.quick else 4)
    ctx.cov["explanation"] = (
        "Proved (all inputs): the RK kernel commutes with linear maps between state spaces "
        "(route agreement step by step), a step on y'=Ly is the kernel's own symbolic polynomial "
        "in L, that polynomial has the Taylor coefficients of exp through the advertised order for "
        "the tableaux in the source (re-read every run), all rooted-tree order conditions up to "
        "order 1/4/7/9 (embedded 6/8, dense output 6/8), unstack.stack = id; IntegratorDiag: every "
        "history returns U exp(diag (t - t_set)) Uinv s_set, cache never stale; IntegratorKrylov: every "
        "answer to non-decreasing queries is the exact flow given per-window exact oracles, infinite "
        "window only for breakdown states, no exception when nsteps exceeds the distance; fsesolve = "
        "W(t) W(t0)^+ psi0 with propagator laws. Tied: exact "
        "session-level correspondence of the real Cython kernel with the model. Explored, not "
        "proved: global accuracy of every registered method/format/state form/coefficient kind "
        "against expm and against each other (tolerance %g x (atol + rtol |y|))." % SAFETY)


# =====================================================================
def replay(ctx, payload):
    d = payload["detail"]
    kind = d.get("kind")
    if kind == "kernel":
        case = case_from_json(d["case"])
        ref, _ = ref_session(case)
        try:
            got = impl_canon(impl_session(case))
        except Exception as e:          # noqa
            got = ("raise", str(e))
        if got != ref:
            ctx.violation(payload["site"], payload["signature"], payload["what"],
                          {"kind": "kernel", "case": d["case"],
                           "impl": got if isinstance(got, tuple) else show(got), "model": show(ref)})
    elif kind == "oracle":
        sysd = sys_from_json(d["system"])
        key = d["key"]
        if d["which"] == "sesolve":
            bad = check_se_case(sysd, *key[:3])
        elif d["which"] == "mesolve":
            bad = check_me_case(sysd, *key[:4])
        elif d["which"] == "history_td":
            bad = check_history_td(sysd, key[0])
        elif d["which"] == "floquet_br":
            bad = check_floquet_br_case(sysd)
            key = []
        else:
            bad = check_td_case(sysd, key[1], key[0])
        for sig, what in bad:
            if sig == FSE_SIG:
                ctx.violation(FSE_SITE, FSE_SIG, what, d)
            else:
                ctx.violation(payload["site"], key + [sig], what, d)
    elif kind == "history":
        h = hist_from_json(d["history"])
        for sig, what in check_history(h, d["method"]):
            if sig == KRY_SIG:
                ctx.violation(KRY_SITE, KRY_SIG, what, d)
            else:
                sg = payload["signature"]
                ctx.violation(payload["site"], (sg[:-1] if isinstance(sg, list) else [d["method"]]) + [sig],
                              what, d)
    elif kind == "propagator_route":
        sysd = sys_from_json(d["system"])
        for sig, what in check_propagator_route(sysd, d["solver"], d["method"], d["dtype"], d["style"], d["td"]):
            ctx.violation(payload["site"], payload["signature"][:-1] + [sig], what, d)
    elif kind == "stateform":
        import qutip
        sysd = sys_from_json(d["system"])
        st = qutip.Qobj(np.array([[complex(x[0], x[1]) for x in r] for r in d["state"]]), dims=d["state_dims"])
        no = d["normalize_output"]
        for sig, what in check_stateform(sysd, d["solver"], d["method"], d["form"], d["purity"], st, no):
            ctx.violation(payload["site"], payload["signature"][:-1] + [sig], what, d)
    elif kind == "prepare_corr":
        run_prepare_corr(ctx, random.Random(payload.get("seed", 0)), 2)
    elif kind == "timescale":
        c = ts_from_json(d["case"])
        for sig, what in check_timescale(c, d["method"], d["scale"]):
            ctx.violation(payload["site"], payload["signature"][:-1] + [sig], what, d)
    elif kind == "krylov_norm_witness":
        krylov_norm_witness(ctx)
    elif kind == "krylov_identity_witness":
        krylov_identity_witness(ctx)
    elif kind == "tableau":
        tableau_search(ctx, d.get("failed_theorems", []), "")
    elif kind == "validation":
        run_validation(ctx, random.Random(payload.get("seed", 0)), tx.read_all())
    elif kind == "fsesolve_witness":
        fsesolve_witness(ctx)
    elif kind == "fsesolve_corr":
        run_fsesolve_corr(ctx, random.Random(payload.get("seed", 0)), 60)
    elif kind == "diag_corr":
        run_diag_corr(ctx, random.Random(payload.get("seed", 0)), 200)
    elif kind == "krylov_corr":
        run_krylov_corr(ctx, random.Random(payload.get("seed", 0)), 200)
    elif kind == "init_coeff":
        run_init_coeff_corr(ctx, random.Random(payload.get("seed", 0)), 200)
    elif kind in ("packing", "packing_roundtrip"):
        r = random.Random(payload.get("seed", 0) * 104729 + 10)
        run_packing_corr(ctx, r, 60)
        packing_roundtrip_oracle(ctx, r, 60)
