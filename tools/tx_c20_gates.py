"""Translator (T) for C20: reads qutip/core/gates.py with `ast` and emits
coq/Gen/C20_gates.v: every gate constructor whose body ends in

    return Qobj(<literal table>, dims=..., isherm=<const>, isunitary=<const>).to(dtype)
    return qdiags(<literal list>, dims=..., dtype=dtype)

with entries that are exact multiples of 1/2 in Z[i] becomes a `gate` record
(Gaussian-integer table times 1/scale, literal flags).  Fails closed: a gate
listed in REQUIRED that can no longer be read raises.  Gates whose entries
involve np.sqrt / np.cos / parameters are reported as `inexact` and are not
translated (they are checked by the implementation-level oracle only)."""
import ast
import os

REQUIRED = ["cnot", "cy_gate", "cz_gate", "s_gate", "cs_gate", "swap", "iswap",
            "fredkin", "toffoli", "sqrtnot", "sqrtswap"]


class Inexact(Exception):
    pass


def _const(node):
    """Fold a constant expression to a Python complex, or raise Inexact."""
    if isinstance(node, ast.Constant) and isinstance(node.value, (int, float, complex)) \
            and not isinstance(node.value, bool):
        return complex(node.value)
    if isinstance(node, ast.UnaryOp) and isinstance(node.op, (ast.USub, ast.UAdd)):
        v = _const(node.operand)
        return -v if isinstance(node.op, ast.USub) else v
    if isinstance(node, ast.BinOp) and isinstance(node.op, (ast.Add, ast.Sub, ast.Mult)):
        a, b = _const(node.left), _const(node.right)
        return {ast.Add: a + b, ast.Sub: a - b, ast.Mult: a * b}[type(node.op)]
    raise Inexact(ast.dump(node)[:60])


def _table(node):
    if isinstance(node, ast.Call) and isinstance(node.func, ast.Attribute) \
            and node.func.attr == "array" and len(node.args) == 1:
        node = node.args[0]              # np.array([...])
    if not isinstance(node, ast.List):
        raise Inexact("not a list literal")
    rows = []
    for r in node.elts:
        if not isinstance(r, ast.List):
            raise Inexact("row is not a list literal")
        rows.append([_const(e) for e in r.elts])
    return rows


def _flag(node):
    if isinstance(node, ast.Constant) and node.value in (True, False, None):
        return node.value
    raise ValueError("flag is not a literal: " + ast.dump(node)[:60])


def _scale(vals):
    """smallest s in {1, 2} with s*v Gaussian integers for all v"""
    for s in (1, 2):
        if all((s * v.real) == int(s * v.real) and (s * v.imag) == int(s * v.imag)
               for v in vals):
            return s
    raise Inexact("entries are not multiples of 1/2")


def extract(repo):
    src = open(os.path.join(repo, "qutip", "core", "gates.py")).read()
    tree = ast.parse(src)
    gates, inexact = {}, []
    for fn in tree.body:
        if not isinstance(fn, ast.FunctionDef) or fn.name.startswith("_"):
            continue
        rets = [n for n in ast.walk(fn) if isinstance(n, ast.Return)]
        if len(rets) != 1 or rets[0].value is None:
            inexact.append(fn.name)
            continue
        call = rets[0].value
        try:
            # Qobj(...).to(dtype)
            if (isinstance(call, ast.Call) and isinstance(call.func, ast.Attribute)
                    and call.func.attr == "to" and isinstance(call.func.value, ast.Call)
                    and getattr(call.func.value.func, "id", None) == "Qobj"):
                q = call.func.value
                if len(q.args) != 1:
                    raise Inexact("Qobj positional arguments")
                rows = _table(q.args[0])
                kw = {k.arg: k.value for k in q.keywords}
                extra = set(kw) - {"dims", "isherm", "isunitary"}
                if extra:
                    raise ValueError("unexpected Qobj keyword %s in %s" % (extra, fn.name))
                ih = _flag(kw["isherm"]) if "isherm" in kw else None
                iu = _flag(kw["isunitary"]) if "isunitary" in kw else None
                n = len(rows)
                if any(len(r) != n for r in rows):
                    raise ValueError("non-square literal table in " + fn.name)
                s = _scale([v for r in rows for v in r])
                gates[fn.name] = {"kind": "table", "n": n, "scale": s, "isherm": ih,
                                  "isunitary": iu,
                                  "rows": [[(int(s * v.real), int(s * v.imag)) for v in r]
                                           for r in rows]}
            # qdiags([...], dims=..., dtype=dtype)  (offset 0)
            elif isinstance(call, ast.Call) and getattr(call.func, "id", None) == "qdiags":
                if len(call.args) != 1 or not isinstance(call.args[0], ast.List):
                    raise Inexact("qdiags arguments")
                kw = {k.arg for k in call.keywords}
                if kw - {"dims", "dtype"}:
                    raise ValueError("unexpected qdiags keyword in " + fn.name)
                d = [_const(e) for e in call.args[0].elts]
                if _scale(d) != 1:
                    raise Inexact("non-integer diagonal")
                gates[fn.name] = {"kind": "qdiags", "n": len(d),
                                  "diag": [(int(v.real), int(v.imag)) for v in d]}
            else:
                inexact.append(fn.name)
        except Inexact:
            inexact.append(fn.name)
    missing = [g for g in REQUIRED if g not in gates]
    if missing:
        raise ValueError("gates.py: cannot read the literal table of %s any more" % missing)
    return gates, inexact


def _cz(n):
    return "(%d)" % n if n < 0 else "%d" % n


def _cg(p):
    return "(%s, %s)" % (_cz(p[0]), _cz(p[1]))


def _copt(b):
    return "None" if b is None else ("Some true" if b else "Some false")


# relations proved on the generated tables (finite computation, 4x4 / 8x8):
# name -> (lhs, rhs) as Coq terms over `M_<gate>` (the scaled integer tables)
def relations(gates):
    rel = []

    def sq_is(g, rhs, scale2=1):
        n = gates[g]["n"]
        rel.append(("%s_squared" % g,
                    "gmat_eqb %d (gmatmul %d M_%s M_%s) (%s) = true" % (n, n, g, g, rhs)))
    for g in ["cnot", "cy_gate", "cz_gate", "swap", "fredkin", "toffoli"]:
        sq_is(g, "gid %d" % gates[g]["n"])
    # S^2 = Z, (CS)^2 = CZ, iSWAP^2 = diag(1,-1,-1,1)
    rel.append(("s_gate_squared_is_Z",
                "gmat_eqb 2 (gmatmul 2 M_s_gate M_s_gate) [[(1,0);(0,0)];[(0,0);(-1,0)]] = true"))
    rel.append(("cs_gate_squared_is_cz",
                "gmat_eqb 4 (gmatmul 4 M_cs_gate M_cs_gate) M_cz_gate = true"))
    rel.append(("iswap_squared",
                "gmat_eqb 4 (gmatmul 4 M_iswap M_iswap) "
                "[[(1,0);(0,0);(0,0);(0,0)];[(0,0);(-1,0);(0,0);(0,0)];"
                "[(0,0);(0,0);(-1,0);(0,0)];[(0,0);(0,0);(0,0);(1,0)]] = true"))
    # sqrtnot^2 = X and sqrtswap^2 = swap (tables are scaled by 2: (2A)(2A) = 4 A^2)
    rel.append(("sqrtnot_squared_is_X",
                "gmat_eqb 2 (gmatmul 2 M_sqrtnot M_sqrtnot) [[(0,0);(4,0)];[(4,0);(0,0)]] = true"))
    rel.append(("sqrtswap_squared_is_swap",
                "gmat_eqb 4 (gmatmul 4 M_sqrtswap M_sqrtswap) "
                "(map (map (fun z => gmul (4,0) z)) M_swap) = true"))
    # SWAP CNOT SWAP = CNOT with control and target exchanged
    rel.append(("swap_cnot_swap",
                "gmat_eqb 4 (gmatmul 4 M_swap (gmatmul 4 M_cnot M_swap)) "
                "[[(1,0);(0,0);(0,0);(0,0)];[(0,0);(0,0);(0,0);(1,0)];"
                "[(0,0);(0,0);(1,0);(0,0)];[(0,0);(1,0);(0,0);(0,0)]] = true"))
    # three CNOTs make a SWAP
    rel.append(("three_cnots_swap",
                "let r := gmatmul 4 M_swap (gmatmul 4 M_cnot M_swap) in "
                "gmat_eqb 4 (gmatmul 4 M_cnot (gmatmul 4 r M_cnot)) M_swap = true"))
    # toffoli / fredkin are the controlled cnot / swap: block structure
    rel.append(("toffoli_is_controlled_cnot",
                "forallb (fun i => forallb (fun j => geqb (gnth M_toffoli i j) "
                "(if (i <? 4)%nat then (if (i =? j)%nat then (1,0) else (0,0)) else "
                "if (j <? 4)%nat then (0,0) else gnth M_cnot (i - 4) (j - 4))) (seq 0 8)) (seq 0 8) = true"))
    rel.append(("fredkin_is_controlled_swap",
                "forallb (fun i => forallb (fun j => geqb (gnth M_fredkin i j) "
                "(if (i <? 4)%nat then (if (i =? j)%nat then (1,0) else (0,0)) else "
                "if (j <? 4)%nat then (0,0) else gnth M_swap (i - 4) (j - 4))) (seq 0 8)) (seq 0 8) = true"))
    # every translated permutation-type gate maps basis states to basis states
    return rel


def generate(repo, outdir):
    gates, inexact = extract(repo)
    L = ["(* generated by tools/tx_c20_gates.py from qutip/core/gates.py - do not edit *)",
         "From Coq Require Import List ZArith Bool Arith.", "Import ListNotations.",
         "From QV Require Import Model.C20 Proofs.C20.", "Open Scope Z_scope.", ""]
    names = sorted(gates)
    for k, g in enumerate(names):
        d = gates[g]
        if d["kind"] == "table":
            rows = "[" + "; ".join("[" + "; ".join(_cg(p) for p in r) + "]" for r in d["rows"]) + "]"
            L.append("Definition M_%s : gmat := %s." % (g, rows))
            L.append("Definition G_%s : gate := {| g_name := %d%%nat; g_n := %d%%nat; g_scale := %d; "
                     "g_mat := M_%s; g_isherm := %s; g_isunitary := %s |}." % (
                         g, k, d["n"], d["scale"], g, _copt(d["isherm"]), _copt(d["isunitary"])))
        else:
            diag = "[" + "; ".join(_cg(p) for p in d["diag"]) + "]"
            n = d["n"]
            L.append("Definition D_%s : list gz := %s." % (g, diag))
            L.append("Definition M_%s : gmat := map (fun i => map (fun j => if (i =? j)%%nat "
                     "then nth i D_%s (0,0) else (0,0)) (seq 0 %d)) (seq 0 %d)." % (g, g, n, n))
            # the flags are what qdiags computes for offsets [0]
            L.append("Definition G_%s : gate := {| g_name := %d%%nat; g_n := %d%%nat; g_scale := 1; "
                     "g_mat := M_%s; g_isherm := fst (qdiags_flags (Flat D_%s) [0]); "
                     "g_isunitary := snd (qdiags_flags (Flat D_%s) [0]) |}." % (g, k, n, g, g, g))
    L.append("Definition gates : list gate := [%s]." % "; ".join("G_" + g for g in names))
    L.append("")
    obligations = []
    for g in names:
        L.append("Lemma gen_gate_ok_%s : gate_ok G_%s = true.\nProof. vm_compute. reflexivity. Qed." % (g, g))
        obligations.append("gen_gate_ok_" + g)
    for nm, stmt in relations(gates):
        L.append("Lemma gen_rel_%s : %s.\nProof. vm_compute. reflexivity. Qed." % (nm, stmt))
        obligations.append("gen_rel_" + nm)
    os.makedirs(outdir, exist_ok=True)
    path = os.path.join(outdir, "C20_gates.v")
    with open(path, "w") as f:
        f.write("\n".join(L) + "\n")
    return {"path": path, "gates": gates, "inexact": inexact, "obligations": obligations}


if __name__ == "__main__":
    import sys
    r = generate(sys.argv[1] if len(sys.argv) > 1 else "/repo",
                 os.path.join(os.path.dirname(os.path.dirname(os.path.abspath(__file__))), "coq", "Gen"))
    print(sorted(r["gates"]), r["inexact"])
