"""C17 - exact correspondence of the scheme steps (coq/Model/C17_sde.v) with the
real steppers (qutip/solver/sode/_sode.pyx on ssystem.pyx StochasticOpenSystem)
reached through SMESolver.run / run_from_experiment.

Inputs are dyadic (Gaussian-integer Hamiltonians, half-integer collapse
operators, dt = 4**-k, increments k/8, dyadic density matrices) and at most two
steps are taken, so that every float operation of the implementation is exact
(denominators stay below 2**50, see the bit budget in the comments of
`gen_case`); the model computes over Gaussian rationals and both sides are
compared as exact fractions.
"""
import random
import warnings
from fractions import Fraction

import numpy as np

import vlib
from vlib import cz, cnat, cbool, clist

HEADER = ("From Coq Require Import List ZArith Bool QArith.\nImport ListNotations.\n"
          "From QV Require Import Model.C17_sde Model.C17_sys.\nClose Scope Q_scope.\nOpen Scope nat_scope.\n")


def cq(fr):
    fr = Fraction(fr)
    n = fr.numerator
    return "(%s # %d)%%Q" % (("(%d)" % n) if n < 0 else str(n), fr.denominator)


def cc(z):
    """complex with exact dyadic parts -> Coq Gaussian rational"""
    return "(%s, %s)" % (cq(Fraction(z.real)), cq(Fraction(z.imag)))


def cmat(a):
    return clist(a.tolist(), lambda r: clist(r, cc))


def gen_case(rng):
    """Bit budget (denominator exponents): rho 2, H 0, c 1, dt 4 or 6, dW 3.
    Euler: step 1 -> 9, step 2 -> 22.  Platen (1 step): diffusion(V+-) 19-23,
    times the dW^2 terms -> < 40.  Milstein (1 step): L_i b_j is cubic in rho
    -> 8, times dW^2/2 -> 15.  PredCorr (1 step): b(euler state) -> 19-23,
    times dW/2 -> < 30.  With measurement input dW gains 4 bits."""
    dim = rng.choice([2, 2, 3])
    nsc = rng.choice([1, 1, 2])
    ncl = rng.choice([0, 0, 1])
    scheme = rng.choice(["euler", "euler", "platen", "milstein", "pred_corr"])
    meas = rng.random() < 0.35
    T = 2 if (scheme == "euler" and rng.random() < 0.5) else 1

    def gi(lo, hi):
        return complex(rng.randrange(lo, hi + 1), rng.randrange(lo, hi + 1))
    h = np.array([[gi(-2, 2) for _ in range(dim)] for _ in range(dim)])
    H = np.triu(h, 1) + np.triu(h, 1).conj().T + np.diag([float(rng.randrange(-2, 3)) for _ in range(dim)])
    scs = [np.array([[gi(-2, 2) / 2 for _ in range(dim)] for _ in range(dim)]) for _ in range(nsc)]
    cls_ = [np.array([[gi(-1, 1) / 2 for _ in range(dim)] for _ in range(dim)]) for _ in range(ncl)]
    # Hermitian, trace one, dyadic (quarters); positivity is irrelevant here
    r = np.array([[gi(-1, 1) / 4 for _ in range(dim)] for _ in range(dim)])
    rho = np.triu(r, 1) + np.triu(r, 1).conj().T
    d = [rng.randrange(0, 4) / 4 for _ in range(dim - 1)]
    d.append(1 - sum(d))
    rho = rho + np.diag(d)
    k = rng.choice([2, 2, 3])
    dt = Fraction(1, 4 ** k)
    sdt = Fraction(1, 2 ** k)
    if meas:
        noise = [[Fraction(rng.randrange(-12, 13), 4) for _ in range(nsc)] for _ in range(T)]
    else:
        noise = [[Fraction(rng.randrange(-6, 7), 8) for _ in range(nsc)] for _ in range(T)]
    alpha, eta = rng.choice([(0, Fraction(1, 2)), (Fraction(1, 2), Fraction(1, 2)),
                             (0, 1), (Fraction(1, 4), 0)])
    return {"dim": dim, "scheme": scheme, "meas": meas, "T": T, "H": H, "scs": scs,
            "cls": cls_, "rho": rho, "dt": dt, "sdt": sdt, "noise": noise,
            "alpha": Fraction(alpha), "eta": Fraction(eta)}


def describe(case):
    return {"dim": case["dim"], "scheme": case["scheme"], "meas": case["meas"], "T": case["T"],
            "H": str(case["H"].tolist()), "sc_ops": [str(c.tolist()) for c in case["scs"]],
            "c_ops": [str(c.tolist()) for c in case["cls"]], "rho0": str(case["rho"].tolist()),
            "dt": str(case["dt"]), "noise": [[str(x) for x in r] for r in case["noise"]],
            "alpha": str(case["alpha"]), "eta": str(case["eta"])}


def run_impl(case):
    import qutip
    from c17 import FakeGen
    H = qutip.Qobj(case["H"])
    scs = [qutip.Qobj(c) for c in case["scs"]]
    cls_ = [qutip.Qobj(c) for c in case["cls"]]
    dt = float(case["dt"])
    opts = {"method": case["scheme"], "dt": dt, "progress_bar": "", "store_states": True,
            "keep_runs_results": True, "store_measurement": "start"}
    if case["scheme"] == "pred_corr":
        opts["alpha"] = float(case["alpha"])
        opts["eta"] = float(case["eta"])
    s = qutip.SMESolver(H, scs, c_ops=cls_, heterodyne=False, options=opts)
    rho0 = qutip.Qobj(case["rho"])
    tlist = [k * dt for k in range(case["T"] + 1)]
    with warnings.catch_warnings():
        warnings.simplefilter("ignore")
        if case["meas"]:
            m = np.array([[float(x) for x in row] for row in case["noise"]]).T
            res = s.run_from_experiment(rho0, tlist, m, measurement=True)
        else:
            vals = [float(x) for row in case["noise"] for x in row]
            g = FakeGen(vals, 1.0)
            res = s.run(rho0, tlist, ntraj=1, seeds=[g]).trajectories[0]
    return res.states[-1].full()


def coq_expr(case):
    sch = {"euler": "SEuler", "platen": "SPlaten", "milstein": "SMilstein"}.get(case["scheme"])
    if sch is None:
        sch = "(SPredCorr %s %s)" % (cq(case["alpha"]), cq(case["eta"]))
    # PreSetWiener: noise *= dt for a measurement record
    dWs = [[x * case["dt"] if case["meas"] else x for x in row] for row in case["noise"]]
    return "mprint (sde_run %s %s %s %s %s %s %s %s %s)" % (
        sch, cbool(case["meas"]), cmat(case["H"]), clist(case["scs"], cmat),
        clist(case["cls"], cmat), cmat(case["rho"]), cq(case["dt"]), cq(case["sdt"]),
        clist(dWs, lambda r: clist(r, cq)))


def canon_impl(a):
    out = []
    for row in a:
        rr = []
        for z in row:
            fr, fi = Fraction(float(z.real)), Fraction(float(z.imag))
            rr.append(((fr.numerator, fr.denominator), (fi.numerator, fi.denominator)))
        out.append(rr)
    return out


def canon_model(v):
    # Coq prints ((a, b), (c, d)) as (a, b, (c, d))
    return [[((z[0], z[1]), tuple(z[2])) for z in row] for row in v]


def step_oracle(case, final):
    """The property on the real step: trace one and Hermitian, exactly."""
    a = np.array(final)
    bad = []
    if np.trace(a) != 1:
        bad.append(("trace", "trace of the state after the step is %r (exact dyadic input)"
                    % complex(np.trace(a))))
    if not np.array_equal(a, a.conj().T):
        bad.append(("hermiticity", "state after the step is not Hermitian (exact dyadic input)"))
    return bad


def correspondence(ctx, rng, dist):
    n = 60 if ctx.quick else 1500
    cases = [gen_case(rng) for _ in range(n)]
    impl = []
    kept = []
    for c in cases:
        try:
            impl.append(run_impl(c))
            kept.append(c)
        except Exception as e:
            ctx.violation("sode/_sode.pyx:%s.run" % c["scheme"], "raises:" + type(e).__name__,
                          "stepping the real solver raises %r on a valid input" % (e,),
                          {"case": describe(c), "kind": "sde", "error": repr(e)[:300]})
    cases = kept
    if not cases:
        return
    exprs = [coq_expr(c) for c in cases]
    try:
        vals = vlib.coq_eval_values("cases_C17_sde", HEADER, exprs, chunk=40)
    except RuntimeError as e:
        ctx.violation("corr:C17:sde-model-eval", "coqc", "scheme model evaluation failed",
                      {"log": str(e)}, found_input=False)
        return
    d = dist.setdefault("sde_scheme", {})
    for case, a, v in zip(cases, impl, vals):
        model = canon_model(vlib.parse_coq_value(v))
        im = canon_impl(a)
        tag = case["scheme"] + ("+meas" if case["meas"] else "")
        d[tag] = d.get(tag, 0) + 1
        ctx.count_case(("sde", repr(describe(case))), nontrivial=True)
        ctx.cov["traces_validated_against_impl"] += 1
        bad = step_oracle(case, a)
        if model != im:
            ctx.violation("corr:sode/_sode.pyx:%s.step" % case["scheme"],
                          bad[0][0] if bad else "model-differs",
                          "scheme model and implementation disagree on an exact step"
                          + ("; implementation violates: " + bad[0][1] if bad else ""),
                          {"case": describe(case), "impl": str(im), "model": str(model),
                           "kind": "sde"}, found_input=True)
        elif bad:
            ctx.violation("sode/_sode.pyx:%s.step" % case["scheme"], bad[0][0], bad[0][1],
                          {"case": describe(case), "impl": str(im), "kind": "sde"})
    ctx.sample({"sde_case": describe(cases[-1]), "impl_final_state": str(canon_impl(impl[-1]))})


# ------------------------------------------------ closed system (SSESolver)
def gen_sse_case(rng):
    """SSESolver, euler / platen, one step on exact dyadic data (kets need not
    be normalised).  Bit budget (denominator exponents): the drift term
    e^2 psi / 8 with e = <c + c^dag> is quintic in psi.
    Euler: psi 1, c 1 -> e 3, e^2 psi/8 10, times dt (6) 16.
    Platen evaluates the drift again at V_t: only basis kets, integer
    operators and dt = 2^-4 keep that below 2^45 (V_t 7, e(V_t) 14,
    e^2 V_t/8 38, times dt/2 43)."""
    dim = rng.choice([2, 2, 3])
    nsc = rng.choice([1, 1, 2])
    scheme = rng.choice(["euler", "platen"])
    meas = rng.random() < 0.3

    def gi(lo, hi):
        return complex(rng.randrange(lo, hi + 1), rng.randrange(lo, hi + 1))
    h = np.array([[gi(-2, 2) for _ in range(dim)] for _ in range(dim)])
    H = np.triu(h, 1) + np.triu(h, 1).conj().T + np.diag([float(rng.randrange(-2, 3)) for _ in range(dim)])
    if scheme == "platen":
        scs = [np.array([[gi(-1, 1) for _ in range(dim)] for _ in range(dim)]) for _ in range(nsc)]
        psi = np.zeros((dim, 1), dtype=complex)
        psi[rng.randrange(dim), 0] = 1
        k = 2
    else:
        scs = [np.array([[gi(-2, 2) / 2 for _ in range(dim)] for _ in range(dim)]) for _ in range(nsc)]
        psi = np.array([[gi(-2, 2) / 2] for _ in range(dim)])
        if not np.any(psi):
            psi[0, 0] = 1
        k = rng.choice([2, 2, 3])
    T = 1
    dt, sdt = Fraction(1, 4 ** k), Fraction(1, 2 ** k)
    if meas:
        noise = [[Fraction(rng.randrange(-12, 13), 4) for _ in range(nsc)] for _ in range(T)]
    else:
        noise = [[Fraction(rng.randrange(-6, 7), 8) for _ in range(nsc)] for _ in range(T)]
    return {"dim": dim, "scheme": scheme, "meas": meas, "T": T, "H": H, "scs": scs, "cls": [],
            "rho": psi, "dt": dt, "sdt": sdt, "noise": noise,
            "alpha": Fraction(0), "eta": Fraction(1, 2)}


def run_sse_impl(case):
    import qutip
    from c17 import FakeGen
    H = qutip.Qobj(case["H"])
    scs = [qutip.Qobj(c) for c in case["scs"]]
    dt = float(case["dt"])
    opts = {"method": case["scheme"], "dt": dt, "progress_bar": "", "store_states": True,
            "keep_runs_results": True, "store_measurement": "start"}
    s = qutip.SSESolver(H, scs, heterodyne=False, options=opts)
    psi0 = qutip.Qobj(case["rho"])
    tlist = [k * dt for k in range(case["T"] + 1)]
    with warnings.catch_warnings():
        warnings.simplefilter("ignore")
        if case["meas"]:
            m = np.array([[float(x) for x in row] for row in case["noise"]]).T
            res = s.run_from_experiment(psi0, tlist, m, measurement=True)
        else:
            vals = [float(x) for row in case["noise"] for x in row]
            res = s.run(psi0, tlist, ntraj=1, seeds=[FakeGen(vals, 1.0)]).trajectories[0]
    return res.states[-1].full()


def coq_sse_expr(case):
    sch = {"euler": "SEuler", "platen": "SPlaten"}[case["scheme"]]
    dWs = [[x * case["dt"] if case["meas"] else x for x in row] for row in case["noise"]]
    return "mprint (sse_run %s %s %s %s %s %s %s %s)" % (
        sch, cbool(case["meas"]), cmat(case["H"]), clist(case["scs"], cmat),
        cmat(case["rho"]), cq(case["dt"]), cq(case["sdt"]),
        clist(dWs, lambda r: clist(r, cq)))


# ------------------------------------------------------ Rouchon (SMESolver)
def gen_rouchon_case(rng):
    """One Rouchon step of SMESolver on dyadic data.  Everything up to
    out = M rho M^dag + sum c rho c^dag dt is exact (denominators < 2^40);
    the final `out / trace(out)` is the data layer's mul(out, 1/trace): two
    float operations that the harness repeats on the model's exact values."""
    c = gen_case(rng)
    c["scheme"] = "rouchon"
    c["meas"] = False
    c["T"] = 1
    c["noise"] = [[Fraction(rng.randrange(-6, 7), 8) for _ in range(len(c["scs"]))]]
    return c


def run_rouchon_impl(case):
    import qutip
    H = qutip.Qobj(case["H"])
    scs = [qutip.Qobj(c) for c in case["scs"]]
    cls_ = [qutip.Qobj(c) for c in case["cls"]]
    dt = float(case["dt"])
    s = qutip.SMESolver(H, scs, c_ops=cls_, heterodyne=False,
                        options={"method": "rouchon", "dt": dt, "progress_bar": "",
                                 "store_states": True})
    with warnings.catch_warnings():
        warnings.simplefilter("ignore")
        res = s.run_from_experiment(qutip.Qobj(case["rho"]), [0, dt],
                                    np.array([[float(x)] for x in case["noise"][0]]))
    return res.states[-1].full()


def coq_rouchon_expr(case):
    return "rouchon_obs %s %s %s %s %s %s" % (
        cmat(case["H"]), clist(case["scs"], cmat), clist(case["cls"], cmat),
        cmat(case["rho"]), cq(case["dt"]), clist(case["noise"][0], cq))


def rouchon_model_to_float(v):
    """(mprint out, cprint trace) -> the floats mul(out, 1/trace) produces."""
    out, tr = v
    def cx(z):
        return complex(Fraction(z[0], z[1]), Fraction(z[2][0], z[2][1]))
    t = cx(tr)
    if t == 0:
        return None
    inv = 1 / t
    return np.array([[cx(z) * inv for z in row] for row in out])


def correspondence_sys(ctx, rng, dist):
    n = 40 if ctx.quick else 800
    d = dist.setdefault("sde_scheme", {})
    # ---- closed system
    cases, impl = [], []
    for _ in range(n):
        c = gen_sse_case(rng)
        try:
            impl.append(run_sse_impl(c))
            cases.append(c)
        except Exception as e:
            ctx.violation("sode/ssystem.pyx:StochasticClosedSystem", "raises:" + type(e).__name__,
                          "stepping SSESolver raises %r on a valid input" % (e,),
                          {"case": describe(c), "kind": "sde"})
    rcases, rimpl = [], []
    for _ in range(n):
        c = gen_rouchon_case(rng)
        try:
            rimpl.append(run_rouchon_impl(c))
            rcases.append(c)
        except Exception as e:
            ctx.violation("sode/rouchon.py:RouchonSODE._step", "raises:" + type(e).__name__,
                          "a Rouchon step raises %r on a valid input" % (e,),
                          {"case": describe(c), "kind": "sde"})
    exprs = [coq_sse_expr(c) for c in cases] + [coq_rouchon_expr(c) for c in rcases]
    try:
        vals = vlib.coq_eval_values("cases_C17_sys", HEADER, exprs, chunk=40)
    except RuntimeError as e:
        ctx.violation("corr:C17:sys-model-eval", "coqc", "system model evaluation failed",
                      {"log": str(e)}, found_input=False)
        return
    for case, a, v in zip(cases, impl, vals):
        model = canon_model(vlib.parse_coq_value(v))
        im = canon_impl(a)
        tag = "sse:" + case["scheme"] + ("+meas" if case["meas"] else "")
        d[tag] = d.get(tag, 0) + 1
        ctx.count_case(("sse", repr(describe(case))), nontrivial=True)
        ctx.cov["traces_validated_against_impl"] += 1
        if model != im:
            ctx.violation("corr:sode/ssystem.pyx:StochasticClosedSystem:%s" % case["scheme"],
                          "model-differs",
                          "closed-system model and SSESolver disagree on an exact step",
                          {"case": describe(case), "impl": str(im), "model": str(model),
                           "kind": "sde"}, found_input=True)
    # the identity of C17_sse_norm_drift_vanishes on the real system object,
    # exactly (dyadic data): 2 Re <psi, a> + sum <b_c, b_c> == 0
    import qutip
    from qutip.solver.sode.ssystem import StochasticClosedSystem
    for case in cases:
        sysobj = StochasticClosedSystem(qutip.QobjEvo(qutip.Qobj(case["H"])),
                                        [qutip.QobjEvo(qutip.Qobj(c)) for c in case["scs"]])
        psi = qutip.Qobj(case["rho"]).data
        pa = np.array(psi.to_array())
        av = np.array(sysobj.drift(0., psi).to_array())
        bs = [np.array(x.to_array()) for x in sysobj.diffusion(0., psi)]
        val = 2 * np.vdot(pa, av).real + sum(np.vdot(b, b).real for b in bs)
        ctx.count_case(("sse-norm", repr(describe(case))), nontrivial=True)
        if val != 0.0:
            ctx.violation("sode/ssystem.pyx:StochasticClosedSystem", "norm-drift-nonzero",
                          "2 Re <psi, drift(psi)> + sum <b_c(psi), b_c(psi)> = %r on exact "
                          "dyadic data (must vanish: the norm is kept in the mean)" % val,
                          {"case": describe(case), "kind": "sde"})
    for case, a, v in zip(rcases, rimpl, vals[len(cases):]):
        pv = vlib.parse_coq_value(v)
        want = rouchon_model_to_float(pv)
        d["sme:rouchon"] = d.get("sme:rouchon", 0) + 1
        ctx.count_case(("rouchon", repr(describe(case))), nontrivial=True)
        ctx.cov["traces_validated_against_impl"] += 1
        bad = []
        if np.trace(a).imag != 0 or abs(np.trace(a).real - 1) > 1e-14:
            bad.append("trace of the normalised state is %r" % complex(np.trace(a)))
        if not np.array_equal(a, a.conj().T):
            bad.append("state after a Rouchon step is not Hermitian (exact dyadic input)")
        if want is None or not np.array_equal(want, a):
            ctx.violation("corr:sode/rouchon.py:RouchonSODE._step",
                          "model-differs",
                          "Rouchon model (M_dy rho M_dy^dag + sum c rho c^dag dt, then "
                          "mul(out, 1/trace)) and implementation disagree on an exact step"
                          + ("; " + bad[0] if bad else ""),
                          {"case": describe(case), "impl": str(a.tolist()),
                           "model": str(None if want is None else want.tolist()), "kind": "sde"},
                          found_input=True)
        elif bad:
            ctx.violation("sode/rouchon.py:RouchonSODE._step", "trace-or-hermiticity", bad[0],
                          {"case": describe(case), "impl": str(a.tolist()), "kind": "sde"})
    if cases:
        ctx.sample({"sse_case": describe(cases[-1]), "impl_final_state": str(canon_impl(impl[-1]))})


# ------------------------------------ term cache of StochasticOpenSystem
TERMS = ["Ta", "Tb", "TLb", "TLa", "TL0b", "TLLb", "TL0a", "Texpect"]
SITE_L0A = "sode/ssystem.pyx:StochasticOpenSystem._compute_L0a"


def _call_term(sysobj, tm):
    f = {"Ta": lambda: sysobj.a(), "Tb": lambda: sysobj.bi(0), "TLb": lambda: sysobj.Libj(0, 0),
         "TLa": lambda: sysobj.Lia(0), "TL0b": lambda: sysobj.L0bi(0),
         "TLLb": lambda: sysobj.LiLjbk(0, 0, 0), "TL0a": lambda: sysobj.L0a(),
         "Texpect": lambda: sysobj.expect_i(0)}[tm]
    v = f()
    return np.array(v.to_array()).copy() if hasattr(v, "to_array") else np.array([[complex(v)]])


def gen_cache_case(rng):
    dim = 2
    def gi(lo, hi):
        return complex(rng.randrange(lo, hi + 1), rng.randrange(lo, hi + 1))
    h = np.array([[gi(-2, 2) for _ in range(dim)] for _ in range(dim)])
    H = np.triu(h, 1) + np.triu(h, 1).conj().T + np.diag([1.0, -1.0])
    c = np.array([[gi(-2, 2) / 2 for _ in range(dim)] for _ in range(dim)])
    if not np.any(c - c[0, 0] * np.eye(dim)):
        c[0, 1] += 1
    ops = []
    nstates = 0
    states = []
    style = rng.choice(["stepper", "random", "random"])
    for _ in range(rng.choice([2, 3, 5])):
        nstates += 1
        r = np.array([[gi(-3, 3) / 4 for _ in range(dim)] for _ in range(dim)])
        rho = np.triu(r, 1) + np.triu(r, 1).conj().T + np.diag([0.25 * nstates, 1 - 0.25 * nstates])
        states.append(rho)
        ops.append(["set", nstates])
        if style == "stepper":
            prog = rng.choice([["Ta", "TL0a", "Tb", "TLb", "TLa", "TL0b", "TLLb"],
                               ["Ta", "Tb", "TLb", "TLa", "TL0b", "TLLb"],
                               ["Ta", "Texpect", "Tb", "TLb"], ["Texpect", "Ta", "Tb", "TLb"]])
        else:
            prog = [rng.choice(TERMS) for _ in range(rng.randrange(0, 6))]
        ops += [["get", tm] for tm in prog]
    return {"H": H, "c": c, "states": states, "ops": ops}


def run_cache_impl(case):
    import qutip
    from qutip.solver.sode.ssystem import StochasticOpenSystem
    H = qutip.QobjEvo(qutip.Qobj(case["H"]))
    c = qutip.QobjEvo(qutip.Qobj(case["c"]))

    def vec(a):
        return qutip.operator_to_vector(qutip.Qobj(a)).data
    # reference values: a fresh object per state, a() first
    ref = [None]
    for rho in case["states"]:
        f = StochasticOpenSystem(H, [c], [])
        f.set_state(0., vec(rho))
        ref.append({tm: _call_term(f, tm) for tm in ["Ta", "Tb", "TLb", "TLa", "TL0b", "TLLb",
                                                     "TL0a", "Texpect"]})
    sysobj = StochasticOpenSystem(H, [c], [])
    prov = []
    cur = 0
    for op in case["ops"]:
        if op[0] == "set":
            cur = op[1]
            sysobj.set_state(0., vec(case["states"][cur - 1]))
            prov.append(None)
        else:
            v = _call_term(sysobj, op[1])
            hits = [j for j in range(1, len(ref)) if np.array_equal(v, ref[j][op[1]])]
            if not hits and not np.any(v):
                hits = [0]
            # (two states may give the same value, e.g. the same expectation:
            # then the current state is taken if it is among the candidates)
            prov.append(cur if cur in hits else (hits[0] if hits else -1))
    return prov


def coq_cache_expr(case):
    return "snd (c_run cache0 %s)" % clist(
        case["ops"], lambda o: "SetState %s" % cnat(o[1]) if o[0] == "set" else "Get %s" % o[1])


def correspondence_cache(ctx, rng, dist):
    """Which (t, state) each term returned by the real StochasticOpenSystem
    was computed from (found by bitwise comparison with fresh objects), versus
    the cache model; and the property itself: every term read after set_state
    belongs to the state just set."""
    n = 60 if ctx.quick else 800
    cases = [gen_cache_case(rng) for _ in range(n)]
    impl = []
    kept = []
    for c in cases:
        try:
            impl.append(run_cache_impl(c))
            kept.append(c)
        except Exception as e:
            ctx.violation("sode/ssystem.pyx:StochasticOpenSystem", "raises:" + type(e).__name__,
                          "accessor sequence raises %r" % (e,), {"ops": c["ops"], "kind": "cache"})
    cases = kept
    try:
        vals = vlib.coq_eval_values("cases_C17_cache", HEADER, [coq_cache_expr(c) for c in cases],
                                    chunk=200)
    except RuntimeError as e:
        ctx.violation("corr:C17:cache-model-eval", "coqc", "cache model evaluation failed",
                      {"log": str(e)}, found_input=False)
        return
    d = dist.setdefault("cache_ops", {"cases": 0, "gets": 0})
    for case, prov, v in zip(cases, impl, vals):
        mv = vlib.parse_coq_value(v)
        model = []
        for op, x in zip(case["ops"], mv):
            if x is None:
                model.append(None)
            else:
                k, k2 = x[1]
                model.append(k2 if op[1] == "TL0a" else k)
        d["cases"] += 1
        d["gets"] += sum(1 for o in case["ops"] if o[0] == "get")
        ctx.count_case(("cache", repr(case["ops"]), str(case["c"].tolist())),
                       nontrivial=len(case["ops"]) >= 4)
        ctx.cov["traces_validated_against_impl"] += 1
        # the property: provenance == index of the last set_state
        cur, stale = 0, None
        for i, (op, pv) in enumerate(zip(case["ops"], prov)):
            if op[0] == "set":
                cur = op[1]
            elif pv != cur and stale is None:
                stale = (i, op[1], pv, cur)
        detail = {"kind": "cache", "H": str(case["H"].tolist()), "c": str(case["c"].tolist()),
                  "states": [str(x.tolist()) for x in case["states"]], "ops": case["ops"],
                  "impl_provenance": prov, "model_provenance": model}
        if model != prov:
            ctx.violation("corr:sode/ssystem.pyx:StochasticOpenSystem.cache", "model-differs",
                          "cache model and implementation disagree on which state a term was "
                          "computed from" + ("; op %d (%s) was computed from state %d, current "
                                             "is %d" % stale if stale else ""),
                          detail, found_input=stale is not None)
        elif stale is not None:
            sig = "L0a-before-a-uses-stale-drift" if stale[1] == "TL0a" else "stale-" + stale[1]
            ctx.violation(SITE_L0A if stale[1] == "TL0a" else
                          "sode/ssystem.pyx:StochasticOpenSystem.set_state", sig,
                          "after set_state, accessor %s (op %d) returns a value computed from "
                          "state %d instead of the current state %d" % (stale[1], stale[0],
                                                                        stale[2], stale[3]),
                          detail)
