#!/bin/sh
# tools/mk_scratch.sh <dir> : scratch git worktree of /repo with the built
# extension modules copied in, for trying a patch without touching /repo.
#   VERIF_REPO=<dir> ./check Cxx --tier quick
# remove with: git -C /repo worktree remove --force <dir>
set -e
D="$1"
[ -n "$D" ] || { echo "usage: mk_scratch.sh <dir>"; exit 2; }
git -C /repo worktree add --detach "$D" HEAD >/dev/null 2>&1
cd /repo
# generated C++ and shared objects are git-ignored: copy them *after* the
# checkout so that they are newer than the .pyx files (no rebuild needed)
find qutip -name '*.so' -o -name '*.cpp' | while read f; do cp "$f" "$D/$f"; done
mkdir -p "$D/build" && cp -r build/. "$D/build/" 2>/dev/null || true
echo "scratch tree at $D"
