"""C19 helpers that touch the real qutip HEOM implementation (tree under test)
and the independent NumPy reference used by the implementation-level oracle.

Everything here uses exact data: Gaussian-integer matrices and coefficients,
so every floating point operation performed by qutip is exact and results are
compared with ==, never with a tolerance.

A *spec* (JSON-serialisable) describes one solver construction:
  {"n": system dimension,
   "H": [[ [re,im], ...], ...]   Gaussian-integer Hermitian matrix,
   "Qs": [matrix, ...]           coupling operators (referenced by index),
   "exps": [ {"t": "R"|"I"|"RI"|"+"|"-", "ck": [re,im], "vk": [re,im],
              "ck2": [re,im]|None, "q": index into Qs, "dim": int|None,
              "off": int|None}, ... ],
   "depth": int, "odd": bool}
"""
import itertools
import math

import numpy as np


# ------------------------------------------------------------------ helpers
def g2c(g):
    return complex(g[0], g[1])


def mat(m):
    return np.array([[complex(x[0], x[1]) for x in row] for row in m],
                    dtype=complex)


def is_gauss(a):
    a = np.asarray(a)
    return bool(np.all(a.real == np.round(a.real))
                and np.all(a.imag == np.round(a.imag)))


def to_gint(a):
    """complex ndarray with Gaussian-integer entries -> nested [re, im] ints"""
    a = np.asarray(a)
    assert is_gauss(a), "non-integer entry"
    if a.ndim == 1:
        return [[int(x.real), int(x.imag)] for x in a]
    return [[[int(x.real), int(x.imag)] for x in row] for row in a]


def canon_err(e):
    return type(e).__name__


# ------------------------------------------------------ real implementation
def make_exponents(spec):
    import qutip
    from qutip.solver.heom.bofin_baths import BathExponent
    Qs = [qutip.Qobj(mat(q)) for q in spec["Qs"]]
    exps = []
    for e in spec["exps"]:
        exps.append(BathExponent(
            e["t"], e["dim"], Qs[e["q"]], g2c(e["ck"]), g2c(e["vk"]),
            ck2=None if e["ck2"] is None else g2c(e["ck2"]),
            sigma_bar_k_offset=e["off"]))
    return exps


def make_solver(spec, partition=None, options=None):
    """partition: list of lists of exponent positions -> one Bath per part
    (concatenated in the given order); default one Bath with all exponents."""
    import qutip
    from qutip.solver.heom.bofin_solvers import HEOMSolver
    from qutip.solver.heom.bofin_baths import Bath
    exps = make_exponents(spec)
    H = qutip.Qobj(mat(spec["H"]))
    if partition is None:
        baths = Bath(exps)
    else:
        baths = [Bath([exps[i] for i in part]) for part in partition]
    return HEOMSolver(H, baths, spec["depth"], odd_parity=spec["odd"],
                      options=options)


def real_generator(spec, partition=None):
    s = make_solver(spec, partition)
    return s, s.rhs(0).full()


def real_blocks(spec):
    """The list handed to _from_csr_blocks by the real HEOMSolver._rhs:
    [(row, col, dense block)] in the order produced by _GatherHEOMRHS.gather
    (after its sort), recorded by wrapping _csr._from_csr_blocks."""
    import qutip.solver.heom.bofin_solvers as bs
    rec = {}
    real = bs._csr._from_csr_blocks

    def spy(rows, cols, ops, n_blocks, block_size):
        rec["rows"] = [int(x) for x in rows]
        rec["cols"] = [int(x) for x in cols]
        rec["ops"] = [op.to_array() for op in ops]
        rec["n_blocks"] = int(n_blocks)
        rec["block"] = int(block_size)
        return real(rows, cols, ops, n_blocks, block_size)

    class Proxy:
        def __getattr__(self, name):
            if name == "_from_csr_blocks":
                return spy
            return getattr(real_mod, name)

    real_mod = bs._csr
    bs._csr = Proxy()
    try:
        s = make_solver(spec)
    finally:
        bs._csr = real_mod
    return s, rec


# ------------------------------------------------------ independent reference
def ref_dims(spec):
    D = spec["depth"]
    return [e["dim"] if e["dim"] else D + 1 for e in spec["exps"]]


def ref_labels(dims, depth):
    """all multi-indices n with n_k < dims_k and sum n <= depth,
    lexicographic order (brute force over the full product)."""
    return [n for n in itertools.product(*(range(d) for d in dims))
            if sum(n) <= depth]


def spre(A):
    return np.kron(np.eye(A.shape[0]), A)


def spost(A):
    return np.kron(A.T, np.eye(A.shape[0]))


def ref_generator(spec):
    """HEOM generator from the published equations of motion (bosonic:
    Tanimura/Kubo with real/imaginary expansion; fermionic: Lambert et al.
    BoFiN paper eq. for parity p), written label-pair by label-pair on dense
    integer matrices; column-stacking convention."""
    n = spec["n"]
    H = mat(spec["H"])
    Qs = [mat(q) for q in spec["Qs"]]
    exps = spec["exps"]
    D = spec["depth"]
    p = 1 if spec["odd"] else 0
    dims = ref_dims(spec)
    labels = ref_labels(dims, D)
    pos = {l: i for i, l in enumerate(labels)}
    N = n * n
    G = np.zeros((N * len(labels), N * len(labels)), dtype=complex)
    L = -1j * (spre(H) - spost(H))
    Id = np.eye(N)
    ferm = [e["t"] in "+-" for e in exps]

    def put(a, b, M):
        G[a * N:(a + 1) * N, b * N:(b + 1) * N] += M

    for lab in labels:
        a = pos[lab]
        put(a, a, L - sum(lab[k] * g2c(exps[k]["vk"])
                          for k in range(len(exps))) * Id)
        nf = sum(lab[k] for k in range(len(exps)) if ferm[k])
        for k, e in enumerate(exps):
            Q = Qs[e["q"]]
            up = lab[:k] + (lab[k] + 1,) + lab[k + 1:]
            dn = lab[:k] + (lab[k] - 1,) + lab[k + 1:]
            nbefore = sum(lab[j] for j in range(k) if ferm[j])
            if not ferm[k]:
                comm = spre(Q) - spost(Q)
                anti = spre(Q) + spost(Q)
                if up in pos:
                    put(a, pos[up], -1j * comm)
                if dn in pos:
                    c = g2c(e["ck"])
                    if e["t"] == "R":
                        put(a, pos[dn], -1j * lab[k] * c * comm)
                    elif e["t"] == "I":
                        put(a, pos[dn], lab[k] * c * anti)
                    else:
                        c2 = g2c(e["ck2"])
                        put(a, pos[dn], lab[k] * (-1j * c * comm + c2 * anti))
            else:
                # parity of the ADO the operator acts on: (-1)^(nf + p)
                s_tot = -1 if (nf + 1 - p) % 2 else 1
                s_bef = -1 if (nbefore + p) % 2 else 1
                Qd = Q.conj().T
                if up in pos:
                    A = Q if e["t"] == "+" else Qd
                    put(a, pos[up], -1j * s_bef * (spre(A) + s_tot * spost(A)))
                if dn in pos:
                    A = Qd if e["t"] == "+" else Q
                    c = g2c(e["ck"])
                    cbar = np.conj(g2c(exps[k + e["off"]]["ck"]))
                    put(a, pos[dn], -1j * s_bef * (c * spre(A)
                                                  - s_tot * cbar * spost(A)))
    return labels, G


def trace_functional(n, nlabels):
    """row vector t with t . vec(hierarchy) = tr(rho_0)"""
    t = np.zeros(n * n * nlabels, dtype=complex)
    t[:n * n] = np.eye(n).ravel("F")
    return t


def label_perm_matrix(labels_from, labels_to, pi, N):
    """P with (P x)_{to-label m} = x_{from-label n} where m = n o pi, i.e.
    m[j] = n[pi[j]] (exponent j of the permuted list is exponent pi[j] of the
    original)."""
    pos_to = {l: i for i, l in enumerate(labels_to)}
    P = np.zeros((N * len(labels_to), N * len(labels_from)))
    for i, nlab in enumerate(labels_from):
        m = tuple(nlab[pi[j]] for j in range(len(pi)))
        j = pos_to[m]
        P[j * N:(j + 1) * N, i * N:(i + 1) * N] = np.eye(N)
    return P


def merge_matrix(labels_from, labels_to, groups, N):
    """T with (T x)_m = sum over n with sum_{k in g} n_k = m_g of
    prod_g multinomial(m_g; n_k, k in g) x_n  (groups: list of lists of
    positions of the un-merged exponent list, in merged order)."""
    pos_to = {l: i for i, l in enumerate(labels_to)}
    T = np.zeros((N * len(labels_to), N * len(labels_from)))
    for i, nlab in enumerate(labels_from):
        m = tuple(sum(nlab[k] for k in g) for g in groups)
        w = 1
        for g in groups:
            tot = sum(nlab[k] for k in g)
            w *= math.factorial(tot)
            for k in g:
                w //= math.factorial(nlab[k])
        j = pos_to[m]
        P = np.eye(N) * w
        T[j * N:(j + 1) * N, i * N:(i + 1) * N] = P
    return T
