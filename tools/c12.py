"""C12 - result objects report exactly what was computed, aligned with the
time list.

Ties to the source, all re-run on every check:
  K1  the real Result / HEOMResult / FloquetResult / StochasticTrajResult
      classes are driven through generated `add` histories with integer-tagged
      stand-in states and tag-returning expectation operations; everything
      observable is compared exactly with the Coq model (x_script).
  K2  the real Solver.run / FMESolver.run / MultiTrajSolver._run_one_traj /
      StochasticSolver._integrate_one_traj / Integrator.run code is executed
      with a scripted integrator and compared exactly with x_run.
  O   (implementation-level oracle, always run) the real solvers on 2-level
      systems over the product options x e_ops forms; the property itself is
      checked on the returned objects with exact comparisons (bit-identical
      recomputation, digests of the states seen by callback e_ops), and the
      structure (keys, lengths, availability) is compared with the model.
"""
import hashlib
import itertools
import json
import os
import random

import vlib
from vlib import cz, cnat, cbool, clist, copt

HEADER = ("From Coq Require Import List ZArith Bool.\nImport ListNotations.\n"
          "From QV Require Import Model.C12.\nOpen Scope Z_scope.\n")

CLS = ["CResult", "CHeom", "CFloquet", "CStoch"]
KINDS = {"Q": "OQobj", "E": "OQobjEvo", "C": "OCall", "B": "OBad"}


# ------------------------------------------------------------- Coq literals
def c_op(o):
    return "{| o_kind := %s; o_id := %s |}" % (KINDS[o[0]], cz(o[1]))


def c_key(k):
    return "KInt %d%%nat" % k if isinstance(k, int) else "KUser %s" % cz(int(k[1:]))


def c_eops(e):
    f, v = e
    if f == "none":
        return "ENone"
    if f == "single":
        return "(ESingle %s)" % c_op(v)
    if f in ("list", "tuple"):
        return "(EList %s)" % clist(v, c_op)
    return "(EDict %s)" % clist(v, lambda kv: "(%s, %s)" % (c_key(kv[0]), c_op(kv[1])))


def c_opts(o):
    return ("{| store_states := %s; store_final_state := %s; store_ados := %s; "
            "store_floquet_states := %s; store_measurement := %s |}" % (
                copt(o["store_states"], cbool), cbool(o["store_final_state"]),
                cbool(o["store_ados"]), cbool(o["store_floquet_states"]),
                cbool(bool(o["store_measurement"]))))


def c_pts(pts):
    return clist(pts, lambda p: "(%s, %s, %s)" % (cz(p[0]), cz(p[1]), copt(p[2], cz)))


def canon_coq(v):
    """parsed Coq value -> nested lists/tuples of plain data (JSON-like)."""
    if isinstance(v, tuple):
        return tuple(canon_coq(x) for x in v)
    if isinstance(v, list):
        return [canon_coq(x) for x in v]
    return v


# ------------------------------------------------- stand-ins for K1 and K2
class St:
    """integer-tagged stand-in for a state (Qobj / HierarchyADOsState)."""
    def __init__(self, tag, copied=False):
        self.tag = tag
        self.copied = copied

    def copy(self):
        return St(self.tag, True)

    @property
    def rho(self):                      # HierarchyADOsState.rho
        return St(self.tag + 1000, self.copied)

    def __mul__(self, other):           # (ado_state.rho * e_op).tr()
        return _Prod(self, other)


class _Prod:
    def __init__(self, st, op):
        self.st, self.op = st, op

    def tr(self):
        return ("XQ", _OPID[id(self.op)], self.st.tag)


class Dat:
    """raw integrator data"""
    def __init__(self, tag):
        self.tag = tag


_OPID = {}
_KEEP = []


def _fake_expect(op, state):
    return ("XQ", _OPID[id(op)], state.tag)


def make_op(o):
    import qutip
    kind, i = o
    if kind == "Q":
        q = qutip.sigmaz()
        _OPID[id(q)] = i
        _KEEP.append(q)
        return q
    if kind == "E":
        class FakeEvo(qutip.QobjEvo):
            def expect(self, t, state, check_real=True):
                return ("XE", self._c12_id, int(t), state.tag)
        q = FakeEvo(qutip.sigmaz())
        q._c12_id = i
        return q
    if kind == "C":
        return lambda t, state, i=i: ("XC", i, int(t), state.tag)
    return 1000 + i                     # not callable: unsupported


def make_eops(e):
    f, v = e
    if f == "none":
        return None
    if f == "single":
        return make_op(v)
    if f == "list":
        return [make_op(o) for o in v]
    if f == "tuple":
        return tuple(make_op(o) for o in v)
    return {k: make_op(o) for k, o in v}


class FakeBasis:
    def from_floquet_basis(self, state, t):
        return St(5000 + 100 * state.tag + int(t), state.copied)


def py_options(o):
    d = dict(o)
    d["progress_bar"] = ""
    d["progress_kwargs"] = {}
    d["bitgenerator"] = None
    return d


def new_real(cls, o, e, mops):
    from qutip.solver.result import Result
    from qutip.solver.heom.bofin_solvers import HEOMResult
    from qutip.solver.floquet import FloquetResult
    from qutip.solver.stochastic import StochasticTrajResult
    eo = make_eops(e)
    opt = py_options(o)
    if cls == "CResult":
        return Result(eo, opt)
    if cls == "CHeom":
        return HEOMResult(eo, opt)
    if cls == "CFloquet":
        return FloquetResult(eo, opt, floquet_basis=FakeBasis())
    import numpy as np
    return StochasticTrajResult(eo, opt, m_ops=[make_op(m) for m in mops],
                                dw_factor=np.ones(len(mops)), heterodyne=False)


def tagof(x):
    return x.tag


def observe_real(cls, o, r):
    """everything the model's x_observe reports, read from the real object."""
    def key(k):
        return ("KInt", k) if isinstance(k, int) else ("KUser", int(k[1:]))
    times = [int(t) for t in r.times]
    edata = [(key(k), [tuple(v) for v in vs]) for k, vs in r.e_data.items()]
    states = [tagof(s) for s in r.states]
    fs = r.final_state
    final = None if fs is None else ("Some", tagof(fs))
    if hasattr(r, "ado_states"):
        ado = ("Obj", [tagof(s) for s in r.ado_states])
    else:
        ado = "NoAttr"
    try:
        fa = r.final_ado_state
        fado = "PyNone" if fa is None else ("Obj", tagof(fa))
    except AttributeError:
        fado = "NoAttr"
    if cls == "CFloquet":
        flo = "PyNone" if r.floquet_states is None else ("Obj", [tagof(s) for s in r.floquet_states])
    else:
        flo = "NoAttr" if not hasattr(r, "floquet_states") else "?"
    if cls == "CStoch":
        noise = [int(n) for n in r.noise]
        if o["store_measurement"]:
            mexp = [[tuple(v) for v in row] for row in r.m_expect]
            mcols = ("Obj", ([max(len(row) - 1, 0) for row in r.m_expect], len(r.noise),
                             max(len(r.times) - 1, 0)))
        else:
            mexp = []
            mcols = "PyNone" if r.measurement is None else "?"
    else:
        noise, mexp = [], []
        mcols = "NoAttr" if not hasattr(r, "measurement") else "?"
    extra = {
        # beyond x_observe: cross-consistency of the public views
        # np.array of tag tuples stringifies the entries
        "expect": [[tuple(str(x) for x in v) for v in a.tolist()] for a in r.expect],
        "eops_keys": [key(k) for k in r.e_ops],
    }
    return (times, edata, states, final, (ado, fado, flo), (noise, mexp, mcols),
            bool(r._state_processors_require_copy)), extra


def run_script_real(case):
    """K1: construct the real class and replay an add history."""
    import qutip.solver.result as R
    cls, o, e, mops, pts = case["cls"], case["opts"], case["eops"], case["mops"], case["pts"]
    saved = R.expect
    R.expect = _fake_expect
    try:
        try:
            r = new_real(cls, o, e, mops)
        except TypeError:
            return ("Raise", "TypeError"), None
        for t, s, n in pts:
            if cls == "CStoch":
                r.add(t, St(s), n)
            else:
                r.add(t, St(s))
        obs, extra = observe_real(cls, o, r)
        # a stored state is a copy of what was handed over (never for HEOM,
        # whose _pre_copy is the identity)
        kept = list(r.states) + ([r._final_state] if r._final_state is not None else [])
        extra["kept_are_copies"] = all(s.copied for s in kept) if kept else None
        return ("Ok", obs), extra
    finally:
        R.expect = saved


def run_solver_real(case):
    """K2: the real run skeletons with a scripted integrator."""
    import qutip.solver.result as R
    from qutip.solver.solver_base import Solver
    from qutip.solver.integrator.integrator import Integrator
    from qutip.solver.multitraj import MultiTrajSolver
    from qutip.solver.stochastic import StochasticSolver, StochasticTrajResult
    from qutip.solver.floquet import FMESolver, FloquetResult
    from qutip.solver.heom.bofin_solvers import HEOMResult
    from qutip.solver.result import Result
    import numpy as np
    cls, o, e, mops = case["cls"], case["opts"], case["eops"], case["mops"]
    tlist, outs, s0 = case["tlist"], case["outs"], case["s0"]

    class FakeInteg(Integrator):
        def __init__(self):
            self.outs = list(outs)
            self.sets = []

        def set_state(self, t, d, *a, **kw):
            self.sets.append((t, d.tag))

        def integrate(self, t, copy=True):
            if self.outs:
                t2, d, n = self.outs.pop(0)
            else:
                t2, d, n = t, 0, None
            if cls == "CStoch":
                return t2, Dat(d), n
            return t2, Dat(d)

    opt = py_options(o)
    built_mops = [make_op(m) for m in mops] if cls == "CStoch" else []

    class Fake:
        name = "fake"
        options = opt
        _options = opt
        floquet_basis = FakeBasis()
        _resultclass = {"CResult": Result, "CHeom": HEOMResult,
                        "CFloquet": FloquetResult}.get(cls, Result)

        def __init__(self):
            self._integrator = FakeInteg()

        def _prepare_state(self, s):
            return Dat(s.tag + 1)

        def _restore_state(self, d, copy=True):
            return St(2 * d.tag)

        def _argument(self, args):
            pass

        def _initialize_stats(self):
            return {"preparation time": 0.0, "run time": 0.0}

        def _get_generator(self, seed):
            return None

        def _trajectory_resultclass(self, e_ops, options):
            return StochasticTrajResult(e_ops, options, m_ops=built_mops,
                                        dw_factor=np.ones(len(built_mops)),
                                        heterodyne=False)
        _initialize_run_one_traj = MultiTrajSolver._initialize_run_one_traj
        _run_one_traj = MultiTrajSolver._run_one_traj
        _integrate_one_traj = StochasticSolver._integrate_one_traj

    saved = R.expect
    R.expect = _fake_expect
    try:
        fake = Fake()
        eo = make_eops(e)
        try:
            if cls == "CStoch":
                _, r, w = fake._run_one_traj(None, fake._prepare_state(St(s0)), tlist, eo)
            elif cls == "CFloquet":
                r = FMESolver.run(fake, St(s0), tlist, floquet=True, e_ops=eo)
            else:
                r = Solver.run(fake, St(s0), tlist, e_ops=eo)
        except TypeError:
            return ("Raise", "TypeError"), None
        except IndexError:
            return ("Raise", "IndexError"), None
        obs, extra = observe_real(cls, o, r)
        extra["set_state"] = fake._integrator.sets
        return ("Ok", obs), extra
    finally:
        R.expect = saved


# ---------------------------------------------------------------- generators
def gen_opts(rng):
    return {"store_states": rng.choice([None, True, False]),
            "store_final_state": rng.random() < 0.5,
            "store_ados": rng.random() < 0.5,
            "store_floquet_states": rng.random() < 0.5,
            "store_measurement": rng.choice(["", "start", "middle", "end", True, False])}


def gen_op(rng, bad=0.0):
    if rng.random() < bad:
        return ("B", rng.randrange(0, 9))
    return (rng.choice("QEC"), rng.randrange(0, 50))


def gen_eops(rng, bad=0.0):
    f = rng.choice(["none", "single", "list", "list", "tuple", "dict", "dict"])
    if f == "none":
        return (f, None)
    if f == "single":
        return (f, gen_op(rng, bad))
    n = rng.choice([0, 1, 2, 3, 5])
    if f in ("list", "tuple"):
        return (f, [gen_op(rng, bad) for _ in range(n)])
    keys = []
    while len(keys) < n:
        k = rng.choice([rng.randrange(0, 6), "u%d" % rng.randrange(0, 20)])
        if k not in keys:
            keys.append(k)
    return (f, [(k, gen_op(rng, bad)) for k in keys])


def gen_script_case(rng):
    cls = rng.choice(CLS)
    bad = 0.15 if rng.random() < 0.12 else 0.0          # malformed stream
    n = rng.choice([0, 1, 2, 3, 4, 7])
    pts = []
    for k in range(n):
        noise = None
        if cls == "CStoch" and not (k == 0 and rng.random() < 0.8) and rng.random() < 0.9:
            noise = rng.randrange(-9, 99)
        pts.append((rng.randrange(-3, 40), rng.randrange(0, 90), noise))
    return {"kind": "script", "cls": cls, "opts": gen_opts(rng), "eops": gen_eops(rng, bad),
            "mops": [gen_op(rng, bad) for _ in range(rng.choice([0, 1, 2]))]
                    if cls == "CStoch" else [],
            "pts": pts, "malformed": bad > 0}


def gen_solver_case(rng):
    cls = rng.choice(CLS)
    bad = 0.15 if rng.random() < 0.1 else 0.0
    n = rng.choice([0, 1, 2, 3, 5])
    tlist = sorted(rng.sample(range(0, 30), n))
    outs = []
    for t in tlist[1:]:
        t2 = t if rng.random() < 0.9 else t + 100      # integrator reporting another time
        outs.append((t2, rng.randrange(0, 40),
                     rng.randrange(0, 99) if cls == "CStoch" else None))
    return {"kind": "solver", "cls": cls, "opts": gen_opts(rng), "eops": gen_eops(rng, bad),
            "mops": [gen_op(rng, bad) for _ in range(rng.choice([0, 1, 2]))]
                    if cls == "CStoch" else [],
            "tlist": tlist, "outs": outs, "s0": rng.randrange(0, 20), "malformed": bad > 0}


def model_expr(case):
    if case["kind"] == "script":
        return "x_script %s %s %s %s %s" % (
            case["cls"], c_opts(case["opts"]), c_eops(case["eops"]),
            clist(case["mops"], c_op), c_pts(case["pts"]))
    return "x_run %s %s %s %s %s %s %s" % (
        case["cls"], c_opts(case["opts"]), c_eops(case["eops"]),
        clist(case["mops"], c_op), cz(case["s0"]), clist(case["tlist"], cz),
        c_pts(case["outs"]))


def canon_model(s):
    v = vlib.parse_coq_value(s)
    if isinstance(v, tuple) and v[0] == "Raise":
        return ("Raise", v[1])
    assert v[0] == "Ok", v
    return ("Ok", canon_coq(v[1]))


def canon_real(obs):
    if obs[0] == "Raise":
        return obs
    return ("Ok", _tuplify(obs[1]))


def _tuplify(x):
    if isinstance(x, tuple):
        return tuple(_tuplify(y) for y in x)
    if isinstance(x, list):
        return [_tuplify(y) for y in x]
    return x


def class_oracle(case, obs, extra):
    """The property itself on a driven object (independent of the model):
    returns a list of (signature, message)."""
    bad = []
    if obs[0] != "Ok":
        return bad
    times, edata, states, final, (ado, fado, flo), (noise, mexp, mcols), cp = obs[1]
    cls, o = case["cls"], case["opts"]
    if case["kind"] == "script":
        pts = [(t, s) for t, s, _ in case["pts"]]
    else:
        if not case["tlist"]:
            return bad
        pts = [(case["tlist"][0], 2 * (case["s0"] + 1))] + [
            (t, 2 * d) for t, d, _ in case["outs"]]
    n = len(pts)
    seen = [(t, 5000 + 100 * s + t) if cls == "CFloquet" else (t, s) for t, s in pts]
    kept = [s + 1000 if cls == "CHeom" else s for _, s in seen]
    if times != [t for t, _ in pts]:
        bad.append(("times", "times differ from the added times"))
    f, v = case["eops"]
    ops = ([] if f == "none" else [v] if f == "single" else
           list(v) if f in ("list", "tuple") else [x[1] for x in v])
    keys = ([] if f == "none" else [0] if f == "single" else
            list(range(len(v))) if f in ("list", "tuple") else [x[0] for x in v])
    want_keys = [("KInt", k) if isinstance(k, int) else ("KUser", int(k[1:])) for k in keys]
    if [k for k, _ in edata] != want_keys or extra["eops_keys"] != want_keys:
        bad.append(("keys", "e_data / e_ops keys are not the documented ones"))
    for (k, vs), op in zip(edata, ops):
        want = []
        for t, s in seen:
            if op[0] == "Q":
                want.append(("XQ", op[1], s + 1000 if cls == "CHeom" else s))
            elif op[0] == "E":
                want.append(("XE", op[1], t, s + 1000 if cls == "CHeom" else s))
            else:
                want.append(("XC", op[1], t, s))
        if [tuple(x) for x in vs] != want:
            bad.append(("expect-entry", "e_data[%r] is not op(t_k, state_k) for every k" % (k,)))
    if extra["expect"] != [[tuple(str(y) for y in x) for x in vs] for _, vs in edata]:
        bad.append(("expect-view", "expect is not list(e_data.values())"))
    st = o["store_states"] is True or (o["store_states"] is None and not ops)
    if states != (kept if st else []):
        bad.append(("states", "states stored although not requested, or not stored/aligned"))
    want_final = ("Some", kept[-1]) if (n and (st or o["store_final_state"])) else None
    if final != want_final:
        bad.append(("final_state", "final_state is not (requested or stored) last state"))
    if cls == "CHeom":
        if o["store_ados"]:
            if ado != ("Obj", [s for _, s in pts] if st else []):
                bad.append(("ado_states", "ado_states are not the ADO states of each add"))
            want = ("Obj", pts[-1][1]) if (n and (st or o["store_final_state"])) else "PyNone"
            if fado != want:
                bad.append(("final_ado_state", "final_ado_state is not the last ADO state"))
        elif ado != "NoAttr" or fado != "NoAttr":
            bad.append(("ado-attr", "ADO attributes exist without store_ados"))
    if cls == "CFloquet":
        want = ("Obj", [s for _, s in pts]) if o["store_floquet_states"] else "PyNone"
        if flo != want:
            bad.append(("floquet_states", "floquet_states are not the raw states"))
    if extra.get("kept_are_copies") is False and cls != "CHeom":
        bad.append(("copy", "a stored state is the object handed to add, not a copy"))
    return bad


SITE = {"final_ado_state": "heom.HEOMResult.final_ado_state"}


def report_class_violation(ctx, case, sig, msg, obs):
    site = SITE.get(sig, "result.Result:" + sig)
    signature = sig
    if sig == "final_ado_state":
        # stable description of the branch
        o = case["opts"]
        f, v = case["eops"]
        nops = 0 if f == "none" else 1 if f == "single" else len(v)
        st = o["store_states"] is True or (o["store_states"] is None and nops == 0)
        fado = obs[1][4][1]
        if case["kind"] == "script":
            last = case["pts"][-1][1] if case["pts"] else None
        else:
            last = (2 * case["outs"][-1][1] if case["outs"] else 2 * (case["s0"] + 1))
        if (o["store_ados"] and o["store_final_state"] and not st and last is not None
                and fado == ("Obj", last + 1000)):
            signature = "returns-system-state-when-final-only"
    ctx.violation(site, signature, msg, {"case": case, "observed": obs})


# ---------------------------------------------------------------------- run
def correspondence(ctx, rng):
    nscript = 350 if ctx.quick else 4000
    nsolver = 250 if ctx.quick else 3000
    cases = []
    cdir = os.path.join(vlib.VERIF, "corpus", "C12")
    if os.path.isdir(cdir):
        for fn in sorted(os.listdir(cdir)):
            cases.append(json.load(open(os.path.join(cdir, fn))))
    cases += [gen_script_case(rng) for _ in range(nscript)]
    cases += [gen_solver_case(rng) for _ in range(nsolver)]
    for c in cases:                      # JSON round trip form (tuples -> lists)
        c["eops"] = _norm_eops(c["eops"])
    real = []
    dist = {"cls": {}, "eops_form": {}, "outcome": {}, "kind": {}, "n_points": {},
            "malformed": 0}
    for case in cases:
        if case["kind"] == "script":
            obs, extra = run_script_real(case)
        else:
            obs, extra = run_solver_real(case)
        real.append((obs, extra))
        for k, v in (("cls", case["cls"]), ("eops_form", case["eops"][0]),
                     ("outcome", obs[0] if obs[0] == "Ok" else obs[1]),
                     ("kind", case["kind"]),
                     ("n_points", len(case.get("pts", case.get("tlist", []))))):
            dist[k][str(v)] = dist[k].get(str(v), 0) + 1
        dist["malformed"] += 1 if case.get("malformed") else 0
        npts = len(case.get("pts", case.get("tlist", [])))
        ctx.count_case(json.dumps(case, sort_keys=True, default=str),
                       nontrivial=npts >= 2 and case["eops"][0] != "none")
        if extra is not None:
            for sig, msg in class_oracle(case, obs, extra):
                report_class_violation(ctx, case, sig, msg, obs)
    try:
        vals = vlib.coq_eval_values("cases_C12", HEADER, [model_expr(c) for c in cases],
                                    chunk=250)
    except RuntimeError as e:
        ctx.violation("corr:C12:model-eval", "coqc", "model evaluation failed",
                      {"log": str(e)}, found_input=False)
        return
    mism = 0
    for case, (obs, extra), s in zip(cases, real, vals):
        model = canon_model(s)
        im = canon_real(obs)
        ctx.cov["traces_validated_against_impl"] += 1
        if model != im:
            mism += 1
            if mism <= 3:
                bad = class_oracle(case, obs, extra) if extra is not None else []
                ctx.violation("corr:result." + case["cls"] + ":" + case["kind"],
                              bad[0][0] if bad else "model-differs",
                              "model and implementation disagree on an add history"
                              + ("; implementation violates: " + bad[0][1] if bad else ""),
                              {"case": case, "impl": im, "model": model},
                              found_input=True)
    ctx.cov["input_distribution"] = dist
    ctx.sample({"case": cases[-1], "impl": real[-1][0]})
    ctx.log("correspondence: %d cases, %d mismatches" % (len(cases), mism))


def _norm_eops(e):
    f, v = e[0], e[1]
    if f == "none":
        return ("none", None)
    if f == "single":
        return (f, tuple(v))
    if f in ("list", "tuple"):
        return (f, [tuple(x) for x in v])
    return (f, [(k, tuple(o)) for k, o in v])


def replay_witness(ctx):
    """Regression case: the input on which HEOMResult.final_ado_state returned
    the system state before qutip commit 676e94e (Props/C12.v
    C12_old_final_ado_state_witness), on the real HEOMResult (class level)."""
    case = {"kind": "script", "cls": "CHeom",
            "opts": {"store_states": None, "store_final_state": True, "store_ados": True,
                     "store_floquet_states": False, "store_measurement": ""},
            "eops": ("single", ("Q", 3)), "mops": [],
            "pts": [(0, 10, None), (1, 11, None)]}
    obs, extra = run_script_real(case)
    for sig, msg in class_oracle(case, obs, extra):
        report_class_violation(ctx, case, sig, msg, obs)


def run(ctx):
    rng = random.Random(ctx.seed * 7919 + 12)
    ctx.cov["rule"] = (
        "K1 case = (result class, option valuation, e_ops form with operator / "
        "time-dependent operator / callback / unsupported entries, m_ops, add history "
        "with integer-tagged states); K2 case = (class, options, e_ops, tlist, scripted "
        "integrator outputs); non-trivial when at least 2 points and at least one e_op "
        "form other than None; distinct by the full case")
    ctx.cov["trusted_base"] += [
        "Oracles (Section variables of Model/C12.v): expectQ/expectE/callF (value of an "
        "expectation operation on (t, state)), rho (HierarchyADOsState.rho), conv "
        "(FloquetBasis.from_floquet_basis), prepare/restore (Solver._prepare_state/"
        "_restore_state), set_state/integrate (the integrator as an arbitrary state machine); "
        "hypotheses used: 'integrate reports the requested time' (C12_run_one_point_per_time, "
        "last clause) and 'every stochastic step carries a noise increment' "
        "(C12_stochastic_shapes)",
        "Model/C12.v is hand-written; tied to result.py, bofin_solvers.py HEOMResult, "
        "floquet.py FloquetResult/FMESolver.run, stochastic.py StochasticTrajResult/"
        "_integrate_one_traj, solver_base.py Solver.run, multitraj.py _run_one_traj and "
        "integrator.py Integrator.run by the exact correspondence runs K1/K2",
        "tools/c12.py stand-ins: tagged states, FakeEvo (QobjEvo subclass), patched "
        "qutip.solver.result.expect, scripted Integrator subclass",
        "Model/C12_mc.v (McResult collapse records, numpy.histogram with explicit monotone "
        "edges, runs_photocurrent / photocurrent) and Model/C12_sto.v (StochasticTrajResult dW / "
        "wiener_process / measurement, StochasticResult._trajectories_attr) are hand-written; tied "
        "by the exact correspondence runs K5/K6 (tools/c12_aux.py) with integer / dyadic payloads; "
        "times and weights are integers in these models, divisions by num_trajectories and bin "
        "widths are kept symbolic; ill-shaped stochastic records (SIllShaped) are outside the "
        "model (numpy broadcasting not modelled)",
        "Model/C12_nm.v (MCSolver._run_one_traj both branches, NonMarkovianMCSolver._run_one_traj, "
        "MultiTrajResult.steady_state) is hand-written; tied by the exact correspondence runs K7/K8 "
        "(tools/c12_aux.py: the real methods on a subclass with scripted integrator, collapse "
        "record and martingale; the real steady_state on scripted trajectories); its oracles "
        "(Section variables): qzero_like, the integrator's collapse record, the weight rescaling, "
        "the martingale value given a jump record, and the record `prev` left in the martingale "
        "by whatever ran before (read only by the dark-state branch)",
        "C12_nm_runs_trace_aligned composes with the NmmcResult model of C15 (Model/C15_nm.v, "
        "tied to the source by C15's own correspondence)",
        "MultiTrajResult sums/weights and merge are C15's subject; not modelled here",
    ]

    def search(failed, log):
        r2 = random.Random(ctx.seed + 101)
        for _ in range(2000):
            case = gen_script_case(r2) if r2.random() < 0.5 else gen_solver_case(r2)
            case["eops"] = _norm_eops(case["eops"])
            obs, extra = (run_script_real(case) if case["kind"] == "script"
                          else run_solver_real(case))
            if extra is None:
                continue
            bad = [b for b in class_oracle(case, obs, extra)]
            for sig, msg in bad:
                report_class_violation(ctx, dict(case, failed_theorems=failed), sig, msg, obs)
            if ctx.violations:
                return

    vlib.standard_proof_step(ctx, ["Props/C12.vo"], ["Props/C12.v"], search)
    replay_witness(ctx)
    correspondence(ctx, rng)
    import c12_aux
    c12_aux.run(ctx, rng)
    import c12_solvers
    c12_solvers.run_oracle(ctx, rng)
    ctx.cov["explanation"] = (
        "Theorems (Props/C12.v) give the closed form of a result object after any add "
        "history and after Solver.run with any integrator; the model is tied to the source "
        "by exact equality of everything observable on generated histories (K1) and on the "
        "real run skeletons with a scripted integrator (K2); the real solvers are checked "
        "against the property itself on the product options x e_ops forms (O).")


def replay(ctx, payload):
    d = payload["detail"]
    case = d.get("case")
    if case and case.get("kind") in ("script", "solver"):
        case["eops"] = _norm_eops(case["eops"])
        if case["kind"] == "script":
            case["pts"] = [tuple(p) for p in case["pts"]]
            obs, extra = run_script_real(case)
        else:
            case["outs"] = [tuple(p) for p in case["outs"]]
            obs, extra = run_solver_real(case)
        if extra is not None:
            for sig, msg in class_oracle(case, obs, extra):
                report_class_violation(ctx, case, sig, msg, obs)
        return
    import c12_aux
    if c12_aux.replay(ctx, payload):
        return
    import c12_solvers
    c12_solvers.replay(ctx, payload)
