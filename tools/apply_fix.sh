#!/bin/sh
# tools/apply_fix.sh <name> : apply /verif/.fixes/<name>.patch to /repo and commit it with <name>.msg
set -e
N="$1"
git -C /repo apply --check "/verif/.fixes/$N.patch"
git -C /repo apply "/verif/.fixes/$N.patch"
git -C /repo add -A
git -C /repo commit -q -F "/verif/.fixes/$N.msg"
git -C /repo log --oneline | head -1
