"""C12 - exact correspondence for the auxiliary-record models.

K5  Model/C12_mc.v  vs the real McResult: add / add_deterministic histories
    with scripted trajectories carrying collapse records; col_times, col_which,
    runs_photocurrent, photocurrent (and the numpy.histogram calls inside),
    runs_weights, num_trajectories.
K6  Model/C12_sto.v vs the real StochasticTrajResult: dW, wiener_process,
    measurement for every store_measurement convention, homodyne and
    heterodyne, including ill-shaped records (canonicalised errors), and
    StochasticResult._trajectories_attr for the four keep/store cells.

All payloads are integers / dyadic rationals so that every float operation in
the implementation is exact and the comparison is bit-for-bit.
"""
import json
import warnings

import numpy as np

import vlib
from vlib import cz, cnat, cbool, clist

HEADER = ("From Coq Require Import List ZArith Bool.\nImport ListNotations.\n"
          "From QV Require Import Model.C12 Model.C12_mc Model.C12_sto Model.C12_nm.\n"
          "Open Scope Z_scope.\n")


# ===================================================================== K5
class _Traj:
    """scripted trajectory result (what MultiTrajResult reads of it)"""
    def __init__(self, times, collapse):
        self.times = times
        self.collapse = collapse
        self.e_ops = {}
        self.e_data = {}
        self.expect = []
        self.states = []
        self.final_state = None


def gen_mc_case(rng):
    malformed = rng.random() < 0.15
    nc = rng.choice([0, 1, 2, 3])
    n = rng.choice([0, 1, 2, 3, 4, 6])
    # bin widths are powers of two so that count / width is exact
    times, t = [], rng.randrange(-4, 4)
    for _ in range(n):
        times.append(t)
        t += rng.choice([1, 2, 4]) if not (malformed and rng.random() < 0.3) else rng.choice([-2, 0])
    nadd = rng.choice([1, 2, 4, 8]) if rng.random() < 0.9 else 0
    evs = ["add"] * nadd + ["det"] * rng.choice([0, 0, 1, 2])
    if not evs:
        evs = ["det"]
    rng.shuffle(evs)
    lo, hi = (min(times) - 2, max(times) + 2) if times else (-3, 3)
    out = []
    for kind in evs:
        m = rng.choice([0, 0, 1, 2, 3, 5])
        rec = []
        for _ in range(m):
            c = rng.randrange(0, max(nc, 1))
            if malformed and rng.random() < 0.15:
                c = nc + rng.randrange(0, 2)
            rec.append((rng.randrange(lo, hi + 1), c))
        if rng.random() < 0.8:
            rec.sort()
        out.append((kind, rec, rng.choice([1, 1, 2, 3]) if kind == "add" else 1))
    return {"kind": "mc", "nc": nc, "times": times, "events": out, "malformed": malformed}


def run_mc_real(case):
    from qutip.solver.multitrajresult import McResult
    opt = {"store_states": False, "store_final_state": False, "keep_runs_results": False}
    times = [float(t) for t in case["times"]]
    r = McResult(None, opt, solver="mcsolve", stats={"num_collapse": case["nc"]})
    for kind, rec, w in case["events"]:
        tr = _Traj(times, [(float(t), int(c)) for t, c in rec])
        if kind == "add":
            r.add((0, tr, w))
        else:
            r.add_deterministic(tr, 0.25)

    def guard(f):
        with warnings.catch_warnings():
            warnings.simplefilter("ignore")
            try:
                return ("HOk", f())
            except ValueError:
                return ("HRaise", "HValueError")
            except IndexError:
                return ("HRaise", "HIndexError")
    return {
        "col_times": [[float(t) for t in x] for x in r.col_times],
        "col_which": [[int(c) for c in x] for x in r.col_which],
        "runs": guard(lambda: [[np.asarray(y, dtype=float) for y in x] for x in r.runs_photocurrent]),
        "phot": guard(lambda: [np.asarray(y, dtype=float) for y in r.photocurrent]),
        "weights": list(r._trajectories_weight_info), "ntraj": r.num_trajectories,
        "runs_weights": list(r.runs_weights),
    }


def mc_expr(case):
    def rec(rc):
        return clist(rc, lambda tc: "(%s, %d%%nat)" % (cz(tc[0]), tc[1]))
    evs = clist(case["events"], lambda e: "%s %s %s" % (
        "EvAdd" if e[0] == "add" else "EvDet", rec(e[1]), cz(e[2])))
    return "mc_observe (mc_run %d%%nat %s %s)" % (case["nc"], clist(case["times"], cz), evs)


def _div(num, den):
    with np.errstate(all="ignore"):
        return np.asarray(num, dtype=float) / np.asarray(den, dtype=float)


def compare_mc(case, real, model):
    """model = parsed mc_observe value; returns list of differences."""
    ct, cw, (runs, phot, widths), (weights, ntraj) = model
    diffs = []
    if [[float(t) for t in x] for x in ct] != real["col_times"]:
        diffs.append("col_times")
    if [list(x) for x in cw] != real["col_which"]:
        diffs.append("col_which")
    if list(weights) != [int(w) for w in real["weights"]] or ntraj != real["ntraj"]:
        diffs.append("weights/num_trajectories")
    if real["runs_weights"] != [w / ntraj for w in weights]:
        diffs.append("runs_weights")

    def same(m, r, scale):
        if isinstance(m, tuple) and m[0] == "HRaise":
            return r == ("HRaise", m[1])
        if r[0] != "HOk":
            return False
        return True

    # runs_photocurrent: numerators / widths
    if isinstance(runs, tuple) and runs[0] == "HRaise":
        if real["runs"] != ("HRaise", runs[1]):
            diffs.append("runs_photocurrent-error")
    else:
        want = runs[1] if isinstance(runs, tuple) else runs
        got = real["runs"]
        if got[0] != "HOk" or len(got[1]) != len(want):
            diffs.append("runs_photocurrent")
        else:
            for gi, wi in zip(got[1], want):
                if len(gi) != len(wi) or any(
                        not np.array_equal(g, _div(w, widths), equal_nan=True)
                        for g, w in zip(gi, wi)):
                    diffs.append("runs_photocurrent")
                    break
    if isinstance(phot, tuple) and phot[0] == "HRaise":
        if real["phot"] != ("HRaise", phot[1]):
            diffs.append("photocurrent-error")
    else:
        want = phot[1] if isinstance(phot, tuple) else phot
        got = real["phot"]
        if got[0] != "HOk" or len(got[1]) != len(want):
            diffs.append("photocurrent")
        else:
            for g, w in zip(got[1], want):
                exp = _div(_div(w, ntraj) if ntraj else np.asarray(w, dtype=float), widths)
                if not np.array_equal(g, exp, equal_nan=True):
                    diffs.append("photocurrent")
                    break
    return diffs


def mc_oracle(case, real):
    """the property itself, independent of the model: every recorded collapse
    inside [t_0, t_last] is counted exactly once, in its channel, in the bin
    that contains it; the averaged record is the weighted mean of the runs."""
    bad = []
    times, nc = case["times"], case["nc"]
    adds = [(rec, w) for k, rec, w in case["events"] if k == "add"]
    if real["col_times"] != [[float(t) for t, _ in rec] for rec, _ in adds]:
        bad.append(("col_times", "col_times[i] is not the times of trajectory i's collapses"))
    if real["col_which"] != [[c for _, c in rec] for rec, _ in adds]:
        bad.append(("col_which", "col_which[i] is not the c_ops indices of trajectory i's collapses"))
    mono = all(a <= b for a, b in zip(times, times[1:]))
    strict = all(a < b for a, b in zip(times, times[1:]))
    okc = all(c < nc for rec, _ in adds for _, c in rec)
    if real["runs"][0] == "HOk" and strict and okc and len(times) >= 2:
        for (rec, w), run in zip(adds, real["runs"][1]):
            for c in range(nc):
                want = np.zeros(len(times) - 1)
                for t, ch in rec:
                    if ch == c and times[0] <= t <= times[-1]:
                        k = max(j for j in range(len(times) - 1) if times[j] <= t)
                        want[k] += 1
                if not np.array_equal(run[c] * np.diff(times), want):
                    bad.append(("runs_photocurrent",
                                "a collapse is not counted once in the bin containing it"))
        if real["phot"][0] == "HOk" and adds:
            n = len(adds)
            for c in range(nc):
                mean = sum(w / n * run[c] for (rec, w), run in zip(adds, real["runs"][1]))
                if not np.array_equal(np.asarray(mean), real["phot"][1][c]):
                    bad.append(("photocurrent", "photocurrent is not the weighted mean of the runs"))
    return bad


# ===================================================================== K6
SM_PY = {"SMOff": "", "SMStart": "start", "SMMiddle": "middle", "SMEnd": "end", "SMOther": "sometimes"}


def gen_sto_case(rng):
    malformed = rng.random() < 0.2
    n = rng.choice([1, 2, 3, 4, 6])
    het = rng.random() < 0.4
    nrow = rng.choice([2, 4] if het else [1, 2, 3])
    if malformed and rng.random() < 0.3:
        nrow = rng.choice([1, 3]) if het else nrow
    times, t = [], rng.randrange(0, 4)
    for _ in range(n):
        times.append(t)
        t += rng.choice([1, 2, 4])
    nsteps = n - 1
    if malformed and rng.random() < 0.4:
        nsteps = max(0, nsteps + rng.choice([-1, 1]))
    noise = [[rng.randrange(-5, 6) for _ in range(nrow)] for _ in range(nsteps)]
    if malformed and noise and rng.random() < 0.3:
        noise[-1] = noise[-1][:-1]
    nm = nrow if not (malformed and rng.random() < 0.3) else rng.choice([0, nrow + 1])
    if rng.random() < 0.08:
        nm = 0
    mexp = [[rng.randrange(-9, 10) for _ in range(n)] for _ in range(nm)]
    factor = [rng.choice([1, 2, -1, 4]) for _ in range(nrow if not (malformed and rng.random() < 0.2) else nrow + 1)]
    opt = rng.choice(["SMOff", "SMStart", "SMMiddle", "SMEnd", "SMEnd", "SMStart", "SMMiddle"])
    if malformed and rng.random() < 0.2:
        opt = "SMOther"
    return {"kind": "sto", "times": times, "noise": noise, "mexp": mexp, "factor": factor,
            "opt": opt, "true_for_end": rng.random() < 0.5, "het": het, "malformed": malformed}


def run_sto_real(case):
    from qutip.solver.stochastic import StochasticTrajResult
    sm = SM_PY[case["opt"]]
    if case["opt"] == "SMEnd" and case["true_for_end"]:
        sm = True
    opt = {"store_states": False, "store_final_state": False, "store_measurement": sm}
    r = StochasticTrajResult(None, opt, m_ops=[], dw_factor=np.array(case["factor"], dtype=float),
                             heterodyne=case["het"])
    # the records the accessors read (filled by add() in a real run; K1/K2
    # tie that part): times, noise, m_expect
    r.times = [float(t) for t in case["times"]]
    r.noise = [np.array(v, dtype=float) for v in case["noise"]]
    if sm:
        r.m_expect = [[float(x) for x in row] for row in case["mexp"]]
        r.m_ops = [None] * len(case["mexp"])

    def guard(f):
        with warnings.catch_warnings():
            warnings.simplefilter("ignore")
            try:
                v = f()
            except ValueError:
                return ("SRaise", "SValueError")
            except IndexError:
                return ("SRaise", "SIndexError")
        if v is None:
            return "SNone"
        return ("SOk", np.asarray(v, dtype=float))
    return {"dW": guard(lambda: r.dW), "W": guard(lambda: r.wiener_process),
            "meas": guard(lambda: r.measurement)}


def sto_expr(case):
    ll = lambda rows: clist(rows, lambda v: clist(v, cz))
    return ("st_observe {| st_times := %s; st_noise := %s; st_mexp := %s; st_factor := %s; "
            "st_opt := %s; st_het := %s |}" % (
                clist(case["times"], cz), ll(case["noise"]), ll(case["mexp"]),
                clist(case["factor"], cz), case["opt"], cbool(case["het"])))


def _shaped_to_array(v, ent):
    """parsed `shaped` value -> nested float lists."""
    tag = v[0] if isinstance(v, tuple) else v
    rows = v[1] if isinstance(v, tuple) and len(v) > 1 else []
    if tag == "Homodyne":
        return [[ent(x) for x in row] for row in rows]
    return [[[ent(x) for x in a], [ent(x) for x in b]] for a, b in rows]


def _entry(e):
    mnum, mden, snum, dt = e
    with np.errstate(all="ignore"):
        return float(np.float64(mnum) / np.float64(mden)
                     + np.float64(snum) * (np.float64(1.0) / np.float64(dt)))


ILL = [0]


def compare_sto(case, real, model):
    diffs = []
    for name, m, ent in (("dW", model[0], float), ("W", model[1], float),
                         ("meas", model[2], _entry)):
        got = real[name]
        if m == "SIllShaped":
            ILL[0] += 1
            continue                      # outside the modelled domain (see Model/C12_sto.v)
        if m == "SNone":
            ok = got == "SNone"
        elif isinstance(m, tuple) and m[0] == "SRaise":
            ok = got == ("SRaise", m[1])
        else:
            want = _shaped_to_array(m[1], ent)
            ok = (isinstance(got, tuple) and got[0] == "SOk"
                  and _same_array(got[1], want))
        if not ok:
            diffs.append(name)
    return diffs


def _same_array(got, want):
    w = np.asarray(want, dtype=float)
    if w.size == 0 and got.size == 0:
        return True                       # empty arrays: shapes are compared by the oracle
    return got.shape == w.shape and np.array_equal(got, w, equal_nan=True)


def sto_oracle(case, real):
    """index alignment checked directly (well-formed homodyne/heterodyne
    records only): dW[i][j] = noise[j][i]; W[i][k] = sum_{j<k} noise[j][i];
    measurement[i][j] uses m_expect at the documented end of step j and the
    increment / duration of step j."""
    bad = []
    n = len(case["times"])
    noise, mexp, f = case["noise"], case["mexp"], case["factor"]
    nrow = len(noise[0]) if noise else 0
    wf = (n >= 2 and len(noise) == n - 1 and all(len(v) == nrow for v in noise)
          and len(f) == nrow and (not case["het"] or nrow % 2 == 0))
    if not wf:
        return bad

    def at(a, i, j):
        return a[i // 2][i % 2][j] if case["het"] else a[i][j]
    if real["dW"][0] != "SOk" or real["W"][0] != "SOk":
        bad.append(("dW", "dW / wiener_process raised on a well-formed record"))
        return bad
    dW, W = real["dW"][1], real["W"][1]
    for i in range(nrow):
        for j in range(n - 1):
            if at(dW, i, j) != noise[j][i]:
                bad.append(("dW", "dW[i][j] is not the increment i of step j"))
        for k in range(n):
            if at(W, i, k) != sum(noise[j][i] for j in range(k)):
                bad.append(("wiener_process", "wiener_process[i][k] is not the sum of the first k increments"))
    if case["opt"] in ("SMStart", "SMMiddle", "SMEnd") and len(mexp) == nrow and nrow:
        if real["meas"][0] != "SOk":
            bad.append(("measurement", "measurement raised on a well-formed record"))
            return bad
        M = real["meas"][1]
        for i in range(nrow):
            for j in range(n - 1):
                m = {"SMStart": mexp[i][j], "SMEnd": mexp[i][j + 1],
                     "SMMiddle": (mexp[i][j] + mexp[i][j + 1]) / 2}[case["opt"]]
                dt = case["times"][j + 1] - case["times"][j]
                if at(M, i, j) != m + f[i] * noise[j][i] / dt:
                    bad.append(("measurement",
                                "measurement[i][j] is not m_expect(%s) + dW_factor*dW[i][j]/dt_j"
                                % case["opt"]))
    if case["opt"] == "SMOff" and real["meas"] != "SNone":
        bad.append(("measurement", "measurement is not None although store_measurement is off"))
    return bad


def attr_cells(ctx):
    """StochasticResult._trajectories_attr on the four keep/store cells with
    scripted trajectories: model traj_attr."""
    from qutip.solver.stochastic import StochasticResult
    out = []
    for keep in (True, False):
        for sm in ("", "end"):
            opt = {"store_states": False, "store_final_state": False,
                   "keep_runs_results": keep, "store_measurement": sm}
            r = StochasticResult(None, opt, solver="x", stats={}, heterodyne=False)
            for k in range(3):
                tr = _Traj([0.0, 1.0], [])
                tr.measurement = None if not sm else np.array([[float(k)]])
                tr.dW = np.array([[float(10 + k)]])
                tr.wiener_process = np.array([[0.0, float(10 + k)]])
                r.add((k, tr))
            got = {}
            for a in ("measurement", "dW", "wiener_process"):
                v = getattr(r, a)
                got[a] = "SNone" if v is None else ("SOk", [None if x is None else np.asarray(x).tolist()
                                                            for x in v])
            per = {"measurement": [None if not sm else [[float(k)]] for k in range(3)],
                   "dW": [[[float(10 + k)]] for k in range(3)],
                   "wiener_process": [[[0.0, float(10 + k)]] for k in range(3)]}
            out.append((keep, bool(sm), got, per))
    return out


# ===================================================================== K7
def gen_traj_case(rng):
    """MCSolver / NonMarkovianMCSolver._run_one_traj with a scripted
    integrator, collapse record and martingale."""
    import c12
    bad = 0.15 if rng.random() < 0.1 else 0.0
    n = rng.choice([0, 1, 2, 3, 5])
    tlist = sorted(rng.sample(range(0, 30), n))
    outs = [(t if rng.random() < 0.9 else t + 100, rng.randrange(0, 40), None) for t in tlist[1:]]
    o = c12.gen_opts(rng)
    return {"kind": "traj", "nm": rng.random() < 0.6, "dark": rng.random() < 0.3,
            "floor_given": rng.random() < 0.5, "opts": o, "eops": c12._norm_eops(c12.gen_eops(rng, bad)),
            "d0": rng.randrange(0, 20), "tlist": tlist, "outs": outs,
            "cols": [rng.randrange(0, 30) for _ in range(rng.choice([0, 0, 1, 2, 4]))],
            # the jump record the martingale still holds from what ran before
            "prev": [rng.randrange(0, 30) for _ in range(rng.choice([0, 1, 3]))],
            "malformed": bad > 0}


def run_traj_real(case):
    import c12
    import qutip.solver.result as R
    import sys
    import qutip.solver.mcsolve  # noqa: F401 (the name is shadowed by the function)
    MC = sys.modules["qutip.solver.mcsolve"]
    from qutip.solver.mcsolve import MCSolver
    from qutip.solver.nm_mcsolve import NonMarkovianMCSolver
    from qutip.solver.integrator.integrator import Integrator
    from qutip.solver.result import Result
    outs, cols = case["outs"], case["cols"]

    class FakeInteg(Integrator):
        def __init__(self):
            self.outs = list(outs)
            self.collapses = list(case["prev"])
            self.kw = None

        def set_state(self, t, d, *a, **kw):
            self.kw = kw
            # MCIntegrator.set_state starts a new record; with no step to take
            # the scripted record is complete at once
            self.collapses = [] if self.outs else list(cols)

        def integrate(self, t, copy=True):
            if self.outs:
                t2, d, n = self.outs.pop(0)
            else:
                t2, d, n = t, 0, None
            if not self.outs:
                # the record is complete once the last step was taken
                self.collapses.extend(cols)
            return t2, c12.Dat(d)

    class FakeMart:
        def __init__(self, integ):
            self.integ = integ

        def value(self, t):
            return 1000 * len(self.integ.collapses) + int(t)

    base = NonMarkovianMCSolver if case["nm"] else MCSolver
    opt = c12.py_options(case["opts"])
    opt["norm_tol"] = 0.001

    class Fake(base):
        options = opt
        _options = opt
        _trajectory_resultclass = Result

        def __init__(self):
            self._integrator = FakeInteg()
            self._martingale = FakeMart(self._integrator)

        def _restore_state(self, d, copy=True):
            return c12.St(2 * d.tag)

        def _get_generator(self, seed):
            return None

    saved, saved_z = R.expect, MC.qzero_like
    R.expect = c12._fake_expect
    MC.qzero_like = lambda s: c12.St(-s.tag - 1)
    try:
        fake = Fake()
        kw = {}
        if case["dark"]:
            kw["jump_prob_floor"] = 1.0
        elif case["floor_given"]:
            kw["jump_prob_floor"] = 0.25
        try:
            seed, r, w = fake._run_one_traj(7, c12.Dat(case["d0"]), case["tlist"],
                                            c12.make_eops(case["eops"]), **kw)
        except TypeError:
            return ("Raise", "TypeError")
        except IndexError:
            return ("Raise", "IndexError")
        obs, extra = c12.observe_real("CResult", case["opts"], r)
        weight = {0.0: 0, 1.0: 1, 0.75: 101}.get(float(w), "?")
        trace = ("Some", [int(x) for x in r.trace]) if hasattr(r, "trace") else None
        # flat, as Coq prints the nested pair
        return ("Ok", tuple(obs) + ([int(c) for c in r.collapse], weight, trace))
    finally:
        R.expect, MC.qzero_like = saved, saved_z


def traj_expr(case):
    import c12
    return "x_nm_run %s %s %s %s %s %s %s %s %s %s" % (
        cbool(case["nm"]), cbool(case["dark"]), cbool(case["floor_given"]),
        c12.c_opts(case["opts"]), c12.c_eops(case["eops"]), cz(case["d0"]),
        clist(case["tlist"], cz), c12.c_pts(case["outs"]), clist(case["cols"], cz),
        clist(case["prev"], cz))


def traj_oracle(case, real):
    """the property on the trajectory object: one time per requested time,
    trace aligned with tlist, dark branch all zero states with no collapse."""
    bad = []
    if real[0] != "Ok":
        return bad
    obs, (collapse, weight, trace) = real[1][:7], real[1][7:]
    times, edata, states = obs[0], obs[1], obs[2]
    tl = case["tlist"]
    if len(times) != len(tl):
        bad.append(("traj-times", "trajectory does not have one time per requested time"))
    if case["nm"]:
        if trace is None or len(trace[1]) != len(tl):
            bad.append(("trace", "trajectory trace is not one value per requested time"))
        elif [v % 1000 for v in trace[1]] != list(tl):
            bad.append(("trace", "trace[k] is not the martingale at tlist[k]"))
        elif not case["dark"] and any(v // 1000 != len(collapse) for v in trace[1]):
            bad.append(("trace", "trace was not computed from this trajectory's complete collapse record"))
    elif trace is not None:
        bad.append(("trace", "mcsolve trajectory has a trace attribute"))
    if case["dark"]:
        z = -(2 * case["d0"]) - 1
        if collapse or weight != 0 or times != list(tl) or any(s != z for s in states):
            bad.append(("dark-branch", "dark-state trajectory is not all zero states at tlist with weight 0"))
    elif collapse != case["cols"]:
        bad.append(("collapse", "trajectory collapse record is not the integrator's record"))
    return bad


# ===================================================================== K8
def gen_ss_case(rng):
    n = rng.choice([1, 2, 3, 5, 8])
    ntraj = rng.choice([1, 2, 4])
    return {"kind": "ss", "n": n, "ntraj": ntraj,
            "states": [[rng.randrange(-8, 9) * ntraj for _ in range(n)] for _ in range(ntraj)],
            "stored": rng.random() < 0.85, "keep": rng.random() < 0.5,
            "N": rng.choice([0, 1, 2, 3, n, n + 1, n + 5, -1, -2, 2.7, rng.randrange(-3, 12)])}


def run_ss_real(case):
    import qutip
    from qutip.solver.multitrajresult import MultiTrajResult
    opt = {"store_states": case["stored"], "store_final_state": False,
           "keep_runs_results": case["keep"]}
    r = MultiTrajResult([], opt, solver="x", stats={})
    times = [float(k) for k in range(case["n"])]
    for i in range(case["ntraj"]):
        tr = _Traj(times, [])
        if case["stored"]:
            tr.states = [qutip.Qobj([[float(v)]]) for v in case["states"][i]]
            tr.final_state = tr.states[-1]
        r.add((i, tr))
    try:
        v = r.steady_state(case["N"])
    except ZeroDivisionError:
        return "SSZeroDiv"
    if v is None:
        return "SSNone"
    if not hasattr(v, "full"):            # sum of an empty slice is the int 0
        return ("SSValue", complex(v))
    return ("SSValue", complex(v.full()[0, 0]))


def ss_expr(case):
    if case["stored"]:
        avg = [sum(case["states"][i][k] for i in range(case["ntraj"])) // case["ntraj"]
               for k in range(case["n"])]
        st = "(Some %s)" % clist(avg, cz)
    else:
        st = "None"
    return "steady_state %d%%nat %s %s" % (case["n"], st, cz(int(case["N"])))


def _empty_slice(case, n):
    return n < 0 and -n >= case["n"]


def compare_ss(case, real, model):
    if model in ("SSNone", "SSZeroDiv"):
        return [] if real == model else ["steady_state"]
    _, sm, n = model
    # Qobj.__truediv__(N) multiplies by 1 / N; the sum of an empty slice is the int 0
    want = (np.float64(sm) * (1 / np.float64(n))) if not _empty_slice(case, n) else 0 / n
    if not (isinstance(real, tuple) and real[1] == complex(want)):
        return ["steady_state"]
    return []


def ss_oracle(case, real):
    """documented meaning for 0 <= N: the mean of the last N averaged states
    (all of them for N = 0 or N > len(times))."""
    N = int(case["N"])
    if not case["stored"] or N < 0:
        return []
    n = case["n"]
    avg = [sum(case["states"][i][k] for i in range(case["ntraj"])) / case["ntraj"] for k in range(n)]
    m = n if (N == 0 or N > n) else N
    want = sum(avg[n - m:]) * (1 / m)
    if not (isinstance(real, tuple) and real[1] == complex(want)):
        return [("steady_state", "steady_state(N) is not the mean of the last N averaged states")]
    return []


def run_traj_and_ss(ctx, rng):
    n_tr = 200 if ctx.quick else 2500
    n_ss = 120 if ctx.quick else 1500
    cases = [gen_traj_case(rng) for _ in range(n_tr)] + [gen_ss_case(rng) for _ in range(n_ss)]
    reals = []
    dist = {"traj": 0, "ss": 0, "traj_outcome": {}, "nm": 0, "dark": 0}
    for c in cases:
        if c["kind"] == "traj":
            real = run_traj_real(c)
            for sig, msg in traj_oracle(c, real):
                ctx.violation("mcsolve._run_one_traj:" + sig, sig, msg, {"case": c})
            dist["traj"] += 1
            dist["nm"] += 1 if c["nm"] else 0
            dist["dark"] += 1 if c["dark"] else 0
            k = real[0] if real[0] == "Ok" else real[1]
            dist["traj_outcome"][k] = dist["traj_outcome"].get(k, 0) + 1
            nontrivial = len(c["tlist"]) >= 2
        else:
            real = run_ss_real(c)
            for sig, msg in ss_oracle(c, real):
                ctx.violation("multitrajresult.MultiTrajResult.steady_state", sig, msg, {"case": c})
            dist["ss"] += 1
            nontrivial = c["n"] >= 2
        reals.append(real)
        ctx.count_case(json.dumps(c, sort_keys=True, default=str), nontrivial=nontrivial)
    try:
        vals = vlib.coq_eval_values(
            "cases_C12_traj", HEADER,
            [traj_expr(c) if c["kind"] == "traj" else ss_expr(c) for c in cases], chunk=200)
    except RuntimeError as e:
        ctx.violation("corr:C12:traj-model-eval", "coqc", "model evaluation failed",
                      {"log": str(e)}, found_input=False)
        return
    import c12
    mism = 0
    for c, real, s in zip(cases, reals, vals):
        ctx.cov["traces_validated_against_impl"] += 1
        if c["kind"] == "traj":
            model = c12.canon_model(s)
            im = c12.canon_real(real) if real[0] == "Ok" else real
            d = [] if model == im else ["trajectory"]
        else:
            d = compare_ss(c, real, vlib.parse_coq_value(s))
        if d:
            mism += 1
            if mism <= 3:
                ctx.violation("corr:_run_one_traj" if c["kind"] == "traj" else "corr:steady_state",
                              d[0], "model and implementation disagree on %s" % d,
                              {"case": c, "model": s, "impl": repr(real)[:1500]})
    ctx.cov.setdefault("input_distribution", {})["traj_and_steady_state"] = dist
    ctx.log("K7/K8: %d _run_one_traj + %d steady_state cases, %d mismatches"
            % (dist["traj"], dist["ss"], mism))


# ====================================================================== run
def run(ctx, rng):
    n_mc = 250 if ctx.quick else 3000
    n_sto = 300 if ctx.quick else 3000
    cases = [gen_mc_case(rng) for _ in range(n_mc)] + [gen_sto_case(rng) for _ in range(n_sto)]
    reals = []
    dist = {"mc": 0, "sto": 0, "malformed": 0, "sto_opt": {}, "mc_outcome": {}}
    for c in cases:
        if c["kind"] == "mc":
            real = run_mc_real(c)
            for sig, msg in mc_oracle(c, real):
                ctx.violation("multitrajresult.McResult:" + sig, sig, msg, {"case": c})
            dist["mc"] += 1
            k = real["phot"][0] if real["phot"][0] == "HOk" else real["phot"][1]
            dist["mc_outcome"][k] = dist["mc_outcome"].get(k, 0) + 1
            nontrivial = sum(len(e[1]) for e in c["events"]) >= 2 and len(c["times"]) >= 3
        else:
            real = run_sto_real(c)
            for sig, msg in sto_oracle(c, real):
                ctx.violation("stochastic.StochasticTrajResult:" + sig, sig, msg, {"case": c})
            dist["sto"] += 1
            dist["sto_opt"][c["opt"]] = dist["sto_opt"].get(c["opt"], 0) + 1
            nontrivial = len(c["times"]) >= 3 and bool(c["noise"])
        dist["malformed"] += 1 if c["malformed"] else 0
        reals.append(real)
        ctx.count_case(json.dumps(c, sort_keys=True), nontrivial=nontrivial)
    try:
        vals = vlib.coq_eval_values(
            "cases_C12_aux", HEADER,
            [mc_expr(c) if c["kind"] == "mc" else sto_expr(c) for c in cases], chunk=150)
    except RuntimeError as e:
        ctx.violation("corr:C12:aux-model-eval", "coqc", "model evaluation failed",
                      {"log": str(e)}, found_input=False)
        return
    mism = 0
    for c, real, s in zip(cases, reals, vals):
        model = vlib.parse_coq_value(s)
        d = compare_mc(c, real, model) if c["kind"] == "mc" else compare_sto(c, real, model)
        ctx.cov["traces_validated_against_impl"] += 1
        if d:
            mism += 1
            if mism <= 3:
                site = ("corr:McResult" if c["kind"] == "mc" else "corr:StochasticTrajResult")
                ctx.violation(site, d[0], "model and implementation disagree on %s" % d,
                              {"case": c, "model": s, "impl": repr(real)[:1500]})
    # StochasticResult._trajectories_attr
    amis = 0
    exprs, cells = [], attr_cells(ctx)
    for keep, store, got, per in cells:
        exprs.append("traj_attr %s %s [0; 1; 2]" % (cbool(keep), cbool(store)))
    avals = vlib.coq_eval_values("cases_C12_attr", HEADER, exprs)
    for (keep, store, got, per), s in zip(cells, avals):
        m = vlib.parse_coq_value(s)
        for a in got:
            want = "SNone" if m == "SNone" else ("SOk", per[a])
            ctx.cov["traces_validated_against_impl"] += 1
            if got[a] != want:
                amis += 1
                ctx.violation("corr:StochasticResult._trajectories_attr", a,
                              "result.%s with keep_runs_results=%r store_measurement=%r is not "
                              "the per-trajectory list the model predicts" % (a, keep, store),
                              {"keep": keep, "store": store, "got": repr(got[a]), "model": s})
    dist["sto_accessor_results_outside_model_domain"] = ILL[0]
    ctx.cov.setdefault("input_distribution", {})["aux_records"] = dist
    ctx.log("K5/K6 auxiliary records: %d McResult + %d StochasticTrajResult cases, "
            "%d mismatches; %d attr cells, %d mismatches" % (dist["mc"], dist["sto"], mism,
                                                              len(cells) * 3, amis))
    ctx.sample({"aux_case": cases[0]})
    run_traj_and_ss(ctx, rng)


def replay(ctx, payload):
    c = payload["detail"].get("case")
    if not c or c.get("kind") not in ("mc", "sto"):
        return False
    if c["kind"] == "mc":
        c["events"] = [(k, [tuple(x) for x in rec], w) for k, rec, w in c["events"]]
        for sig, msg in mc_oracle(c, run_mc_real(c)):
            ctx.violation("multitrajresult.McResult:" + sig, sig, msg, {"case": c})
    else:
        for sig, msg in sto_oracle(c, run_sto_real(c)):
            ctx.violation("stochastic.StochasticTrajResult:" + sig, sig, msg, {"case": c})
    return True
