"""Translator for C16 (nm_mcsolve): reads
NonMarkovianMCSolver._check_completeness of qutip/solver/nm_mcsolve.py with
`ast` and regenerates coq/Gen/C16_nm_complete.v: the operator sum, the
candidate constant, and the argument of the matrix square root that defines
the extra Lindblad operator.  Fails closed on anything else.

Expected shape:
    op = sum((L.dag() * L) for L in ops)
    a_candidate = op.tr() / op.shape[0]
    with CoreOptions(...):
        if op == a_candidate * qeye(op.dims[0]):
            return np.real(a_candidate), None
    a = max(op.eigenenergies())
    L = (<expr in a, op, qeye>).sqrtm()
    return a, L
"""
import ast
import os
import sys

HERE = os.path.dirname(os.path.abspath(__file__))
sys.path.insert(0, os.path.join(os.path.dirname(HERE), "lib"))
sys.path.insert(0, HERE)
import vlib  # noqa: E402
from tx_c16_rhs import Unsupported, _expect, _name  # noqa: E402
import tx_c16_rhs  # noqa: E402


def tr(node, env):
    """tx_c16_rhs.tr extended by qeye(...) = identity and `x.tr()`."""
    if isinstance(node, ast.Call) and isinstance(node.func, ast.Name) and node.func.id == "qeye":
        return "op", "1%:M"
    if isinstance(node, ast.BinOp):
        # delegate with the children translated here first
        ka, a = tr(node.left, env)
        kb, b = tr(node.right, env)
        e2 = dict(env)
        e2["__l"] = (ka, a)
        e2["__r"] = (kb, b)
        n2 = ast.BinOp(left=ast.Name(id="__l"), op=node.op, right=ast.Name(id="__r"))
        return tx_c16_rhs.tr(n2, e2)
    return tx_c16_rhs.tr(node, env)


def generate(write=True):
    path = os.path.join(vlib.REPO, "qutip", "solver", "nm_mcsolve.py")
    tree = ast.parse(open(path).read())
    fn = None
    for cls in tree.body:
        if isinstance(cls, ast.ClassDef) and cls.name == "NonMarkovianMCSolver":
            for f in cls.body:
                if isinstance(f, ast.FunctionDef) and f.name == "_check_completeness":
                    fn = f
    _expect(fn is not None, "NonMarkovianMCSolver._check_completeness")
    body = [s for s in fn.body if not (isinstance(s, ast.Expr) and isinstance(s.value, ast.Constant))]
    _expect(len(body) == 6, "6 statements in _check_completeness")
    s_op, s_cand, s_with, s_a, s_L, s_ret = body
    out = {}
    # op = sum((...) for L in ops)
    _expect(isinstance(s_op, ast.Assign) and _name(s_op.targets[0]) == "op"
            and isinstance(s_op.value, ast.Call) and _name(s_op.value.func) == "sum"
            and len(s_op.value.args) == 1 and isinstance(s_op.value.args[0], ast.GeneratorExp),
            "op = sum(<generator>)")
    g = s_op.value.args[0]
    _expect(len(g.generators) == 1 and _name(g.generators[0].target) == "L"
            and _name(g.generators[0].iter) == "ops" and not g.generators[0].ifs, "for L in ops")
    k, v = tr(g.elt, {"L": ("op", "L")})
    _expect(k == "op", "an operator summand")
    out["summand"] = v
    # a_candidate = op.tr() / op.shape[0]
    _expect(isinstance(s_cand, ast.Assign) and _name(s_cand.targets[0]) == "a_candidate"
            and isinstance(s_cand.value, ast.BinOp) and isinstance(s_cand.value.op, ast.Div),
            "a_candidate = ... / ...")
    num, den = s_cand.value.left, s_cand.value.right
    _expect(isinstance(num, ast.Call) and isinstance(num.func, ast.Attribute) and num.func.attr == "tr"
            and _name(num.func.value) == "op" and not num.args, "op.tr()")
    _expect(isinstance(den, ast.Subscript) and isinstance(den.value, ast.Attribute)
            and den.value.attr == "shape" and _name(den.value.value) == "op", "op.shape[0]")
    out["cand"] = "(\\tr op0 / n%:R)"
    # with ...: if op == <expr>: return np.real(a_candidate), None
    _expect(isinstance(s_with, ast.With) and len(s_with.body) == 1 and isinstance(s_with.body[0], ast.If),
            "with ...: if ...")
    iff = s_with.body[0]
    _expect(isinstance(iff.test, ast.Compare) and len(iff.test.ops) == 1
            and isinstance(iff.test.ops[0], ast.Eq) and _name(iff.test.left) == "op", "if op == ...")
    k, v = tr(iff.test.comparators[0], {"a_candidate": ("sc", "c"), "op": ("op", "op0")})
    _expect(k == "op", "an operator to compare with")
    out["test_rhs"] = v
    r = iff.body[0]
    _expect(isinstance(r, ast.Return) and isinstance(r.value, ast.Tuple) and len(r.value.elts) == 2
            and isinstance(r.value.elts[1], ast.Constant) and r.value.elts[1].value is None
            and isinstance(r.value.elts[0], ast.Call) and len(r.value.elts[0].args) == 1
            and _name(r.value.elts[0].args[0]) == "a_candidate", "return np.real(a_candidate), None")
    # a = max(op.eigenenergies())
    _expect(isinstance(s_a, ast.Assign) and _name(s_a.targets[0]) == "a"
            and isinstance(s_a.value, ast.Call) and _name(s_a.value.func) == "max", "a = max(...)")
    # L = (<expr>).sqrtm()
    _expect(isinstance(s_L, ast.Assign) and _name(s_L.targets[0]) == "L"
            and isinstance(s_L.value, ast.Call) and isinstance(s_L.value.func, ast.Attribute)
            and s_L.value.func.attr == "sqrtm" and not s_L.value.args, "L = (...).sqrtm()")
    k, v = tr(s_L.value.func.value, {"a": ("sc", "a"), "op": ("op", "op0")})
    _expect(k == "op", "an operator under the square root")
    out["sqrt_arg"] = v
    _expect(isinstance(s_ret, ast.Return) and isinstance(s_ret.value, ast.Tuple)
            and [_name(e) for e in s_ret.value.elts] == ["a", "L"], "return a, L")

    text = """(* GENERATED by tools/tx_c16_nmc.py from qutip/solver/nm_mcsolve.py NonMarkovianMCSolver._check_completeness - do not edit *)
From mathcomp Require Import all_ssreflect all_algebra.
From QV Require Import Base.MxHerm.
Set Implicit Arguments. Unset Strict Implicit. Unset Printing Implicit Defensive.
Import GRing.Theory.
Local Open Scope ring_scope.
Section Complete.
Variable R : fieldType.
Variable conj : {rmorphism R -> R}.
Variable n : nat.
Notation op := 'M[R]_n.
(* op = sum(... for L in ops) *)
Definition comp_summand (L : op) : op := %(summand)s.
Definition comp_op (ops : seq op) : op := \\sum_(L <- ops) comp_summand L.
(* a_candidate *)
Definition comp_cand (op0 : op) : R := %(cand)s.
(* first return: `if op == <this>` *)
Definition comp_test_rhs (c : R) (op0 : op) : op := %(test_rhs)s.
(* second return: L = (<this>).sqrtm() *)
Definition comp_sqrt_arg (a : R) (op0 : op) : op := %(sqrt_arg)s.
End Complete.
""" % out
    if write:
        gen = os.path.join(vlib.COQ, "Gen")
        os.makedirs(gen, exist_ok=True)
        p = os.path.join(gen, "C16_nm_complete.v")
        old = open(p).read() if os.path.exists(p) else None
        if old != text:
            with open(p, "w") as f:
                f.write(text)
    return out


if __name__ == "__main__":
    for k, v in generate(write="--write" in sys.argv).items():
        print(k, ":=", v)
