"""Translator for C03/C02: reads the flag expressions (`isherm=` / `isunitary=`
keyword arguments of `Qobj(...)` constructions and `self._isherm = ...`
assignments) out of the current qutip source with Python's `ast`, and emits
them as Coq terms over Python's tri-state values (coq/Gen/C03_flags.v).

Fail closed: any flag site in the scanned files that is neither in SITES nor
in WAIVED, or any expression outside the supported subset, raises.
"""
import ast
import os
import sys

HERE = os.path.dirname(os.path.abspath(__file__))
sys.path.insert(0, os.path.join(os.path.dirname(HERE), "lib"))
import vlib  # noqa: E402

# site name -> (file, function qualname, selector)
# selector: ("call", k)  = k-th Qobj(...) call (source order) inside the function
#           ("assign",)  = the `self._isherm = / self._isunitary =` assignments
#           ("loop",)    = loop-carried `isherm = ... / isunitary = ...` (tensor)
#           ("dict", key)= value stored under a dict key (solver metadata)
SITES = {
    "copy":         ("qutip/core/qobj.py", "Qobj.copy", ("call", 0)),
    "to":           ("qutip/core/qobj.py", "Qobj.to", ("call", 0)),
    "scalar_id":    ("qutip/core/qobj.py", "_require_equal_type.out", ("call", 0)),
    "add":          ("qutip/core/qobj.py", "Qobj.__add__", ("call", 0)),
    "sub":          ("qutip/core/qobj.py", "Qobj.__sub__", ("call", 0)),
    "mul":          ("qutip/core/qobj.py", "Qobj.__mul__", ("call", 0)),
    "matmul_outer": ("qutip/core/qobj.py", "Qobj.__matmul__", ("call", 1)),
    "matmul":       ("qutip/core/qobj.py", "Qobj.__matmul__", ("call", 2)),
    "neg":          ("qutip/core/qobj.py", "Qobj.__neg__", ("call", 0)),
    "pow":          ("qutip/core/qobj.py", "Qobj.__pow__", ("call", 0)),
    "dag":          ("qutip/core/qobj.py", "Qobj.dag", ("call", 0)),
    "conj":         ("qutip/core/qobj.py", "Qobj.conj", ("call", 0)),
    "trans":        ("qutip/core/qobj.py", "Qobj.trans", ("call", 0)),
    "proj":         ("qutip/core/qobj.py", "Qobj.proj", ("call", 0)),
    "expm":         ("qutip/core/qobj.py", "Qobj.expm", ("call", 0)),
    "logm":         ("qutip/core/qobj.py", "Qobj.logm", ("call", 0)),
    "unit_inplace": ("qutip/core/qobj.py", "Qobj.unit", ("assign",)),
    "permute":      ("qutip/core/qobj.py", "Qobj.permute", ("call", 0)),
    "transform":    ("qutip/core/qobj.py", "Qobj.transform", ("call", 0)),
    "tensor_step":  ("qutip/core/tensor.py", "tensor", ("loop",)),
    "expand_permute": ("qutip/core/tensor.py", "expand_operator", ("call", 0)),
    "spre":         ("qutip/core/superoperator.py", "spre", ("call", 0)),
    "spost":        ("qutip/core/superoperator.py", "spost", ("call", 0)),
    "sprepost":     ("qutip/core/superoperator.py", "sprepost", ("call", 0)),
    "solver_state": ("qutip/solver/solver_base.py", "Solver._prepare_state", ("dict", "isherm")),
}

# flag sites that exist in the scanned files but are out of scope, with reason
# solver functions that hand back a symmetrised matrix with a literal flag
SITES.update({
    "prop_ss":   ("qutip/solver/propagator.py", "propagator_steadystate", ("call", 0)),
    "ss_direct": ("qutip/solver/steadystate.py", "_steadystate_direct", ("call", 0)),
    "ss_power":  ("qutip/solver/steadystate.py", "_steadystate_power", ("setter", "rho_ss")),
})

# files whose flag literals belong to another property's obligations
DELEGATED_FILES = {
    "qutip/core/operators.py": "constructor literals: C20 (exact predicates for every constructor family)",
    "qutip/core/states.py": "constructor literals: C20",
    "qutip/core/gates.py": "gate tables: C20 translator tx_c20_gates + exact predicates",
    "qutip/random_objects.py": "class membership by exact predicates: C20",
    "qutip/core/energy_restricted.py": "constructor literals: C20",
}

WAIVED = {
    ("qutip/core/qobj.py", "Qobj.__init__"): "stores the keyword as given",
    ("qutip/core/qobj.py", "Qobj._initialize_data"): "copies flags of a Qobj argument when none given (identity)",
    ("qutip/core/qobj.py", "Qobj.isherm"): "lazy computation / setter",
    ("qutip/core/qobj.py", "Qobj.isunitary"): "lazy computation",
    ("qutip/core/qobj.py", "Qobj.check_herm"): "recomputation",
    ("qutip/core/qobj.py", "Qobj.permute"): "second construction (superoperator branch) passes no flags; checked below",
    ("qutip/core/qobj.py", "Qobj.trunc_neg"): "isherm=True on a sum of projectors (eigendecomposition oracle); dynamic oracle only",
    ("qutip/core/qobj.py", "Qobj.dag"): "shortcut guard handled by dag site",
    ("qutip/core/qobj.py", "Qobj.eigenstates"): "flag passed to the eigen solver, not to a result",
    ("qutip/core/qobj.py", "Qobj.eigenenergies"): "flag passed to the eigen solver",
    ("qutip/core/qobj.py", "Qobj.groundstate"): "flag passed to the eigen solver",
    ("qutip/core/qobj.py", "Qobj._str_header"): "printing",
    ("qutip/core/qobj.py", "Qobj.tr"): "consumer (Props C03_trace_real)",
    ("qutip/core/qobj.py", "Qobj.diag"): "consumer (Props C03_diag_real)",
    ("qutip/core/superop_reps.py", "_superpauli_basis"): "literal False/False on the Pauli basis change; dynamic oracle only",
    ("qutip/core/superop_reps.py", "_choi_to_stinespring"): "literal flags on zero-initialised rectangular blocks; dynamic oracle only",
}

ATOMS = {
    "self._isherm": "fa_h e", "self._isunitary": "fa_u e",
    "other._isherm": "fb_h e", "other._isunitary": "fb_u e",
    "A._isherm": "fa_h e", "A._isunitary": "fa_u e",
    "B._isherm": "fb_h e", "B._isunitary": "fb_u e",
    "arg._isherm": "fb_h e", "arg._isunitary": "fb_u e",
    "state._isherm": "fa_h e",
    "args[0]._isherm": "fa_h e", "args[0]._isunitary": "fa_u e",
    "out._isherm": "fa_h e", "out._isunitary": "fa_u e",
}
PREDS = {
    "multiplier.imag == 0": "p_real e", "scale.imag == 0": "p_real e",
    "norm_.imag == 0": "p_real e",
    "abs(abs(multiplier) - 1) < settings.core['atol']": "p_unitmod e",
    "abs(abs(scale) - 1) < settings.core['atol']": "p_unitmod e",
    "abs(abs(norm_) - 1) < settings.core['atol']": "p_unitmod e",
    "abs(norm_) - 1 < settings.core['atol']": "p_abs_lt1 e",
    "self.rhs.dims == state.dims": "p_same_dims e",
    "self._dims[0] == self._dims[1]": "p_same_dims e",
}
DATA_OPS = {
    "self._data": "DCopy", "_data.to(data_type, self._data)": "DCopy",
    "_data.add(self._data, other._data)": "DAdd",
    "_data.sub(self._data, other._data)": "DSub",
    "out": "DMul",
    "_data.matmul_outer(self._data, other._data)": "DMatmulOuter",
    "_data.matmul(self._data, other._data)": "DMatmul",
    "_data.neg(self._data)": "DNeg",
    "_data.pow(self._data, n)": "DPow",
    "_data.adjoint(self._data)": "DAdjoint",
    "_data.conj(self._data)": "DConj",
    "_data.transpose(self._data)": "DTranspose",
    "_data.project(self._data)": "DProject",
    "_data.expm(self._data, dtype=dtype)": "DExpm",
    "_data.logm(self._data)": "DLogm",
    "data": None,   # resolved per site below
    "_data.identity(self.shape[0], scale, dtype=type(self.data))": "DScaledId",
    "_data.kron_transpose(B.data, A.data)": "DKronT",
    "_data.add(rho_data, _data.adjoint(rho_data))": "DSymm",
}
SITE_DATA_OVERRIDE = {"permute": "DPermute", "expand_permute": "DPermute", "transform": "DTransform",
                      "spre": "DKronIdL", "spost": "DKronTIdR",
                      "tensor_step": "DKron", "unit_inplace": "DMul",
                      "solver_state": "DEvolved", "ss_direct": "DSymmHalf",
                      "ss_power": "DSymmNormTr"}
# what `data` must have been assigned from, for the overridden sites
SITE_DATA_SOURCE = {
    "permute": "_data.permute.dimensions(self.data, structure, order)",
    "expand_permute": "_data.permute.dimensions(out.data, structure, new_order)",
    "spre": "_data.kron(_data.identity_like(A.data), A.data)",
    "spost": "_data.kron_transpose(A.data, _data.identity_like(A.data))",
    "tensor_step": "_data.kron(out_data, arg.data)",
    "unit_inplace": "_data.mul(self.data, 1 / norm_)",
    "ss_direct": "_data.add(rho_ss, rho_ss.adjoint()) * 0.5",
}


class Unsupported(Exception):
    pass


def tr(node, selfvar=None):
    """Python expression -> Coq pyval term."""
    src = ast.unparse(node)
    if src in ATOMS:
        return "(%s)" % ATOMS[src]
    if src in PREDS:
        return "(PBool (%s))" % PREDS[src]
    if isinstance(node, ast.Constant):
        if node.value is None:
            return "PNone"
        if node.value is True:
            return "(PBool true)"
        if node.value is False:
            return "(PBool false)"
    if isinstance(node, ast.Name) and selfvar and node.id in selfvar:
        return "(%s)" % selfvar[node.id]
    if isinstance(node, ast.BoolOp):
        op = "py_and" if isinstance(node.op, ast.And) else "py_or"
        vals = [tr(v, selfvar) for v in node.values]
        out = vals[0]
        for v in vals[1:]:          # left-assoc is semantically equal for and/or chains
            out = "(%s %s %s)" % (op, out, v)
        return out
    if isinstance(node, ast.UnaryOp) and isinstance(node.op, ast.Not):
        return "(py_not %s)" % tr(node.operand, selfvar)
    if isinstance(node, ast.IfExp):
        return "(py_if %s %s %s)" % (tr(node.test, selfvar), tr(node.body, selfvar),
                                     tr(node.orelse, selfvar))
    raise Unsupported("flag expression outside the supported subset: %r" % src)


def functions(tree):
    """qualname -> FunctionDef (nested functions as outer.inner)."""
    out = {}

    def walk(node, prefix):
        for ch in ast.iter_child_nodes(node):
            if isinstance(ch, (ast.FunctionDef, ast.AsyncFunctionDef)):
                q = prefix + ch.name
                # property getter/setter pairs share a name: merge bodies
                if q in out:
                    out[q].body.extend(ch.body)
                else:
                    out[q] = ch
                walk(ch, q + ".")
            elif isinstance(ch, ast.ClassDef):
                walk(ch, prefix + ch.name + ".")
            else:
                walk(ch, prefix)
    walk(tree, "")
    return out


def own_nodes(fn):
    """Nodes of fn excluding nested function bodies."""
    stack = [n for n in fn.body
             if not isinstance(n, (ast.FunctionDef, ast.AsyncFunctionDef, ast.ClassDef))]
    while stack:
        n = stack.pop(0)
        yield n
        for ch in ast.iter_child_nodes(n):
            if not isinstance(ch, (ast.FunctionDef, ast.AsyncFunctionDef, ast.ClassDef)):
                stack.append(ch)


def qobj_calls(fn):
    calls = [n for n in own_nodes(fn) if isinstance(n, ast.Call)
             and isinstance(n.func, ast.Name) and n.func.id == "Qobj"]
    calls.sort(key=lambda n: (n.lineno, n.col_offset))
    return calls


def has_flag_site(fn):
    for n in own_nodes(fn):
        if isinstance(n, ast.Call):
            if any(k.arg in ("isherm", "isunitary") for k in n.keywords):
                return True
        if isinstance(n, ast.Assign):
            for t in n.targets:
                if isinstance(t, ast.Attribute) and t.attr in ("_isherm", "_isunitary",
                                                              "isherm", "isunitary"):
                    return True
        if isinstance(n, ast.Dict):
            for k in n.keys:
                if isinstance(k, ast.Constant) and k.value in ("isherm", "isunitary"):
                    return True
    return False


def local_assign(fn, name, before_line):
    """Expression most recently assigned to local `name` before a line
    (first assignment in a try body wins over its except handlers)."""
    best = None
    for n in own_nodes(fn):
        if isinstance(n, ast.Assign) and len(n.targets) == 1 and \
                isinstance(n.targets[0], ast.Name) and n.targets[0].id == name \
                and n.lineno < before_line:
            if best is None or n.lineno > best.lineno:
                # skip assignments inside except handlers
                best_candidate = n
                best = best_candidate
    # prefer the try-body assignment: the except handler re-assigns None
    cands = [n for n in own_nodes(fn) if isinstance(n, ast.Assign)
             and len(n.targets) == 1 and isinstance(n.targets[0], ast.Name)
             and n.targets[0].id == name and n.lineno < before_line]
    handlers = [h for t in own_nodes(fn) if isinstance(t, ast.Try) for h in t.handlers]
    in_handler = set()
    for h in handlers:
        for x in ast.walk(h):
            in_handler.add(id(x))
    cands = [c for c in cands if id(c) not in in_handler]
    if not cands:
        return None
    return max(cands, key=lambda n: n.lineno).value


def kw(call, name):
    for k in call.keywords:
        if k.arg == name:
            return k.value
    return None


def translate_site(name, spec, trees):
    path, qual, sel = spec
    fns = trees[path]
    if qual not in fns:
        raise Unsupported("function %s not found in %s" % (qual, path))
    fn = fns[qual]
    res = {"herm": "PNone", "unit": "PNone", "data": "DOther", "guard": None}
    if sel[0] == "call":
        calls = qobj_calls(fn)
        if sel[1] >= len(calls):
            raise Unsupported("%s: Qobj(...) call #%d not found" % (qual, sel[1]))
        call = calls[sel[1]]
        for flag, key in (("herm", "isherm"), ("unit", "isunitary")):
            node = kw(call, key)
            if node is None:
                continue
            if isinstance(node, ast.Name) and ast.unparse(node) not in ATOMS:
                val = local_assign(fn, node.id, call.lineno)
                if val is None:
                    raise Unsupported("%s: cannot resolve local %s" % (qual, node.id))
                node = val
            res[flag] = tr(node)
        d = call.args[0] if call.args else kw(call, "arg")
        dsrc = ast.unparse(d)
        if name in SITE_DATA_OVERRIDE:
            want = SITE_DATA_SOURCE.get(name)
            if want is not None:
                got = ast.unparse(local_assign(fn, dsrc, call.lineno)) \
                    if isinstance(d, ast.Name) else dsrc
                if got != want:
                    raise Unsupported("%s: data expression changed: %r" % (qual, got))
            res["data"] = SITE_DATA_OVERRIDE[name]
        else:
            if dsrc not in DATA_OPS or DATA_OPS[dsrc] is None:
                raise Unsupported("%s: unknown data expression %r" % (qual, dsrc))
            res["data"] = DATA_OPS[dsrc]
        if name == "mul":
            got = ast.unparse(local_assign(fn, "out", call.lineno))
            if got != "_data.mul(self._data, other)":
                raise Unsupported("__mul__: data expression changed: %r" % got)
        if name == "transform":
            pass  # data assembled in branches; flags are what is modelled
        if name == "dag":
            # the shortcut `if self._isherm: return self.copy()`
            first = fn.body[1] if isinstance(fn.body[0], ast.Expr) else fn.body[0]
            if isinstance(first, ast.If) and ast.unparse(first.body[0]) == "return self.copy()":
                res["guard"] = tr(first.test)
            else:
                res["guard"] = "PNone"
    elif sel[0] == "assign":
        for n in own_nodes(fn):
            if isinstance(n, ast.Assign) and isinstance(n.targets[0], ast.Attribute):
                t = n.targets[0]
                if t.attr == "_isherm":
                    res["herm"] = tr(n.value)
                if t.attr == "_isunitary":
                    res["unit"] = tr(n.value)
                if t.attr == "data" and name in SITE_DATA_SOURCE:
                    if ast.unparse(n.value) != SITE_DATA_SOURCE[name]:
                        raise Unsupported("%s: data expression changed: %r" % (
                            qual, ast.unparse(n.value)))
        res["data"] = SITE_DATA_OVERRIDE[name]
    elif sel[0] == "loop":
        loops = [n for n in own_nodes(fn) if isinstance(n, ast.For)]
        found = 0
        for lp in loops:
            for n in lp.body:
                if isinstance(n, ast.Assign) and isinstance(n.targets[0], ast.Name):
                    tn = n.targets[0].id
                    if tn == "isherm":
                        res["herm"] = tr(n.value, {"isherm": "fa_h e"})
                        found += 1
                    if tn == "isunitary":
                        res["unit"] = tr(n.value, {"isunitary": "fa_u e"})
                        found += 1
                    if tn == "out_data" and ast.unparse(n.value) != SITE_DATA_SOURCE[name]:
                        raise Unsupported("tensor: data expression changed")
        if found != 2:
            raise Unsupported("tensor: loop-carried flag updates not found")
        # initial values and the final construction must forward the locals
        init_h = ast.unparse(local_assign(fn, "isherm", loops[0].lineno))
        init_u = ast.unparse(local_assign(fn, "isunitary", loops[0].lineno))
        if (init_h, init_u) != ("args[0]._isherm", "args[0]._isunitary"):
            raise Unsupported("tensor: initial flags changed")
        call = qobj_calls(fn)[-1]
        if ast.unparse(kw(call, "isherm")) != "isherm" or \
                ast.unparse(kw(call, "isunitary")) != "isunitary":
            raise Unsupported("tensor: final Qobj(...) does not forward the locals")
        res["data"] = SITE_DATA_OVERRIDE[name]
    elif sel[0] == "setter":
        # <var> = <var> + <var>.dag(); <var> = <var> / <var>.tr(); <var>.isherm = True
        v = sel[1]
        stmts = [n for n in fn.body if isinstance(n, ast.Assign)]
        srcs = [ast.unparse(n) for n in stmts]
        want = ["%s = %s + %s.dag()" % (v, v, v), "%s = %s / %s.tr()" % (v, v, v)]
        flag = [n for n in stmts if isinstance(n.targets[0], ast.Attribute)
                and n.targets[0].attr in ("isherm", "_isherm", "isunitary", "_isunitary")]
        if len(flag) != 1 or ast.unparse(flag[0].targets[0]) != "%s.isherm" % v:
            raise Unsupported("%s: expected exactly one flag statement `%s.isherm = ...`" % (qual, v))
        k = stmts.index(flag[0])
        if k < 2 or srcs[k - 2:k] != want:
            raise Unsupported("%s: statements before the flag changed: %r" % (qual, srcs[max(0, k - 2):k]))
        # nothing may touch the variable between the flag statement and the return
        tail = fn.body[fn.body.index(flag[0]) + 1:]
        if [ast.unparse(t) for t in tail] != ["return %s" % v]:
            raise Unsupported("%s: statements after the flag changed" % qual)
        res["herm"] = tr(flag[0].value)
        res["data"] = SITE_DATA_OVERRIDE[name]
    elif sel[0] == "dict":
        val = None
        for n in own_nodes(fn):
            if isinstance(n, ast.Dict):
                for k, v in zip(n.keys, n.values):
                    if isinstance(k, ast.Constant) and k.value == sel[1]:
                        val = v
        if val is None:
            raise Unsupported("%s: dict key %s not found" % (qual, sel[1]))
        res["herm"] = tr(val)
        res["data"] = SITE_DATA_OVERRIDE[name]
    return res


def qobjevo_call_terms(repo):
    """QobjEvo.__call__ (Cython): the three statements that compute the
    isherm flag of the evaluated operator.  Read by text (the .pyx is not
    Python), reduced to Python expressions by dropping `cdef bint` and the
    `<bint>` cast (None -> False, True -> True), then translated like the
    others.  Any other shape of these statements fails closed."""
    import re
    src = open(os.path.join(repo, "qutip/core/cy/qobjevo.pyx")).read()
    m = re.search(r"    def __call__\(self.*?\n    cpdef ", src, flags=re.S)
    if not m:
        raise Unsupported("QobjEvo.__call__ not found")
    body = m.group(0)
    lines = [l.strip() for l in body.split("\n") if "isherm" in l and not l.strip().startswith("#")]
    want_shape = [r"^cdef bint isherm = (.+)$", r"^isherm &= (.+)$",
                  r"^return Qobj\(out, dims=self\._dims, copy=False, isherm=(.+)\)$"]
    if len(lines) != 3:
        raise Unsupported("QobjEvo.__call__: expected 3 isherm statements, found %r" % lines)
    exprs = []
    for l, pat in zip(lines, want_shape):
        mm = re.match(pat, l)
        if not mm:
            raise Unsupported("QobjEvo.__call__: unexpected statement %r" % l)
        exprs.append(mm.group(1))
    if "out = _data.add(out, obj.data, coeff)" not in body or \
            "cdef Data out = _data.mul(obj.data, coeff)" not in body:
        raise Unsupported("QobjEvo.__call__: data accumulation changed")
    atoms = {"obj._isherm": "fb_h e", "isherm": "fa_h e"}

    def trb(src_expr):
        e = src_expr.replace("<bint> ", "BINT__")
        node = ast.parse(e, mode="eval").body
        return trq(node)

    def trq(node):
        s = ast.unparse(node)
        if s == "BINT__obj._isherm":
            return "(PBool (truthy (fb_h e)))"       # <bint> None == False
        if s == "coeff.imag == 0":
            return "(PBool (p_real e))"
        if s == "isherm":
            return "(fa_h e)"
        if s == "None":
            return "PNone"
        if isinstance(node, ast.BoolOp):
            op = "py_and" if isinstance(node.op, ast.And) else "py_or"
            vals = [trq(v) for v in node.values]
            out = vals[0]
            for v in vals[1:]:
                out = "(%s %s %s)" % (op, out, v)
            return out
        raise Unsupported("QobjEvo.__call__: expression outside the subset: %r" % s)
    init = trb(exprs[0])
    # `a &= b` on bint: bitwise and of two booleans
    step = "(py_and (fa_h e) %s)" % trb(exprs[1])
    final = trb(exprs[2])
    return init, step, final


def generate(repo=None, out=None):
    repo = repo or vlib.REPO
    out = out or os.path.join(vlib.COQ, "Gen", "C03_flags.v")
    files = sorted({s[0] for s in SITES.values()} | {w[0] for w in WAIVED})
    # every Python file of the package (tests excluded) is scanned for flag sites
    for d, _, fs in os.walk(os.path.join(repo, "qutip")):
        if "/tests" in d + "/":
            continue
        for fname in fs:
            if fname.endswith(".py"):
                rel = os.path.relpath(os.path.join(d, fname), repo)
                if rel not in files and rel not in DELEGATED_FILES:
                    files.append(rel)
    trees = {}
    for f in files:
        mod = ast.parse(open(os.path.join(repo, f)).read())
        trees[f] = functions(mod)
        top = ast.FunctionDef(name="<module>", body=[n for n in mod.body], decorator_list=[],
                              args=None, lineno=0)
        if has_flag_site(top):
            raise Unsupported("flag site at module level of %s" % f)
    # completeness: every function with a flag site is listed or waived
    listed = {(s[0], s[1]) for s in SITES.values()} | set(WAIVED)
    for f, fns in trees.items():
        for q, fn in fns.items():
            if has_flag_site(fn) and (f, q) not in listed:
                raise Unsupported("new flag site not covered by a theorem: %s:%s" % (f, q))
    # Cython sources: textual scan, every assignment / keyword named like a flag
    # must be one of the known statements
    import re
    PYX_KNOWN = {
        "qutip/core/cy/qobjevo.pyx": [
            "cdef bint isherm = <bint> obj._isherm and coeff.imag == 0",
            "return Qobj(out, dims=self._dims, copy=False, isherm=isherm or None)"],
        "qutip/core/data/norm.pyx": [          # hint to the eigen-solver about op.dag() @ op
            "eigs = eigs_csr(op, isherm=True, vecs=False, tol=tol, maxiter=maxiter)"],
        "qutip/core/data/properties.pyx": ["isherm = _Dispatcher("],
    }
    pat = re.compile(r"(\b_?isherm|\b_?isunitary)\s*=(?!=)")
    for d, _, fs in os.walk(os.path.join(repo, "qutip")):
        if "/tests" in d + "/":
            continue
        for fname in fs:
            if not fname.endswith((".pyx", ".pxd", ".pxi")):
                continue
            rel = os.path.relpath(os.path.join(d, fname), repo)
            for line in open(os.path.join(d, fname)):
                code = line.split("#")[0].strip()
                if pat.search(code) and code not in PYX_KNOWN.get(rel, []):
                    raise Unsupported("new flag site in a Cython source: %s: %s" % (rel, code))
    # permute's second construction (superoperator branch) passes no flags
    pc = qobj_calls(trees["qutip/core/qobj.py"]["Qobj.permute"])
    if len(pc) != 2 or any(kw(pc[1], k) is not None for k in ("isherm", "isunitary")):
        raise Unsupported("Qobj.permute: second construction now passes flags")
    lines = ["(* GENERATED by tools/tx_c03_flags.py from %s - do not edit *)" % repo,
             "From Coq Require Import Bool String List.",
             "Import ListNotations.",
             "From QV Require Import Base.PyVal.", ""]
    sites = {}
    for name in SITES:
        r = translate_site(name, SITES[name], trees)
        sites[name] = r
        lines.append("Definition %s_herm (e : fenv) : pyval := %s." % (name, r["herm"]))
        lines.append("Definition %s_unit (e : fenv) : pyval := %s." % (name, r["unit"]))
        lines.append("Definition %s_data : dop := %s." % (name, r["data"]))
        if r["guard"] is not None:
            lines.append("Definition %s_shortcut_guard (e : fenv) : pyval := %s." % (name, r["guard"]))
        lines.append("")
    qi, qs, qf = qobjevo_call_terms(repo)
    lines.append("(* QobjEvo.__call__ (qobjevo.pyx): first term, each further term, final flag *)")
    lines.append("Definition qevo_init_herm (e : fenv) : pyval := %s." % qi)
    lines.append("Definition qevo_step_herm (e : fenv) : pyval := %s." % qs)
    lines.append("Definition qevo_final_herm (e : fenv) : pyval := %s." % qf)
    lines.append("")
    sites["qobjevo_call"] = {"init": qi, "step": qs, "final": qf}
    os.makedirs(os.path.dirname(out), exist_ok=True)
    with open(out, "w") as f:
        f.write("\n".join(lines))
    return sites


if __name__ == "__main__":
    s = generate()
    for k, v in s.items():
        print(k, v)
