"""C04 - library calls do not modify the objects handed to them.

Steps of a run
  1. proof step: Props/C04.v (checker soundness etc.)
  2. (T) tools/tx_c04_alias.py regenerates the IR of the anchored functions
     from the source under test; the verified checker `params_preserved` is
     run on each by vm_compute; Gen/C04_obl.v holds one lemma per function
     (accepted: `params_preserved fn = true` + the instantiated theorem;
     rejected: the verdict + a concrete execution of the model that writes a
     caller's cell), compiled on every run
  3. (K) every effect summary used by the IR is confirmed on real objects
     (identity + deep byte-level snapshots); random straight-line operation
     sequences are run both in the model (vm_compute) and on real
     Qobj/QobjEvo objects and the set of modified operands and the alias
     partition of the results are compared exactly
  4. implementation-level oracle (always on): public API x input forms x
     reuse patterns, deep snapshot of every argument before / after the call
     and after a repeated call, plus repeat-call equality of the results;
     then the documented in-place operations are applied to the RESULTS
     (arguments(), +=, @=, *=, compress, tidyup, to; tidyup / fill of returned
     Qobj, arrays, containers) and the original arguments are compared with
     their snapshots again: a container shared between a result and an
     argument (element list, feedback table, dict, list, data buffer) shows up
     there.  Solver-level entry points (steadystate all methods,
     pseudo_inverse, propagator, correlation, spectrum, floquet, brmesolve,
     krylovsolve, heomsolve, channel representations) are driven with
     Dense / CSR / Dia operands, as H + c_ops and as a ready-made Liouvillian
"""
import json
import os
import random
import sys
import traceback
import warnings

import numpy as np

import vlib
import tx_c04_alias as tx

warnings.filterwarnings("ignore")

# generated files carry the process id: two runs of the check may overlap
TAG = "p%d" % os.getpid()
IRMOD = "C04_ir_" + TAG
HEADER0 = ("From Coq Require Import List String Bool Arith.\nImport ListNotations.\n"
           "From QV Require Import Model.C04.\nOpen Scope string_scope.\n")
HEADER = HEADER0 + "Require Import QV.Gen.%s.\n" % IRMOD

SITE_ME = "qutip/solver/mesolve.py:MESolver.__init__"
SITE_DEP = "qutip/solver/solver_base.py:_solver_deprecation"
SITE_TIDY = "qutip/core/cy/qobjevo.pyx:QobjEvo.tidyup"


# ===================================================================== snapshots
def snap_data(d):
    import qutip.core.data as _data
    name = type(d).__name__
    try:
        if isinstance(d, _data.Dense):
            a = d.as_ndarray()
            return {"type": name, "shape": list(d.shape), "array_shape": list(a.shape),
                    "strides": list(a.strides), "fortran_flag": bool(d.fortran),
                    "fortran": bool(a.flags.f_contiguous and not a.flags.c_contiguous),
                    "bytes": a.tobytes(order="A").hex()}
        if isinstance(d, _data.CSR):
            s = d.as_scipy()
            n = int(s.indptr[-1])
            return {"type": name, "shape": list(d.shape),
                    "data": s.data[:n].tobytes().hex(),
                    "indices": s.indices[:n].tobytes().hex(),
                    "indptr": s.indptr.tobytes().hex()}
        if isinstance(d, _data.Dia):
            s = d.as_scipy()
            return {"type": name, "shape": list(d.shape),
                    "data": s.data.tobytes().hex(), "offsets": s.offsets.tobytes().hex()}
    except Exception as e:                                  # pragma: no cover
        return {"type": name, "error": repr(e)}
    return {"type": name, "array": d.to_array().tobytes().hex()}


def snap_coeff(c, depth, seen):
    out = {"type": type(c).__name__}
    vals = []
    for t in (0.0, 0.25, 1.0):
        try:
            vals.append(repr(complex(c(t))))
        except Exception as e:
            vals.append("raises " + type(e).__name__)
    out["values"] = vals
    if hasattr(c, "args"):
        try:
            out["args"] = snap(c.args, depth + 1, seen)
        except Exception:
            pass
    return out


def snap(o, depth=0, seen=None):
    """deep, canonical, JSON-able snapshot of an argument object"""
    import qutip
    from qutip.core.cy.coefficient import Coefficient
    import qutip.core.data as _data
    if seen is None:
        seen = set()
    if depth > 9:
        return "<deep>"
    if o is None or isinstance(o, (bool, int, str, bytes)):
        return repr(o)
    if isinstance(o, (float, complex, np.generic)):
        return repr(o)
    if isinstance(o, np.ndarray):
        if o.dtype == object:
            return {"nd": "object", "items": [snap(x, depth + 1, seen) for x in o.flat]}
        return {"nd": str(o.dtype), "shape": list(o.shape),
                "fortran": bool(o.flags.f_contiguous and not o.flags.c_contiguous),
                "bytes": o.tobytes(order="A").hex()}
    if isinstance(o, qutip.Qobj):
        d = {"Qobj": repr(o.dims), "data": snap_data(o.data)}
        if o.issuper:
            d["superrep"] = repr(o.superrep)
        return d
    if isinstance(o, qutip.QobjEvo):
        elems = []
        for part in o.to_list():
            if isinstance(part, qutip.Qobj):
                elems.append({"const": snap(part, depth + 1, seen)})
            elif isinstance(part[0], qutip.Qobj):
                elems.append({"qobj": snap(part[0], depth + 1, seen),
                              "coeff": snap_coeff(part[1], depth, seen)})
            else:
                elems.append({"func": getattr(part[0], "__qualname__", type(part[0]).__name__),
                              "args": snap(part[1], depth + 1, seen)})
        return {"QobjEvo": repr(o.dims), "num_elements": len(elems), "elems": elems,
                "feedback": sorted(o._feedback_functions.keys()),
                "solver_feedback": snap(dict(o._solver_only_feedback), depth + 1, seen)}
    if isinstance(o, Coefficient):
        return snap_coeff(o, depth, seen)
    if isinstance(o, _data.Data):
        return snap_data(o)
    if isinstance(o, dict):
        return {"dict": {repr(k): snap(v, depth + 1, seen) for k, v in o.items()}}
    if isinstance(o, (list, tuple)):
        return {type(o).__name__: [snap(x, depth + 1, seen) for x in o]}
    if isinstance(o, (set, frozenset)):
        return {"set": sorted(repr(x) for x in o)}
    if callable(o) and not hasattr(o, "__dict__"):
        return "<callable %s>" % getattr(o, "__qualname__", type(o).__name__)
    if id(o) in seen:
        return "<cycle>"
    if hasattr(o, "__dict__") and not isinstance(o, type) and not callable(o):
        seen = seen | {id(o)}
        d = {}
        for k, v in vars(o).items():
            if callable(v) and not isinstance(v, (qutip.Qobj, qutip.QobjEvo)):
                continue
            if k in ("_state_processors", "_early_finish_check", "_feedback"):
                continue
            d[k] = snap(v, depth + 1, seen)
        return {"obj:" + type(o).__name__: d}
    if callable(o):
        return "<callable %s>" % getattr(o, "__qualname__", type(o).__name__)
    return "<%s>" % type(o).__name__


def diff(a, b, path="", out=None, limit=12):
    """list of paths at which two snapshots differ"""
    if out is None:
        out = []
    if len(out) >= limit or a == b:
        return out
    if isinstance(a, dict) and isinstance(b, dict):
        for k in sorted(set(a) | set(b)):
            if k not in a:
                out.append("%s+%s" % (path, k))
            elif k not in b:
                out.append("%s-%s" % (path, k))
            else:
                if k == "elems" and len(a[k]) != len(b[k]):
                    n = min(len(a[k]), len(b[k]))      # appended terms: reported as num_elements
                    diff(a[k][:n], b[k][:n], path + "elems.", out, limit)
                else:
                    diff(a[k], b[k], path + k + ".", out, limit)
        return out
    if isinstance(a, list) and isinstance(b, list):
        if len(a) != len(b):
            out.append(path + "len")
        for i, (x, y) in enumerate(zip(a, b)):
            diff(x, y, "%s%d." % (path, i), out, limit)
        return out
    out.append(path.rstrip("."))
    return out


def strip_times(s):
    """drop wall-clock entries from a result snapshot"""
    if isinstance(s, dict):
        return {k: strip_times(v) for k, v in s.items()
                if "time" not in k or k in ("'times'", "times")}
    if isinstance(s, list):
        return [strip_times(x) for x in s]
    return s


def numclose(a, b, tol=1e-6, depth=0):
    """tolerance comparison of two results (validation only: solver output is
    not bit-reproducible between two calls)"""
    import qutip
    if depth > 8:
        return True
    try:
        if isinstance(a, qutip.Qobj) and isinstance(b, qutip.Qobj):
            return a.dims == b.dims and np.allclose(a.full(), b.full(), atol=tol, rtol=tol)
        if isinstance(a, qutip.QobjEvo) and isinstance(b, qutip.QobjEvo):
            return np.allclose(a(0.3).full(), b(0.3).full(), atol=tol, rtol=tol)
        if isinstance(a, (int, float, complex, np.generic, np.ndarray)) and \
                isinstance(b, (int, float, complex, np.generic, np.ndarray)):
            return np.shape(a) == np.shape(b) and bool(np.allclose(a, b, atol=tol, rtol=tol))
        if isinstance(a, (list, tuple)) and isinstance(b, (list, tuple)):
            return len(a) == len(b) and all(numclose(x, y, tol, depth + 1) for x, y in zip(a, b))
        if isinstance(a, dict) and isinstance(b, dict):
            return set(a) == set(b) and all(numclose(a[k], b[k], tol, depth + 1) for k in a
                                            if "time" not in str(k))
        if hasattr(a, "__dict__") and hasattr(b, "__dict__") and type(a) is type(b) \
                and not callable(a):
            va, vb = vars(a), vars(b)
            for k in va:
                if k in ("stats", "solver", "options", "seeds") or callable(va[k]) \
                        or k.startswith("_state_proc") or k == "_early_finish_check":
                    continue
                if k in vb and not numclose(va[k], vb[k], tol, depth + 1):
                    return False
            return True
    except Exception:
        return True
    return True


def mutable_ids(o, depth=0):
    """identities of the mutable parts of an object (for freshness checks)"""
    import qutip
    ids = set()
    if depth > 4 or o is None or isinstance(o, (bool, int, float, complex, str, bytes)):
        return ids
    ids.add(id(o))
    if isinstance(o, qutip.QobjEvo):
        ids.add(id(o._getstate()["elements"]))
        ids.add(id(o._feedback_functions))
        ids.add(id(o._solver_only_feedback))
    elif isinstance(o, qutip.Qobj):
        ids.add(id(o.data))
        try:
            import qutip.core.data as _data
            if isinstance(o.data, _data.Dense):
                a = o.data.as_ndarray()
                ids.add(("buf", a.__array_interface__["data"][0]))
        except Exception:
            pass
    elif isinstance(o, np.ndarray):
        ids.add(("buf", o.__array_interface__["data"][0]))
    elif isinstance(o, dict):
        pass
    elif isinstance(o, (list, tuple)):
        for x in o:
            ids |= mutable_ids(x, depth + 1)
    return ids


# ================================================================ input objects
def mats(rng, n=2):
    """small exactly representable matrices"""
    import qutip as q
    def m():
        a = np.array([[complex(rng.randint(-2, 2), rng.randint(-1, 1)) for _ in range(n)]
                      for _ in range(n)])
        if not a.any():
            a[0, n - 1] = 1
        return a
    H = m()
    H = H + H.conj().T
    return q.Qobj(H), q.Qobj(m()), q.Qobj(m())


class InjectedFailure(Exception):
    """raised by the time-dependent inputs of a scenario on their k-th evaluation"""


# failure injection: every coefficient function / operator function / e_ops
# callback used by the scenarios counts its evaluations here and raises when
# the countdown reaches zero
INJECT = {"countdown": None, "calls": 0}


def _tick():
    INJECT["calls"] += 1
    c = INJECT["countdown"]
    if c is not None:
        c -= 1
        INJECT["countdown"] = c
        if c <= 0:
            INJECT["countdown"] = None
            raise InjectedFailure("injected failure at evaluation %d" % INJECT["calls"])


def f_t(t, w=1.0):
    _tick()
    return w * t + 0.5


def f_E(t, E):
    _tick()
    return E


def f_s(t, s):
    _tick()
    return 1.0


def f_targs(t, args):
    _tick()
    return args["w"] * t + 0.5


def f_sin(t):
    _tick()
    return np.sin(2 * np.pi * t)


def H_func(t, args):
    import qutip as q
    _tick()
    return q.sigmaz() + args["w"] * t * q.sigmax()


def H_func_w(t, w=1.0):
    import qutip as q
    _tick()
    return q.sigmaz() + w * t * q.sigmax()


def L_func_w(t, w=1.0):
    import qutip as q
    _tick()
    return q.liouvillian(q.sigmaz() + w * t * q.sigmax())


def e_cb(t, state):
    """e_ops callback"""
    _tick()
    return float(abs(state.norm()))


def make_H(form, dtype, sup, rng):
    """Hamiltonian / Liouvillian in the given input form"""
    import qutip as q
    H0, H1, _ = mats(rng)
    H1 = H1 + H1.dag()                       # physical (Hermitian) generators
    if sup:
        H0, H1 = q.liouvillian(H0), q.liouvillian(H1)
    H0, H1 = H0.to(dtype), H1.to(dtype)
    if form == "const":
        return H0
    if form == "list":
        return [H0, [H1, f_t]]
    if form == "evo":
        return q.QobjEvo([H0, [H1, f_t]], args={"w": 1.0})
    if form == "evo1":                       # single time-dependent term
        return q.QobjEvo([[H1, f_t]], args={"w": 1.0})
    if form == "array":
        return q.QobjEvo([H0, [H1, np.array([0.5, 1.0, 1.5])]], tlist=np.array([0.0, 0.5, 1.0]))
    if form == "func":
        if sup:
            return q.QobjEvo(L_func_w, args={"w": 1.0})
        return q.QobjEvo(H_func_w, args={"w": 1.0})
    raise ValueError(form)


def make_state(kind, order):
    import qutip as q
    import qutip.core.data as _data
    psi = (q.basis(2, 0) + 2 * q.basis(2, 1)).unit()
    st = psi if kind == "ket" else q.ket2dm(psi)
    if order == "csr":
        return st.to("CSR")
    arr = st.full()
    if order == "Fv":                       # Fortran-ordered view of a larger buffer
        big = np.asfortranarray(np.zeros((arr.shape[0], arr.shape[1] + 2), dtype=complex))
        big[:, :arr.shape[1]] = arr
        arr = big[:, :arr.shape[1]]
    elif order == "Cv":                     # C-ordered view of a larger buffer
        big = np.zeros((arr.shape[0] + 2, arr.shape[1]), dtype=complex)
        big[:arr.shape[0], :] = arr
        arr = big[:arr.shape[0], :]
    else:
        arr = np.asfortranarray(arr) if order == "F" else np.ascontiguousarray(arr)
    return q.Qobj(_data.Dense(arr, copy=False), dims=st.dims, copy=False)


# ==================================================================== scenarios
class Scenario:
    def __init__(self, name, site, build, call, repeat=True, compare=True, exact=None,
                 perturb=True, inject=True):
        self.name, self.site, self.build, self.call = name, site, build, call
        self.repeat, self.compare, self.perturb, self.inject = repeat, compare, perturb, inject
        fam = name.split(":")[0]
        # exact repeat-call equality where every operation is exact; solver
        # output is compared with a tolerance (validation, not an obligation)
        self.exact = exact if exact is not None else fam in (
            "arith", "unary", "inplace", "tidyup", "eval", "coeff", "super", "result")


def scenarios(rng, quick):
    import qutip as q
    import qutip.core.data as _data
    out = []
    dtypes = ["CSR", "Dense", "Dia"]
    tl = [0.0, 0.5, 1.0]
    OPT = {"progress_bar": False, "store_states": True}

    def add(name, site, build, call, **kw):
        out.append(Scenario(name, site, build, call, **kw))

    # ---- arithmetic on Qobj / QobjEvo
    def b_arith(kind_a, kind_b, dtype):
        def build():
            A, B, C = mats(rng)
            A, B, C = A.to(dtype), B.to(dtype), C.to(dtype)
            objs = {"qobj": lambda X: X, "evo": lambda X: q.QobjEvo([X, [C, f_t]]),
                    "num": lambda X: 3,
                    # time-dependent operand with a solver feedback argument
                    "evofb": lambda X: q.QobjEvo(
                        [X, [C, f_E]],
                        args={"E": q.SESolver.ExpectFeedback(q.sigmaz().to(dtype), default=0.)}),
                    # ... with a solver-only feedback (state / collapse)
                    "evosfb": lambda X: q.QobjEvo(
                        [X, [C, f_s]], args={"s": q.MESolver.StateFeedback(default=q.qeye(2))}),
                    "evocfb": lambda X: q.QobjEvo(
                        [X, [C, f_s]], args={"s": q.MCSolver.CollapseFeedback()})}
            return {"A": objs[kind_a](A), "B": objs[kind_b](B)}
        return build
    BIN = {"add": lambda i: i["A"] + i["B"], "sub": lambda i: i["A"] - i["B"],
           "mul": lambda i: i["A"] * i["B"], "matmul": lambda i: i["A"] @ i["B"],
           "rsub": lambda i: i["B"] - i["A"], "and": lambda i: i["A"] & i["B"]}
    for ka, kb in [("qobj", "qobj"), ("evo", "qobj"), ("qobj", "evo"), ("evo", "evo"),
                   ("evo", "num"), ("qobj", "num"),
                   ("evo", "evofb"), ("evofb", "evo"), ("evo", "evosfb"), ("evosfb", "evo"),
                   ("evo", "evocfb"), ("qobj", "evofb"), ("evofb", "qobj"), ("evofb", "evosfb"),
                   ("evosfb", "evofb"), ("evofb", "num")]:
        for op, fn in BIN.items():
            if kb == "num" and op in ("matmul", "and"):
                continue
            if op == "and" and ("fb" in ka or "fb" in kb):
                continue          # tensor of operators with feedback is refused by qutip
            if kb == "num" and ka == "qobj" and op in ("add", "sub", "rsub"):
                pass
            for dt in (dtypes if not quick else [dtypes[rng.randrange(3)]]):
                add("arith:%s:%s:%s:%s" % (op, ka, kb, dt), "arith:" + op,
                    b_arith(ka, kb, dt), fn)
    UN = {"neg": lambda i: -i["A"], "dag": lambda i: i["A"].dag(), "conj": lambda i: i["A"].conj(),
          "trans": lambda i: i["A"].trans(), "div": lambda i: i["A"] / 2,
          "copy": lambda i: i["A"].copy()}
    for ka in ("qobj", "evo", "evofb", "evosfb"):
        for op, fn in UN.items():
            add("unary:%s:%s" % (op, ka), "unary:" + op, b_arith(ka, "num", dtypes[rng.randrange(3)]), fn)

    # ---- documented in-place QobjEvo operations: the *other* operand and the
    #      object the receiver was copied from must stay the same
    def b_inplace(kind_b):
        def build():
            A0, B, C = mats(rng)
            A = q.QobjEvo([A0, [C, f_targs]], args={"w": 1.0})
            Bv = {"qobj": B, "evo": q.QobjEvo([B, [C, f_t]]), "num": 2,
                  "coeff": q.coefficient(f_t)}[kind_b]
            return {"A": A, "B": Bv, "args": {"w": 3.0}}
        return build

    def inpl(op):
        def call(i):
            Cc = i["A"].copy()
            if op == "iadd":
                Cc += i["B"]
            elif op == "isub":
                Cc -= i["B"]
            elif op == "imul":
                Cc *= i["B"]
            elif op == "imatmul":
                Cc @= i["B"]
            elif op == "arguments":
                Cc.arguments(i["args"])
            elif op == "compress":
                Cc += i["A"]
                Cc.compress()
            elif op == "to":
                Cc.to(_data.Dense)
            return Cc
        return call
    for op in ("iadd", "isub", "imul", "imatmul"):
        for kb in ("qobj", "evo") + (("num", "coeff") if op == "imul" else ()):
            add("inplace:%s:%s" % (op, kb), "qobjevo:" + op, b_inplace(kb), inpl(op))
    for op in ("arguments", "compress", "to"):
        add("inplace:%s" % op, "qobjevo:" + op, b_inplace("qobj"), inpl(op))

    # tidy-up of a copy / of a sum must not reach the original operands
    def b_tidy():
        A0 = q.Qobj(np.array([[1, 2.0 ** -50], [0, 1]]))
        X = q.Qobj(np.array([[0, 1], [2.0 ** -50, 0]]))
        return {"A": q.QobjEvo([A0, [q.sigmax(), f_t]]), "X": X}
    add("tidyup:copy", SITE_TIDY, b_tidy, lambda i: i["A"].copy().tidyup())
    add("tidyup:sum", SITE_TIDY, b_tidy, lambda i: (i["A"] + i["X"]).tidyup())
    add("tidyup:qobjevo-from-qobj", SITE_TIDY, b_tidy, lambda i: q.QobjEvo(i["X"]).tidyup())

    # ---- evaluation of a QobjEvo on states in every layout
    def b_eval(form, dtype, sup, kind, order):
        def build():
            H = make_H(form, dtype, sup, rng)
            H = H if isinstance(H, q.QobjEvo) else q.QobjEvo(H)
            st = make_state("dm" if sup else kind, order)
            if sup and kind == "ket":       # operator-ket; kind == "dm": the matrix itself
                st = q.operator_to_vector(st)
                if order in ("F", "Fv"):
                    st = q.Qobj(_data.Dense(np.asfortranarray(st.full()), copy=False),
                                dims=st.dims, copy=False)
            return {"H": H, "state": st, "args": {"w": 2.0}}
        return build
    EV = {"call": lambda i: i["H"](0.5), "call_args": lambda i: i["H"](0.5, i["args"]),
          "matmul": lambda i: i["H"].matmul(0.5, i["state"]),
          "expect": lambda i: i["H"].expect(0.5, i["state"], check_real=False),
          "matmul_data": lambda i: i["H"].matmul_data(0.5, i["state"].data),
          "expect_data": lambda i: i["H"].expect_data(0.5, i["state"].data),
          "to_list": lambda i: len(i["H"].to_list()),
          "dag": lambda i: i["H"].dag()}
    forms = ["evo", "func", "array", "evo1"]
    for form in forms:
        for sup in (False, True):
            for order in ("C", "F", "csr", "Fv", "Cv"):
                kinds = ["ket", "dm"]
                for kind in kinds:
                    ops = list(EV) if not quick else rng.sample(list(EV), 3)
                    if kind == "dm" and order in ("F", "Fv"):
                        ops = sorted(set(ops) | {"expect", "expect_data"})
                    for op in ops:
                        dt = dtypes[rng.randrange(3)]
                        add("eval:%s:%s:%s:%s:%s:%s" % (op, form, "super" if sup else "oper", kind, order, dt),
                            "qobjevo:" + op, b_eval(form, dt, sup, kind, order), EV[op])

    # ---- calls that fail on a mismatching second operand: arguments must be
    #      exactly as before (shape, memory order, strides included)
    def b_mis(order, sup):
        def build():
            H = make_H("evo", "CSR", sup, rng)
            H = H if isinstance(H, q.QobjEvo) else q.QobjEvo(H)
            good = make_state("dm", order)
            bad3 = q.Qobj(_data.Dense(np.asfortranarray(np.eye(3, dtype=complex)) if order.startswith("F")
                                      else np.eye(3, dtype=complex), copy=False), copy=False)
            return {"H": H, "state": good, "bad": bad3, "X": q.qeye(3)}
        return build
    MIS = {
        "expect_data": lambda i: i["H"].expect_data(0.5, i["bad"].data),
        "matmul_data": lambda i: i["H"].matmul_data(0.5, i["bad"].data),
        "expect": lambda i: i["H"].expect(0.5, i["bad"]),
        "matmul": lambda i: i["H"].matmul(0.5, i["bad"]),
        "qobj-matmul": lambda i: i["state"] @ i["bad"],
        "evo-matmul": lambda i: i["H"] @ i["X"],
        "evo-iadd": lambda i: i["H"].copy().__iadd__(i["X"]),
        "qobj-expect": lambda i: q.expect(i["X"], i["state"]),
        "mesolve": lambda i: q.mesolve(i["H"], i["bad"], tl, c_ops=[i["X"]], options=dict(OPT)),
        "liouvillian": lambda i: q.liouvillian(i["state"], [i["X"]]),
    }
    for order in ("C", "F", "Fv"):
        for sup in (False, True):
            for nm, fn in MIS.items():
                add("mismatch:%s:%s:%s" % (nm, "super" if sup else "oper", order),
                    "mismatch:" + nm, b_mis(order, sup), fn, compare=False)

    # ---- coefficients
    def b_coeff():
        return {"args": {"w": 2.0}, "new": {"w": 5.0},
                "arr": np.array([0.0, 1.0, 4.0]), "tlist": np.array([0.0, 0.5, 1.0])}

    def c_repl(i):
        c = q.coefficient(f_targs, args=i["args"])
        c2 = c.replace_arguments(i["new"])
        return [complex(c(0.5)), complex(c2(0.5))]
    add("coeff:replace_arguments", "coefficient:replace_arguments", b_coeff, c_repl)
    add("coeff:array", "coefficient:array", b_coeff,
        lambda i: complex(q.coefficient(i["arr"], tlist=i["tlist"])(0.3)))

    def c_arith(i):
        c1 = q.coefficient(f_targs, args=i["args"])
        c2 = q.coefficient(i["arr"], tlist=i["tlist"])
        return [complex((c1 + c2)(0.3)), complex((c1 * c2)(0.3)), complex(c1.conj()(0.3))]
    add("coeff:arith", "coefficient:arith", b_coeff, c_arith)

    # ---- superoperator constructors
    def b_sup(evo):
        def build():
            H, a, b = mats(rng)
            if evo:
                a = q.QobjEvo([a, [b, f_t]])
            return {"H": H, "a": a, "c_ops": [a, b]}
        return build
    for evo in (False, True):
        tag = "evo" if evo else "qobj"
        add("super:liouvillian:" + tag, "superoperator:liouvillian", b_sup(evo),
            lambda i: q.liouvillian(i["H"], i["c_ops"]))
        add("super:lindblad:" + tag, "superoperator:lindblad_dissipator", b_sup(evo),
            lambda i: q.lindblad_dissipator(i["a"]))
        add("super:spre_spost:" + tag, "superoperator:spre", b_sup(evo),
            lambda i: [q.spre(i["a"]), q.spost(i["a"]), q.sprepost(i["a"], i["H"])])
    add("super:vec", "superoperator:operator_to_vector", lambda: {"rho": make_state("dm", "F")},
        lambda i: q.vector_to_operator(q.operator_to_vector(i["rho"])))
    add("qobj:misc", "qobj:misc", lambda: {"A": mats(rng)[0], "psi": make_state("ket", "F")},
        lambda i: [i["A"].expm(), i["A"].unit(), i["A"].ptrace(0), q.expect(i["A"], i["psi"]),
                   i["A"].to("CSR"), i["A"].to("Dense", copy=True), i["A"].eigenenergies(),
                   i["psi"].proj()])

    # ---- solver functions
    def b_solve(form, dtype, sup, kind, order, with_c):
        def build():
            H = make_H(form, dtype, sup, rng)
            _, a, b = mats(rng)
            c_ops = [q.sigmam().to(dtype), q.QobjEvo([[q.sigmaz(), f_t]])] if with_c else []
            return {"H": H, "state": make_state(kind, order), "tlist": list(tl),
                    "tlist_np": np.array(tl), "c_ops": c_ops,
                    "e_ops": [q.sigmaz(), q.QobjEvo([[q.sigmax(), f_t]]), e_cb],
                    "args": {"w": 2.0}, "options": dict(OPT)}
        return build

    def sname(x):
        return "qutip/solver/%s.py:%s" % (x, x)
    hforms = ["const", "list", "evo", "func"]
    for form in hforms:
        for order in ("C", "F"):
            dt = dtypes[rng.randrange(3)]
            add("sesolve:%s:%s:%s" % (form, order, dt), sname("sesolve"),
                b_solve(form, dt, False, "ket", order, False),
                lambda i: q.sesolve(i["H"], i["state"], i["tlist"], e_ops=i["e_ops"],
                                    args=i["args"], options=i["options"]))
        for sup in (False, True):
            for kind in ("ket", "dm"):
                dt = dtypes[rng.randrange(3)]
                order = "CF"[rng.randrange(2)]
                add("mesolve:%s:%s:%s:%s:%s" % (form, "super" if sup else "oper", kind, order, dt),
                    sname("mesolve"), b_solve(form, dt, sup, kind, order, True),
                    lambda i: q.mesolve(i["H"], i["state"], i["tlist_np"], c_ops=i["c_ops"],
                                        e_ops=i["e_ops"], args=i["args"], options=i["options"]))
        add("mcsolve:%s" % form, sname("mcsolve"),
            b_solve(form, dtypes[rng.randrange(3)], False, "ket", "C", True),
            lambda i: q.mcsolve(i["H"], i["state"], i["tlist"], c_ops=i["c_ops"], e_ops=i["e_ops"],
                                args=i["args"], options=i["options"], ntraj=2, seeds=3))
    # deprecated keyword route of the solver functions
    for fn_name, fn in (("sesolve", lambda i: q.sesolve(i["H"], i["state"], i["tlist"], options=i["options"], progress_bar=False)),
                        ("mesolve", lambda i: q.mesolve(i["H"], i["state"], i["tlist"], c_ops=i["c_ops"], options=i["options"], progress_bar=False)),
                        ("mcsolve", lambda i: q.mcsolve(i["H"], i["state"], i["tlist"], c_ops=i["c_ops"], options=i["options"], ntraj=2, seeds=1, progress_bar=False))):
        def b_dep():
            d = b_solve("const", "CSR", False, "ket", "C", True)()
            d["options"] = {"store_states": True}
            return d
        add("deprecated-kwarg:%s" % fn_name, SITE_DEP, b_dep, fn)

    # a generator that does not preserve hermiticity, state with unknown
    # isherm cache: the answer must not depend on the call being the first
    def b_nonherm():
        d = b_solve("const", "CSR", False, "dm", "C", False)()
        d["H"] = q.QobjEvo([q.sigmaz(), [q.Qobj(np.array([[0, 1], [0, 0]])), f_t]])
        d["c_ops"] = [q.sigmam()]
        d["e_ops"] = [q.sigmaz()]
        return d
    add("nonherm:mesolve", "qutip/solver/solver_base.py:Solver._prepare_state", b_nonherm,
        lambda i: q.mesolve(i["H"], i["state"], i["tlist"], c_ops=i["c_ops"], e_ops=i["e_ops"],
                            options=i["options"]).expect)

    # ---- solver classes, reuse patterns
    def run_twice(cls_build):
        def call(i):
            S = cls_build(i)
            r1 = S.run(i["state"], i["tlist"], e_ops=i["e_ops"], args=i["args"])
            S2 = cls_build(i)                       # second solver from the same objects
            r2 = S2.run(i["state"], i["tlist"], e_ops=i["e_ops"])
            S.start(i["state"], 0.0)
            S.step(0.5, args=i["args"])
            return [r1.expect, r2.expect]
        return call
    for form in ("const", "evo", "func", "evo1"):
        add("SESolver:%s" % form, "qutip/solver/sesolve.py:SESolver",
            b_solve(form, "CSR", False, "ket", "C", False),
            run_twice(lambda i: q.SESolver(i["H"], options=i["options"])))
        for sup in (False, True):
            for with_c in (True, False):
                add("MESolver:%s:%s:%s" % (form, "super" if sup else "oper", "c_ops" if with_c else "no_c_ops"),
                    SITE_ME, b_solve(form, dtypes[rng.randrange(3)], sup, "dm", "F", with_c),
                    run_twice(lambda i: q.MESolver(i["H"], i["c_ops"], options=i["options"])))

    def mc_call(i):
        S = q.MCSolver(i["H"], i["c_ops"], options=i["options"])
        r1 = S.run(i["state"], i["tlist"], ntraj=2, e_ops=i["e_ops"], seeds=5, args=i["args"])
        r2 = S.run(i["state"], i["tlist"], ntraj=2, e_ops=i["e_ops"], seeds=5, args=i["args"])
        return [r1.average_expect, r2.average_expect]
    for form in ("const", "evo"):
        for sup in (False, True):
            add("MCSolver:%s:%s" % (form, "super" if sup else "oper"), "qutip/solver/mcsolve.py:MCSolver",
                b_solve(form, "CSR", sup, "ket", "C", True), mc_call)

    def prop_call(i):
        P = q.Propagator(i["H"], c_ops=i["c_ops"], args=i["args"], options=i["options"])
        U1 = P(0.5)
        U2 = P(1.0, w=3.0)
        U3 = q.propagator(i["H"], 0.5, c_ops=i["c_ops"], args=i["args"], options=i["options"])
        return [U1, U2, U3]
    for form in ("const", "list", "evo"):
        for with_c in (False, True):
            add("Propagator:%s:%s" % (form, with_c), "qutip/solver/propagator.py:Propagator",
                b_solve(form, "CSR", False, "ket", "C", with_c), prop_call)

    # ---- results merged twice
    def b_merge(keep, states):
        def build():
            o = {"progress_bar": False, "keep_runs_results": keep, "store_states": states}
            kw = dict(e_ops=[q.sigmaz()], options=o)
            r1 = q.mcsolve(q.sigmax(), q.basis(2, 0), tl, [q.sigmam()], ntraj=2, seeds=1, **kw)
            r2 = q.mcsolve(q.sigmax(), q.basis(2, 0), tl, [q.sigmam()], ntraj=3, seeds=2, **kw)
            return {"r1": r1, "r2": r2}
        return build
    for keep in (False, True):
        for states in (False, True):
            add("merge:add:%s:%s" % (keep, states), "qutip/solver/multitrajresult.py:MultiTrajResult.merge",
                b_merge(keep, states), lambda i: (i["r1"] + i["r2"]).average_expect)
            add("merge:p:%s:%s" % (keep, states), "qutip/solver/multitrajresult.py:MultiTrajResult.merge",
                b_merge(keep, states), lambda i: i["r1"].merge(i["r2"], p=0.25).average_expect)

    def res_ctor(i):
        from qutip.solver.multitrajresult import MultiTrajResult
        r = MultiTrajResult(i["e_ops"], i["options"], solver="x")
        return sorted(r.options.keys())
    add("result:ctor", "qutip/solver/multitrajresult.py:MultiTrajResult.__init__",
        lambda: {"e_ops": [q.sigmaz()], "options": {"keep_runs_results": False, "store_states": None,
                                                    "store_final_state": False}},
        res_ctor)
    # ---- solver-level entry points: every storage format, H + c_ops and a
    #      ready-made Liouvillian
    def b_sys(form, dtype, n=2):
        def build():
            sz, sx, sm = q.sigmaz(), q.sigmax(), q.sigmam()
            H = (sz + 0.5 * sx).to(dtype)
            c_ops = [(0.7 * sm).to(dtype), (0.3 * sz).to(dtype)]
            d = {"a": sm.to(dtype), "b": sm.dag().to(dtype),
                 "rho0": make_state("dm", "F"), "psi0": make_state("ket", "C"),
                 "tlist": [0.0, 0.25, 0.5], "taulist": np.array([0.0, 0.25, 0.5]),
                 "wlist": np.array([-1.0, 0.0, 1.0]),
                 "options": {"progress_bar": False}}
            if form == "L":
                d["H"] = q.liouvillian(H, c_ops).to(dtype)
                d["c_ops"] = []
            else:
                d["H"] = H
                d["c_ops"] = c_ops
            return d
        return build
    SS = {
        "direct": {}, "direct-solve": {"solver": "solve"}, "direct-dense": {"sparse": False},
        "direct-spsolve": {"solver": "spsolve"}, "direct-lstsq": {"solver": "lstsq"},
        "direct-gmres": {"solver": "gmres"},
        "eigen": {"method": "eigen"}, "eigen-dense": {"method": "eigen", "sparse": False},
        "svd": {"method": "svd"}, "power": {"method": "power"},
        "power-gmres": {"method": "power", "solver": "gmres"},
        "propagator": {"method": "propagator"},
    }
    API = {}
    for nm, kw in SS.items():
        API["steadystate:" + nm] = (
            "qutip/solver/steadystate.py:steadystate",
            lambda i, kw=kw: q.steadystate(i["H"], i["c_ops"], **kw), ("Hc", "L"))
    for meth in ("splu", "direct", "numpy", "scipy"):
        API["pseudo_inverse:" + meth] = (
            "qutip/solver/steadystate.py:pseudo_inverse",
            lambda i, meth=meth: q.pseudo_inverse(i["H"], method=meth), ("L",))
    API["propagator"] = ("qutip/solver/propagator.py:propagator",
                         lambda i: q.propagator(i["H"], 0.5, c_ops=i["c_ops"], options=i["options"]),
                         ("Hc", "L"))
    API["propagator_steadystate"] = (
        "qutip/solver/propagator.py:propagator_steadystate",
        lambda i: q.propagator_steadystate(q.propagator(i["H"], 2.0, c_ops=i["c_ops"], options=i["options"])),
        ("Hc",))
    API["mesolve"] = ("qutip/solver/mesolve.py:mesolve",
                      lambda i: q.mesolve(i["H"], i["rho0"], i["tlist"], c_ops=i["c_ops"],
                                          e_ops=[i["a"]], options=i["options"]), ("Hc", "L"))
    API["correlation_2op_1t"] = (
        "qutip/solver/correlation.py:correlation_2op_1t",
        lambda i: q.correlation_2op_1t(i["H"], None, i["taulist"], i["c_ops"], i["a"], i["b"]),
        ("Hc", "L"))
    API["correlation_2op_1t:rho0"] = (
        "qutip/solver/correlation.py:correlation_2op_1t",
        lambda i: q.correlation_2op_1t(i["H"], i["rho0"], i["taulist"], i["c_ops"], i["a"], i["b"],
                                       reverse=True), ("Hc", "L"))
    API["correlation_2op_2t"] = (
        "qutip/solver/correlation.py:correlation_2op_2t",
        lambda i: q.correlation_2op_2t(i["H"], i["rho0"], i["tlist"], i["taulist"], i["c_ops"],
                                       i["a"], i["b"]), ("Hc", "L"))
    API["correlation_3op_1t"] = (
        "qutip/solver/correlation.py:correlation_3op_1t",
        lambda i: q.correlation_3op_1t(i["H"], i["rho0"], i["taulist"], i["c_ops"], i["a"], i["b"],
                                       i["a"]), ("Hc",))
    API["coherence_function_g1"] = (
        "qutip/solver/correlation.py:coherence_function_g1",
        lambda i: q.coherence_function_g1(i["H"], None, i["taulist"], i["c_ops"], i["a"]), ("Hc",))
    API["spectrum:es"] = ("qutip/solver/spectrum.py:spectrum",
                          lambda i: q.spectrum(i["H"], i["wlist"], i["c_ops"], i["a"], i["b"]),
                          ("Hc", "L"))
    API["spectrum:pi"] = ("qutip/solver/spectrum.py:spectrum",
                          lambda i: q.spectrum(i["H"], i["wlist"], i["c_ops"], i["a"], i["b"],
                                               solver="pi"), ("Hc", "L"))
    API["spectrum:solve"] = ("qutip/solver/spectrum.py:spectrum",
                             lambda i: q.spectrum(i["H"], i["wlist"], i["c_ops"], i["a"], i["b"],
                                                  solver="solve"), ("Hc",))

    def _spec():
        return q.coefficient(lambda w: 0.1 * (w > 0), args={"w": 0})
    API["brmesolve"] = (
        "qutip/solver/brmesolve.py:brmesolve",
        lambda i: q.brmesolve(i["H"], i["rho0"], i["tlist"], a_ops=[[i["a"] + i["b"], _spec()]],
                              c_ops=i["c_ops"], e_ops=[i["a"]], options=i["options"]), ("Hc",))
    API["bloch_redfield_tensor"] = (
        "qutip/core/blochredfield.py:bloch_redfield_tensor",
        lambda i: q.bloch_redfield_tensor(i["H"], [[i["a"] + i["b"], _spec()]], i["c_ops"]), ("Hc",))
    API["krylovsolve"] = (
        "qutip/solver/krylovsolve.py:krylovsolve",
        lambda i: q.krylovsolve(i["H"], i["psi0"], i["tlist"], 2, e_ops=[i["a"] + i["b"]],
                                options=i["options"]), ("H",))

    def _fH(i):
        return [i["H"], [i["a"] + i["b"], f_sin]]
    API["fsesolve"] = ("qutip/solver/floquet.py:fsesolve",
                       lambda i: q.fsesolve(_fH(i), i["psi0"], i["tlist"], T=1.0,
                                            e_ops=[i["a"] + i["b"]]), ("H",))
    API["FloquetBasis"] = ("qutip/solver/floquet.py:FloquetBasis",
                           lambda i: q.FloquetBasis(q.QobjEvo(_fH(i)), 1.0).mode(0.3), ("H",))
    API["fmmesolve"] = (
        "qutip/solver/floquet.py:fmmesolve",
        lambda i: q.fmmesolve(_fH(i), i["rho0"], i["tlist"], c_ops=[i["a"] + i["b"]],
                              spectra_cb=[lambda w: 0.1 * (w > 0)], T=1.0,
                              options=i["options"]).final_state, ("H",))

    def _heom(i):
        from qutip.solver.heom import heomsolve, DrudeLorentzBath
        bath = DrudeLorentzBath(i["a"] + i["b"], lam=0.1, gamma=1.0, T=1.0, Nk=1)
        i["bath"] = bath
        return heomsolve(i["H"], bath, 1, i["rho0"], i["tlist"], e_ops=[i["a"]],
                         options={"progress_bar": False}).expect
    API["heomsolve"] = ("qutip/solver/heom/bofin_solvers.py:heomsolve", _heom, ("H", "L0"))
    API["channels"] = (
        "qutip/core/superop_reps.py:to_choi",
        lambda i: [q.to_choi(i["H"]), q.to_kraus(q.to_choi(i["H"])), q.to_super(q.to_choi(i["H"])),
                   q.to_chi(i["H"])], ("Lchan",))
    API["states-misc"] = (
        "qutip/core/metrics.py:fidelity",
        lambda i: [q.fidelity(i["rho0"], i["rho0"]), q.entropy_vn(i["rho0"]), q.expect(i["H"], i["rho0"]),
                   q.variance(i["H"], i["rho0"]), i["H"].eigenstates()[0], i["H"].groundstate()[0],
                   i["H"].sqrtm(), i["H"].inv(), i["H"].norm(), i["H"].tr()], ("H",))

    def b_form(form, dt):
        base = b_sys("L" if form.startswith("L") else "Hc", dt)

        def build():
            d = base()
            if form == "H":
                d["c_ops"] = []
            if form == "L0":                # Liouvillian of the bare Hamiltonian
                d["H"] = q.liouvillian((q.sigmaz() + 0.5 * q.sigmax()).to(dt)).to(dt)
            if form == "Lchan":
                d["H"] = q.propagator(d["H"], 0.5, options={"progress_bar": False}).to(dt)
            return d
        return build
    for nm, (site, fn, forms) in API.items():
        for form in forms:
            for dt in dtypes:
                add("api:%s:%s:%s" % (nm, form, dt), site, b_form(form, dt), fn)

    if not quick:
        add("steadystate", "qutip/solver/steadystate.py:steadystate",
            lambda: {"H": mats(rng)[0], "c_ops": [q.sigmam()]},
            lambda i: q.steadystate(i["H"], i["c_ops"]))
        add("brmesolve", "qutip/solver/brmesolve.py:brmesolve",
            lambda: {"H": q.sigmaz(), "state": make_state("dm", "F"), "tlist": list(tl),
                     "a_ops": [[q.sigmax(), lambda w: 0.1 * (w > 0)]], "options": dict(OPT)},
            lambda i: q.brmesolve(i["H"], i["state"], i["tlist"], a_ops=i["a_ops"],
                                  options=i["options"]).final_state)
        add("smesolve", "qutip/solver/stochastic.py:smesolve",
            lambda: {"H": q.sigmaz(), "state": make_state("dm", "C"), "tlist": list(tl),
                     "sc_ops": [q.sigmam()], "options": {"progress_bar": False, "dt": 0.1}},
            lambda i: q.smesolve(i["H"], i["state"], i["tlist"], sc_ops=i["sc_ops"], ntraj=2,
                                 seeds=1, options=i["options"]).average_final_state)
    return out


def perturb(o, depth=0, seen=None):
    """Apply the documented in-place operations to a RESULT (and to what it
    contains).  If the result shares a mutable container (element list,
    feedback table, dict, list, data buffer) with an argument, the argument's
    snapshot changes.  Errors of single operations are ignored: only the
    effect on the arguments is of interest."""
    import qutip as q
    import qutip.core.data as _data
    if seen is None:
        seen = set()
    if depth > 4 or o is None or id(o) in seen:
        return
    seen.add(id(o))

    def attempt(f):
        try:
            f()
        except Exception:
            pass
    if isinstance(o, q.QobjEvo):
        keys = list(o._feedback_functions) + list(o._solver_only_feedback)
        for k in keys:                              # replace feedback by numbers
            attempt(lambda k=k: o.arguments({k: 0.25}))
        attempt(lambda: o.arguments({"w": 7.0, "E": 0.5}))
        attempt(lambda: o.arguments({"__c04_probe": q.MESolver.StateFeedback(default=None)}))
        attempt(lambda: o.arguments({"__c04_probe2": q.MCSolver.CollapseFeedback()}))
        attempt(lambda: o.__imul__(2))
        attempt(lambda: o.__iadd__(q.qeye_like(o)))
        attempt(lambda: o.__imatmul__(q.qeye_like(o)))
        attempt(lambda: o.__iadd__(q.QobjEvo([[q.qeye_like(o), f_targs]],
                                             args={"w": q.MESolver.StateFeedback(default=None)})))
        attempt(lambda: o.compress())
        attempt(lambda: o.tidyup(1e300))
        attempt(lambda: o.to(_data.Dense))
        return
    if isinstance(o, q.Qobj):
        attempt(lambda: o.tidyup(1e300))
        return
    if isinstance(o, _data.Dense):
        attempt(lambda: o.as_ndarray().fill(7))
        return
    if isinstance(o, _data.Data):
        attempt(lambda: _data.tidyup(o, 1e300, True))
        return
    if isinstance(o, np.ndarray):
        if o.dtype == object:
            for x in o.flat:
                perturb(x, depth + 1, seen)
        elif o.flags.writeable:
            attempt(lambda: o.fill(7))
        return
    if isinstance(o, dict):
        for v in list(o.values()):
            perturb(v, depth + 1, seen)
        attempt(lambda: o.__setitem__("__c04_probe", 1))
        return
    if isinstance(o, list):
        for v in list(o):
            perturb(v, depth + 1, seen)
        attempt(lambda: o.append("__c04_probe"))
        return
    if isinstance(o, tuple):
        for v in o:
            perturb(v, depth + 1, seen)
        return
    if hasattr(o, "__dict__") and not callable(o) and not isinstance(o, type):
        for k, v in list(vars(o).items()):
            if callable(v) and not isinstance(v, (q.Qobj, q.QobjEvo)):
                continue
            if "e_ops" in k or "raw_ops" in k or k in ("solver",):
                continue      # a result keeps the caller's e_ops by design
            perturb(v, depth + 1, seen)


def run_scenario(sc):
    """returns (list of (argname, path), error text or None, repeat-equal?)"""
    inputs = sc.build()
    before = {k: snap(v) for k, v in inputs.items()}
    findings = []
    err = None
    res1 = res2 = raw1 = raw2 = None
    INJECT["countdown"], INJECT["calls"] = None, 0
    try:
        raw1 = sc.call(inputs)
        res1 = snap(raw1)
    except Exception as e:
        err = "%s: %s" % (type(e).__name__, str(e)[:200])
    ncalls = INJECT["calls"]
    mid = {k: snap(v) for k, v in inputs.items()}
    for k in before:
        for p in diff(before[k], mid[k]):
            findings.append((k, p, "first-call"))
    if sc.repeat and err is None:
        try:
            raw2 = sc.call(inputs)
            res2 = snap(raw2)
        except Exception as e:
            err = "second call: %s: %s" % (type(e).__name__, str(e)[:200])
        after = {k: snap(v) for k, v in inputs.items()}
        for k in before:
            for p in diff(mid[k], after[k]):
                if (k, p, "first-call") not in findings:
                    findings.append((k, p, "second-call"))
    # documented in-place operations on the RESULTS must not reach the arguments
    if sc.perturb and (raw1 is not None or raw2 is not None):
        last = {k: snap(v) for k, v in inputs.items()}
        same_pre = None
        if sc.compare and not sc.exact and raw1 is not None and raw2 is not None:
            same_pre = numclose(raw1, raw2)
        for r in (raw1, raw2):
            try:
                perturb(r)
            except Exception:
                pass
        pert = {k: snap(v) for k, v in inputs.items()}
        for k in before:
            for p in diff(last[k], pert[k]):
                findings.append((k, p, "in-place-update-of-the-result"))
    else:
        same_pre = None
    same = True
    if same_pre is not None:
        same = same_pre
    elif sc.compare and res1 is not None and res2 is not None:
        if sc.exact:
            same = strip_times(res1) == strip_times(res2)
        else:
            same = numclose(raw1, raw2)
    # failure injection: the same call, failing part-way (the k-th evaluation of
    # a coefficient / operator function / e_ops callback raises); whatever the
    # library had changed temporarily must have been restored
    if sc.inject and ncalls:
        for k in sorted({1, max(1, ncalls // 2), ncalls}):
            inputs2 = sc.build()
            b2 = {kk: snap(v) for kk, v in inputs2.items()}
            INJECT["countdown"], INJECT["calls"] = k, 0
            how = "completed"
            try:
                sc.call(inputs2)
            except InjectedFailure:
                how = "InjectedFailure"
            except BaseException as e:           # noqa
                how = type(e).__name__
            finally:
                INJECT["countdown"] = None
            a2 = {kk: snap(v) for kk, v in inputs2.items()}
            for kk in b2:
                for p in diff(b2[kk], a2[kk]):
                    rec = (kk, p, "call-that-fails-part-way (evaluation %d of %d raises; %s)"
                           % (k, ncalls, how))
                    if not any(f[0] == kk and f[1] == p for f in findings):
                        findings.append(rec)
                        before.setdefault(kk, b2[kk])
    return findings, err, same, before


KNOWN_SIG = {
    # site -> function mapping the (arg, path) of a finding to the listed signature
}


def signature(sc, arg, path):
    return "%s:%s" % (arg, path)


def report_scenario(ctx, sc, findings, err, same, before, origin="oracle"):
    for arg, path, when in findings:
        ctx.violation(sc.site, signature(sc, arg, path),
                      "%s: argument `%s` differs from its snapshot at `%s` after the %s (%s)"
                      % (sc.name, arg, path, when, origin),
                      {"scenario": sc.name, "argument": arg, "path": path, "when": when,
                       "snapshot_before": _short(before.get(arg)),
                       "replay": "tools/c04.py scenario %s" % sc.name})
    if not same and not findings:
        ctx.violation(sc.site, "repeat-call-differs",
                      "%s: repeating the call with the same objects gives another answer" % sc.name,
                      {"scenario": sc.name})


def _short(s, n=600):
    t = json.dumps(s, default=str)
    return t if len(t) <= n else t[:n] + "..."


# ============================================== exploration: input aliasing
# The statement of C04 is about the ARGUMENTS of a call staying equal to their
# snapshot (and repeat-call equality).  Whether a RESULT keeps a hidden
# reference to a caller-owned mutable input (so that a later in-place edit of
# that input by the caller changes the result) is the mirror image and is not
# part of the statement: it is explored and recorded here, it never prints
# VIOLATION for C04.
def perturb_inputs(o, depth=0):
    import qutip as q
    if depth > 3 or o is None:
        return
    try:
        if isinstance(o, np.ndarray):
            if o.flags.writeable and o.dtype != object:
                o *= 3
                o += 1
        elif isinstance(o, q.QobjEvo):
            o *= 2
        elif isinstance(o, q.Qobj):
            o.tidyup(1e300)
        elif isinstance(o, dict):
            for k in list(o):
                if isinstance(o[k], (int, float, complex)) and not isinstance(o[k], bool):
                    o[k] = o[k] * 2 + 1
                else:
                    perturb_inputs(o[k], depth + 1)
            o["__c04_new_key"] = 1.0
        elif isinstance(o, list):
            for i, v in enumerate(list(o)):
                if isinstance(v, (int, float, complex)) and not isinstance(v, bool):
                    o[i] = v * 2 + 1
                else:
                    perturb_inputs(v, depth + 1)
            if o and all(isinstance(v, (int, float)) for v in o):
                o.append(o[-1] + 1)
    except Exception:
        pass


def aliasing_cases(rng):
    import qutip as q
    import scipy.sparse as sp
    import qutip.core.data as _data
    A, B, C = mats(rng)
    cases = []

    def add(name, build, make, observe=None, optout=False):
        cases.append((name, build, make, observe or snap, optout))
    for order in (0, 1, 2, 3):
        add("coefficient(array,tlist,order=%d)" % order,
            lambda: {"arr": np.array([0j, 1, 4, 9], dtype=np.complex128),
                     "tlist": np.array([0., 1., 2., 3.])},
            lambda i, order=order: q.coefficient(i["arr"], tlist=i["tlist"], order=order),
            lambda c: [repr(complex(c(t))) for t in (0., 0.5, 1., 2.5, 3.)])
    add("coefficient(func,args)", lambda: {"args": {"w": 1.0}},
        lambda i: q.coefficient(f_targs, args=i["args"]),
        lambda c: [repr(complex(c(t))) for t in (0., 0.5, 1.)])
    for order in (0, 3):
        add("QobjEvo([A,[B,array]],tlist,order=%d)" % order,
            lambda: {"lst": [A.copy(), [B.copy(), np.array([0j, 1, 4], dtype=np.complex128)]],
                     "tlist": np.array([0., 1., 2.])},
            lambda i, order=order: q.QobjEvo(i["lst"], tlist=i["tlist"], order=order))
    add("QobjEvo([A,[B,f]],args)", lambda: {"lst": [A.copy(), [B.copy(), f_targs]], "args": {"w": 1.0}},
        lambda i: q.QobjEvo(i["lst"], args=i["args"]))
    add("QobjEvo(QobjEvo)", lambda: {"src": q.QobjEvo([A.copy(), [B.copy(), f_t]])},
        lambda i: q.QobjEvo(i["src"]))
    add("QobjEvo(Qobj)", lambda: {"src": A.copy()}, lambda i: q.QobjEvo(i["src"]))
    add("QobjEvo(Qobj,copy=False)", lambda: {"src": A.copy()}, lambda i: q.QobjEvo(i["src"], copy=False),
        optout=True)
    add("QobjEvo+Qobj", lambda: {"E": q.QobjEvo([[B.copy(), f_t]]), "X": A.copy()},
        lambda i: i["E"] + i["X"], lambda r: snap(r(0.5)))
    add("Qobj(ndarray)", lambda: {"arr": np.array([[1., 2.], [3., 4.]])}, lambda i: q.Qobj(i["arr"]))
    add("Qobj(ndarray complex F-order)",
        lambda: {"arr": np.asfortranarray(np.array([[1., 2.], [3., 4.]], dtype=complex))},
        lambda i: q.Qobj(i["arr"]))
    add("Qobj(list)", lambda: {"lst": [[1., 2.], [3., 4.]]}, lambda i: q.Qobj(i["lst"]))
    add("Qobj(scipy csr)", lambda: {"m": sp.csr_matrix(np.array([[1., 2.], [0., 4.]], dtype=complex))},
        lambda i: q.Qobj(i["m"]),)
    add("Qobj(Qobj)", lambda: {"src": A.copy()}, lambda i: q.Qobj(i["src"]))
    add("Qobj(Dense)", lambda: {"arr": np.array([[1., 2.], [3., 4.]], dtype=complex)},
        lambda i: q.Qobj(_data.Dense(i["arr"])))
    add("Qobj(Dense(copy=False),copy=False)", lambda: {"arr": np.array([[1., 2.], [3., 4.]], dtype=complex)},
        lambda i: q.Qobj(_data.Dense(i["arr"], copy=False), copy=False), optout=True)
    add("Qobj.to(other type)", lambda: {"src": A.copy()}, lambda i: i["src"].to("CSR"))

    def obs_solver(S):
        return {"rhs": snap(S.rhs if isinstance(S.rhs, q.QobjEvo) else S.rhs()),
                "options": snap(dict(S.options))}
    add("SESolver(H,options)", lambda: {"H": q.QobjEvo([A + A.dag(), [q.sigmax(), f_targs]], args={"w": 1.}),
                                        "options": {"progress_bar": False, "atol": 1e-9}},
        lambda i: q.SESolver(i["H"], options=i["options"]), obs_solver)
    add("MESolver(H,c_ops,options)",
        lambda: {"H": q.sigmaz() * 1.0, "c_ops": [q.sigmam() * 1.0, q.QobjEvo([[q.sigmaz(), f_t]])],
                 "options": {"progress_bar": False}},
        lambda i: q.MESolver(i["H"], i["c_ops"], options=i["options"]), obs_solver)
    add("MCSolver(H,c_ops,options)",
        lambda: {"H": q.sigmaz() * 1.0, "c_ops": [q.sigmam() * 1.0], "options": {"progress_bar": False}},
        lambda i: q.MCSolver(i["H"], i["c_ops"], options=i["options"]), obs_solver)

    def obs_result(r):
        d = snap(r)
        return strip_times(d)
    add("sesolve(...) result",
        lambda: {"H": q.sigmax() * 1.0, "psi0": make_state("ket", "C"), "tlist": [0., 0.5, 1.0],
                 "e_ops": [q.sigmaz() * 1.0], "args": {"w": 1.0},
                 "options": {"progress_bar": False, "store_states": True}},
        lambda i: q.sesolve(i["H"], i["psi0"], i["tlist"], e_ops=i["e_ops"], args=i["args"],
                            options=i["options"]), obs_result)
    add("mesolve(...) result (ndarray tlist)",
        lambda: {"H": q.sigmax() * 1.0, "rho0": make_state("dm", "F"), "tlist": np.array([0., 0.5, 1.0]),
                 "c_ops": [q.sigmam() * 1.0], "options": {"progress_bar": False, "store_states": True}},
        lambda i: q.mesolve(i["H"], i["rho0"], i["tlist"], c_ops=i["c_ops"], options=i["options"]),
        obs_result)
    add("mcsolve(...) result",
        lambda: {"H": q.sigmax() * 1.0, "psi0": make_state("ket", "C"), "tlist": [0., 0.5, 1.0],
                 "c_ops": [q.sigmam() * 1.0], "options": {"progress_bar": False, "keep_runs_results": True}},
        lambda i: q.mcsolve(i["H"], i["psi0"], i["tlist"], c_ops=i["c_ops"], ntraj=2, seeds=1,
                            options=i["options"]), obs_result)

    def mk_merge(i):
        return i["r1"] + i["r2"]
    add("MultiTrajResult r1+r2",
        lambda: {"r1": q.mcsolve(q.sigmax(), q.basis(2, 0), [0., .5], [q.sigmam()], e_ops=[q.sigmaz()],
                                 ntraj=2, seeds=1, options={"progress_bar": False}),
                 "r2": q.mcsolve(q.sigmax(), q.basis(2, 0), [0., .5], [q.sigmam()], e_ops=[q.sigmaz()],
                                 ntraj=2, seeds=2, options={"progress_bar": False})},
        mk_merge, lambda r: {"stats": snap({k: v for k, v in r.stats.items() if "time" not in k}),
                              "options": snap(dict(r.options)), "avg": snap(r.average_expect)})
    return cases


def run_alias_case(case):
    name, build, make, observe, optout = case
    inputs = build()
    res = make(inputs)
    before = observe(res)
    out = []
    for k in list(inputs):
        # one input at a time, so that the report names the aliased argument
        if k in ("r1", "r2"):
            try:
                inputs[k].stats["__c04_new_key"] = 1
                inputs[k].options["store_states"] = True
            except Exception:
                pass
        else:
            perturb_inputs(inputs[k])
        after = observe(res)
        d = diff(before, after, limit=3)
        if d:
            out.append((k, d[0]))
            before = after
    return name, out, optout


# ============================================================== forked runner
def forked_map(fn, items, timeout=30, mem_gb=6, max_bad=6):
    """run fn(item) for every item in a forked child (a mutated tree may hang
    or exhaust memory); returns list of ("ok", result) | ("timeout"|"crash", msg)"""
    import pickle
    import resource
    import select
    import signal
    out = [None] * len(items)
    start = 0
    while start < len(items):
        r, w = os.pipe()
        pid = os.fork()
        if pid == 0:                                   # child
            os.close(r)
            try:
                lim = mem_gb * (1 << 30)
                resource.setrlimit(resource.RLIMIT_AS, (lim, lim))
            except Exception:
                pass

            def on_alarm(*a):
                raise TimeoutError()
            signal.signal(signal.SIGALRM, on_alarm)
            wf = os.fdopen(w, "wb")
            nbad = [sum(1 for o in out if o is not None and o[0] != "ok")]
            for k in range(start, len(items)):
                if nbad[0] >= max_bad:
                    break
                pickle.dump(("start", k), wf)
                wf.flush()
                signal.alarm(timeout)
                try:
                    res = ("ok", fn(items[k]))
                except TimeoutError:
                    res = ("timeout", "no answer within %ds" % timeout)
                    nbad[0] += 1
                except MemoryError:
                    res = ("crash", "MemoryError")
                except BaseException as e:             # noqa
                    res = ("crash", "%s: %s" % (type(e).__name__, str(e)[:300]))
                signal.alarm(0)
                try:
                    pickle.dump(("done", k, res), wf)
                except Exception as e:
                    pickle.dump(("done", k, ("crash", "unpicklable result: %s" % e)), wf)
                wf.flush()
            wf.close()
            os._exit(0)
        os.close(w)
        rf = os.fdopen(r, "rb")
        inflight = None
        last = start - 1
        while True:
            ready, _, _ = select.select([rf], [], [], timeout + 30)
            if not ready:
                try:
                    os.kill(pid, 9)
                except OSError:
                    pass
                break
            try:
                msg = pickle.load(rf)
            except EOFError:
                break
            except Exception:
                break
            if msg[0] == "start":
                inflight = msg[1]
            else:
                out[msg[1]] = msg[2]
                last = msg[1]
                inflight = None
        rf.close()
        try:
            os.waitpid(pid, 0)
        except OSError:
            pass
        if sum(1 for o in out if o is not None and o[0] != "ok") >= max_bad:
            break                     # enough evidence; do not spend the whole budget on time-outs
        if inflight is not None and out[inflight] is None:
            out[inflight] = ("crash", "the process died or hung while running this case")
            start = inflight + 1
        else:
            start = last + 1 if last + 1 > start else start + 1
    return [o if o is not None else ("skipped", "not run: too many cases failed before") for o in out]


# ================================================================= K: summaries
def probes():
    """name -> callable returning a list of failure strings"""
    import qutip as q
    import qutip.core.data as _data
    from qutip.core.cy._element import _ConstantElement
    A0, B0, C0 = mats(random.Random(1))

    def evo():
        return q.QobjEvo([A0, [C0, f_targs]], args={"w": 1.0})

    def check(fn, args, mut=(), fresh=True, name=""):
        """call fn(*args); args not in mut must keep their snapshot; a fresh
        result must not share a mutable part with any argument"""
        bad = []
        before = [snap(a) for a in args]
        ids = set()
        for a in args:
            ids |= mutable_ids(a)
        r = fn(*args)
        for k, a in enumerate(args):
            if k not in mut and snap(a) != before[k]:
                bad.append("%s: argument %d changed" % (name, k))
        if fresh and r is not None:
            sh = mutable_ids(r) & ids
            if sh:
                bad.append("%s: result shares %d mutable part(s) with an argument" % (name, len(sh)))
        return bad

    def isolated(make, mutate, name):
        """mutating a copy must not change the original"""
        a = make()
        s = snap(a)
        c = a.copy()
        mutate(c)
        return [] if snap(a) == s else ["%s: mutating a copy changed the original" % name]

    P = {}
    P["binop_fresh"] = lambda: sum([check(f, [x, y], name="binop")
                                    for x, y in [(A0, B0), (evo(), B0), (A0, evo()), (evo(), evo()),
                                                 (evo(), 2), (A0, 2), (0.5, evo()), (-1j, A0)]
                                    for f in (lambda a, b: a + b, lambda a, b: a - b,
                                              lambda a, b: a * b)], []) + \
        check(lambda a: -a, [evo()], name="neg") + check(lambda a: -a, [A0], name="neg")
    P["unary_fresh"] = lambda: sum([check(f, [x], name="unary") for x in (A0, evo())
                                    for f in (lambda a: a.dag(), lambda a: a.conj(),
                                              lambda a: a.trans())], [])
    P["method_copy"] = lambda: check(lambda a: a.copy(), [evo()], name="QobjEvo.copy") + \
        check(lambda a: a.copy(), [A0], name="Qobj.copy") + \
        check(lambda a: a.copy(), [{"a": 1}], name="dict.copy")
    P["qobjevo_ctor"] = lambda: (
        check(lambda a: q.QobjEvo(a), [evo()], name="QobjEvo(QobjEvo)") +
        check(lambda a, d: q.QobjEvo(a, args=d), [evo(), {"w": 2.0}], name="QobjEvo(QobjEvo,args)") +
        check(lambda a: q.QobjEvo(a), [A0], name="QobjEvo(Qobj)") +
        check(lambda a: q.QobjEvo(a), [[A0, [B0, f_t]]], name="QobjEvo(list)") +
        check(lambda a, t: q.QobjEvo([A0, [B0, a]], tlist=t),
              [np.array([0., 1., 2.]), np.array([0., .5, 1.])], name="QobjEvo(array)"))
    P["qobj_ctor"] = lambda: check(lambda a: q.Qobj(a), [np.eye(2)], name="Qobj(ndarray)") + \
        check(lambda a: q.Qobj(a), [A0], name="Qobj(Qobj)")
    P["spre_fresh"] = lambda: sum([check(f, [x], name="spre/spost") for x in (A0, evo())
                                   for f in (q.spre, q.spost)], []) + \
        check(q.sprepost, [A0, B0], name="sprepost")
    P["sum_fresh"] = lambda: check(lambda l: sum(l), [[A0, B0]], name="sum") + \
        check(lambda l: sum(l), [[evo()]], name="sum(evo)") + \
        check(lambda l: sum(l), [[A0]], name="sum(single)")
    P["copy_copy"] = lambda: []      # copy.copy of a _TrajectorySum: shallow by definition
    P["list_copy"] = lambda: check(list, [[1, 2]], name="list()")
    P["dict_copy"] = lambda: check(dict, [{"a": 1}], name="dict()")
    P["data_fresh"] = lambda: check(lambda a, b: _data.add(a, b), [A0.data, B0.data], name="_data.add") + \
        check(lambda a: _data.mul(a, 2), [A0.data], name="_data.mul") + \
        check(lambda a, b: _data.kron(a, b), [A0.data, B0.data], name="_data.kron")
    P["coefficient_fresh"] = lambda: check(lambda d: q.coefficient(f_targs, args=d), [{"w": 1.0}],
                                           name="coefficient")
    P["replace_arguments_fresh"] = lambda: check(
        lambda c, d: c.replace_arguments(d), [q.coefficient(f_targs, args={"w": 1.0}), {"w": 3.0}],
        name="replace_arguments")
    P["qobj_to"] = lambda: check(lambda a: a.to("Dense"), [A0.to("CSR")], name="Qobj.to")
    P["qobj_tidyup"] = lambda: (
        [] if (lambda x: x.tidyup() is x)(q.Qobj(np.eye(2))) else ["Qobj.tidyup does not return self"])
    P["list_append"] = lambda: check(lambda l, x: l.append(x), [[1], A0], mut=(0,), fresh=False, name="append")
    P["dict_update"] = lambda: check(lambda d, e: d.update(e), [{"a": 1}, {"b": 2}], mut=(0,), fresh=False, name="update")
    P["dict_pop"] = lambda: check(lambda d: d.pop("a"), [{"a": 1}], mut=(0,), fresh=False, name="pop")
    P["kwargs_migration"] = lambda: (lambda f, x, y: ([] if f(x, y, "n") is x and f(None, y, "n") is y
                                                      else ["_kwargs_migration does not return one of its arguments"]))(
        __import__("qutip.solver.solver_base", fromlist=["x"])._kwargs_migration, {"a": 1}, {"b": 2})
    P["qobjevo_call"] = lambda: check(lambda a: a(0.5), [evo()], name="QobjEvo.__call__") + \
        check(lambda a, d: a(0.5, d), [evo(), {"w": 2.0}], name="QobjEvo.__call__(args)")

    def _solver():
        return q.SESolver(q.QobjEvo([A0 + A0.dag(), [q.sigmax(), f_targs]], args={"w": 1.0}),
                          options={"progress_bar": False})
    P["solver_run"] = lambda: check(
        lambda s, psi, t, e, d: s.run(psi, t, e_ops=e, args=d),
        [_solver(), q.basis(2, 0), [0, 0.5], [q.sigmaz()], {"w": 2.0}], mut=(0,), name="Solver.run")
    P["solver_start"] = lambda: check(lambda s, psi: s.start(psi, 0.0), [_solver(), q.basis(2, 0)],
                                      mut=(0,), fresh=False, name="Solver.start")

    def _attrs_written(obj, fn, allowed, name):
        before = {k: id(v) for k, v in vars(obj).items()}
        fn(obj)
        ch = {k for k, v in vars(obj).items() if before.get(k) != id(v)}
        extra = ch - set(allowed)
        return ["%s writes attributes %s outside its summary" % (name, sorted(extra))] if extra else []
    P["get_integrator"] = lambda: _attrs_written(_solver(), lambda s: s._get_integrator(),
                                                 ["_init_integrator_time"], "_get_integrator")
    P["initialize_stats"] = lambda: _attrs_written(_solver(), lambda s: s._initialize_stats(), [],
                                                   "_initialize_stats")
    P["options_setter"] = lambda: (
        check(lambda s, o: setattr(s, "options", o), [_solver(), {"progress_bar": False, "atol": 1e-7}],
              mut=(0,), fresh=False, name="options setter") +
        _attrs_written(_solver(), lambda s: setattr(s, "options", {"progress_bar": False, "atol": 1e-7}),
                       ["_options", "_integrator", "options"], "options setter"))

    def _addproc():
        from qutip.solver.result import Result
        r = Result([], {"store_states": None, "store_final_state": False}, solver="x")
        return _attrs_written(r, lambda x: x.add_processor(lambda t, s: None, True),
                              ["_state_processors", "_state_processors_require_copy"], "add_processor")
    P["add_processor"] = _addproc
    P["read_element"] = lambda: check(lambda a: q.QobjEvo([a]), [A0], name="_read_element")
    P["multitraj_init"] = lambda: check(
        lambda H, c, o: q.MCSolver(H, c, options=o), [evo(), [B0], {"progress_bar": False}],
        name="MCSolver()")

    def _bare():
        s = q.SESolver.__new__(q.SESolver)
        try:
            q.solver.solver_base.Solver.__init__(s, 3)
        except Exception:
            return []
        return ["Solver.__init__(3) completed: the bare TypeError(...) statement is not followed by a failure"]
    P["bare_exception_aborts"] = _bare

    def _immutable():
        r1 = q.mcsolve(q.sigmax(), q.basis(2, 0), [0, .1], [q.sigmam()], ntraj=2, seeds=1,
                       options={"progress_bar": False})
        return [] if isinstance(r1.stats["run time"], (int, float)) else \
            ["stats['run time'] is not an immutable number"]
    P["immutable_targets"] = _immutable

    # ---- second wave
    def _coeff_ctor():
        from qutip.core.cy.coefficient import (FunctionCoefficient, SumCoefficient, MulCoefficient,
                                               ConjCoefficient, NormCoefficient, ConstantCoefficient,
                                               InterCoefficient)
        from qutip.core.coefficient import coefficient
        c1 = q.coefficient(f_targs, args={"w": 1.0})
        c2 = q.coefficient(np.array([0., 1., 4.]), tlist=np.array([0., .5, 1.]))
        bad = []
        bad += check(lambda f, d: FunctionCoefficient(f, d), [f_targs, {"w": 2.0}], name="FunctionCoefficient")
        for cls in (SumCoefficient, MulCoefficient):
            bad += check(lambda a, b: cls(a, b), [c1, c2], name=cls.__name__)
        for cls in (ConjCoefficient, NormCoefficient):
            bad += check(lambda a: cls(a), [c1], name=cls.__name__)
        bad += check(lambda a, b: a + b, [c1, c2], name="coeff+coeff")
        bad += check(lambda a, b: a + b, [c2, c2.copy()], name="inter+inter")
        bad += check(lambda a, b: a * b, [c1, c2], name="coeff*coeff")
        bad += check(lambda a, b: a * b, [c1, A0], name="coeff*qobj")
        bad += check(lambda a: a.conj(), [c1], name="coeff.conj")
        bad += check(lambda a, d: a.replace_arguments(d), [c1 + c1.conj() * c2, {"w": 4.0}],
                     name="composite.replace_arguments")
        bad += check(lambda a, b: InterCoefficient(a, b, 1, None), [np.array([0., 1., 4.]), np.array([0., .5, 1.])],
                     name="InterCoefficient")
        return bad
    P["coeff_ctor_fresh"] = _coeff_ctor

    def _br():
        from qutip.core.blochredfield import bloch_redfield_tensor
        spec = q.coefficient(lambda w: 0.1 * (w > 0), args={"w": 0})
        a_ops = [[q.sigmax(), spec]]
        return check(lambda H, a, c: bloch_redfield_tensor(H, a, c, fock_basis=True),
                     [q.sigmaz(), a_ops, [q.sigmam()]], name="bloch_redfield_tensor")
    P["br_tensor_fresh"] = _br

    def _br_prep():
        spec = q.coefficient(lambda w: 0.1 * (w > 0), args={"w": 0})
        S = q.BRSolver(q.sigmaz(), [[q.sigmax(), spec]], [q.sigmam()], options={"progress_bar": False})
        return _attrs_written(S, lambda s: s._prepare_rhs(), ["_init_rhs_time"], "_prepare_rhs")
    P["br_prepare_rhs"] = _br_prep

    def _floq():
        from qutip.solver.floquet import FloquetBasis, floquet_tensor
        H = q.QobjEvo([q.sigmaz(), [q.sigmax(), lambda t: np.sin(2 * np.pi * t)]])
        fb = FloquetBasis(H, 1.0)
        return check(lambda b, a, s: floquet_tensor(b, a, s), [fb, [q.sigmax()], [lambda w: 0.1 * (w > 0)]],
                     name="floquet_tensor")
    P["floquet_tensor_fresh"] = _floq

    def _heom():
        from qutip.solver.heom import HEOMSolver, DrudeLorentzBath
        H = q.sigmaz() + 0.5 * q.sigmax()
        bath = DrudeLorentzBath(q.sigmaz(), lam=0.1, gamma=1.0, T=1.0, Nk=1)
        return check(lambda h, b, o: HEOMSolver(h, b, 2, options=o),
                     [H, bath, {"progress_bar": False}], name="HEOMSolver()") + \
            check(lambda h, b: HEOMSolver(h, b, 1),
                  [q.QobjEvo([H, [q.sigmax(), f_t]]), [bath, bath]], name="HEOMSolver(evo, [baths])")
    P["heom_ctor"] = _heom

    # ---- third wave
    def _data_inpl():
        bad = []
        D = _data.Dense(np.array([[1, 1e-20], [0, 2.]]))
        bad += check(lambda d: _data.tidyup(d, 1e-12), [D], mut=(0,), fresh=False, name="_data.tidyup")
        bad += check(lambda a, b: _data.iadd_dense(a, b), [_data.Dense(np.eye(2)), _data.Dense(np.ones((2, 2)))],
                     mut=(0,), fresh=False, name="iadd_dense")
        bad += check(lambda a: _data.imul_dense(a, 2), [_data.Dense(np.eye(2))], mut=(0,), fresh=False,
                     name="imul_dense")
        return bad
    P["data_inplace"] = _data_inpl

    def _views():
        D = _data.Dense(np.eye(2))
        C = _data.to(_data.CSR, D)
        ok = np.shares_memory(D.as_ndarray(), D.as_ndarray()) and \
            np.shares_memory(C.as_scipy().data, C.as_scipy().data)
        return [] if ok else ["as_ndarray / as_scipy are not views of the data object"]
    P["data_views"] = _views
    P["qobj_pure_methods"] = lambda: sum([check(f, [X], name="Qobj method") for X in (A0, A0.to("CSR"), A0.to("Dia"))
                                          for f in (lambda a: a.eigenstates(), lambda a: a.eigenenergies(),
                                                    lambda a: a.unit(), lambda a: a.expm(),
                                                    lambda a: (a + 3).inv(), lambda a: a.ptrace(0),
                                                    lambda a: a.transform(np.eye(2)))], [])
    P["state_helpers"] = lambda: sum([check(f, [X], name="state helper")
                                      for X in (make_state("dm", "F"), make_state("dm", "csr"))
                                      for f in (q.operator_to_vector,
                                                lambda r: q.vector_to_operator(q.operator_to_vector(r)),
                                                lambda r: q.stack_columns(r.data), lambda r: q.expect(A0, r))],
                                     []) + check(q.ket2dm, [make_state("ket", "F")], name="ket2dm")

    def _c3dm():
        from qutip.solver.correlation import _correlation_3op_dm
        S = q.MESolver(q.sigmaz(), [q.sigmam()], options={"progress_bar": False})
        return check(lambda s, r, t, tau, A, B, C: _correlation_3op_dm(s, r, t, tau, A, B, C),
                     [S, make_state("dm", "F"), np.array([0.]), np.array([0., .5]), q.QobjEvo(q.qeye(2)),
                      q.QobjEvo(q.sigmam()), q.QobjEvo(q.sigmap())],
                     mut=(0,), name="_correlation_3op_dm")
    P["correlation_3op_dm"] = _c3dm

    def _diag():
        from qutip.solver.spectrum import _diagonal_evolution
        L = q.liouvillian(q.sigmaz() + .5 * q.sigmax(), [q.sigmam()])
        bad = check(lambda l, r: _diagonal_evolution(l, r), [L, q.sigmam() * make_state("dm", "C")],
                    name="_diagonal_evolution")
        st_, rates = _diagonal_evolution(L, q.sigmam() * make_state("dm", "C"))
        if not isinstance(rates, list):
            bad.append("_diagonal_evolution rates is not a new list")
        return bad
    P["diagonal_evolution"] = _diag

    def _qobj_aug():
        bad = [n for n in ("__iadd__", "__isub__", "__imul__", "__imatmul__", "__itruediv__")
               if hasattr(q.Qobj, n)]
        bad = ["Qobj defines in-place operator %s" % n for n in bad]
        evo = q.QobjEvo([q.liouvillian(q.sigmaz(), [q.sigmam()]), [q.liouvillian(q.sigmax()), f_t]])
        for fn in (lambda: q.steadystate(evo), lambda: q.steadystate(evo, method="power"),
                   lambda: q.pseudo_inverse(evo)):
            try:
                fn()
                bad.append("steadystate / pseudo_inverse accept a QobjEvo")
            except Exception:
                pass
        return bad
    P["qobj_immutable_augassign"] = _qobj_aug
    P["expect_returns_scalar"] = lambda: (
        [] if isinstance(_data.expect(q.sigmaz().data, make_state("dm", "C").data), complex)
        else ["_data.expect does not return a Python complex"])

    def _to_create():
        bad = []
        D = _data.Dense(np.eye(2, dtype=complex))
        if _data.to(_data.Dense, D) is not D:
            bad.append("_data.to(type, x) of the same type is not x (summary says: x or new)")
        bad += check(lambda x: _data.to(_data.CSR, x), [D], name="_data.to(other type)")
        bad += check(lambda x: _data.create(x), [D], name="_data.create(Data)")
        bad += check(lambda x: _data.create(x), [np.eye(2)], name="_data.create(ndarray)")
        bad += check(lambda x: _data.create(x, copy=True), [np.eye(2, dtype=complex)],
                     name="_data.create(ndarray, copy=True)")
        r = _data.create(D, copy=False)
        if r is not D and mutable_ids(q.Qobj(r, copy=False)) & mutable_ids(q.Qobj(D, copy=False)) == set():
            pass
        return bad
    P["data_to_create"] = _to_create
    P["superop_reps_fresh"] = lambda: sum([check(f, [X], fresh=False, name="superop_reps")
                                           for X in (q.to_super(q.sigmax()), q.to_choi(q.to_super(q.sigmax())))
                                           for f in (q.to_choi, q.to_super, q.to_kraus)], [])

    def _prop_call():
        Pp = q.Propagator(q.QobjEvo([q.sigmaz(), [q.sigmax(), f_t]]), options={"progress_bar": False})
        return _attrs_written(Pp, lambda p: p(0.3), ["times", "props", "invs", "solver", "args", "cte", "unitary"],
                              "Propagator.__call__") + \
            check(lambda p, t: p(t), [Pp, 0.5], mut=(0,), name="Propagator.__call__")
    P["propagator_call"] = _prop_call

    def _fb_methods():
        fb = q.FloquetBasis(q.QobjEvo([q.sigmaz(), [q.sigmax(), f_sin]]), 1.0)
        psi = make_state("ket", "C")
        bad = check(lambda b, p: b.to_floquet_basis(p, 0.2), [fb, psi], mut=(0,), name="to_floquet_basis")
        co = fb.to_floquet_basis(psi, 0.2)
        bad += check(lambda b, c: b.from_floquet_basis(c, 0.3), [fb, co], mut=(0,), name="from_floquet_basis")
        bad += check(lambda b: b.mode(0.3), [fb], mut=(0,), name="mode")
        bad += check(lambda b: b.state(0.3), [fb], mut=(0,), name="state")
        v1 = [m.full() for m in fb.mode(0.3)]
        v2 = [m.full() for m in fb.mode(0.3)]
        if not all(np.allclose(a, b) for a, b in zip(v1, v2)):
            bad.append("FloquetBasis.mode is not repeatable")
        return bad
    P["floquet_basis_methods"] = _fb_methods

    def _result():
        from qutip.solver.result import Result
        opts = {"store_states": True, "store_final_state": False, "normalize_output": False}
        bad = check(lambda e, o: Result(e, o, solver="x"), [[q.sigmaz()], opts], name="Result()")
        r = Result([q.sigmaz()], opts, solver="x")
        bad += check(lambda rr, t, s_: rr.add(t, s_), [r, 0.5, make_state("ket", "C")], mut=(0,),
                     fresh=False, name="Result.add")
        bad += check(lambda rr, t, s_: rr.add(t, s_), [r, 0.7, make_state("dm", "F")], mut=(0,),
                     fresh=False, name="Result.add")
        return bad
    P["result_ctor_add"] = _result

    def _reshape():
        from qutip.core.data.reshape import column_stack_dense, column_unstack_dense
        bad = []
        F = _data.Dense(np.asfortranarray(np.arange(6, dtype=complex).reshape(2, 3)), copy=False)
        r = column_stack_dense(F, inplace=True)
        if r is not F or F.shape != (6, 1) or not F.fortran:
            bad.append("column_stack_dense(F, inplace=True) is not an in-place rewrite of shape")
        r2 = column_unstack_dense(F, 2, inplace=True)
        if r2 is not F or F.shape != (2, 3) or not F.fortran:
            bad.append("column_unstack_dense(F, nrow, inplace=True) does not restore the shape")
        K = _data.Dense(np.asfortranarray(np.arange(3, dtype=complex).reshape(3, 1)), copy=False)
        column_unstack_dense(K, 3, inplace=True)       # a column that was never stacked
        if K.shape != (3, 1):
            bad.append("column_unstack_dense on an unstacked column changes its shape")
        Cc = _data.Dense(np.arange(6, dtype=complex).reshape(2, 3), copy=False)
        s0 = snap_data(Cc)
        r3 = column_stack_dense(Cc, inplace=True)
        if r3 is Cc or snap_data(Cc) != s0:
            bad.append("column_stack_dense on a C-ordered matrix touched its argument")
        return bad
    P["reshape_kernels"] = _reshape
    P["matmul_data_pure"] = lambda: check(
        lambda h, d: h.matmul_data(0.5, d),
        [evo(), _data.Dense(np.asfortranarray(np.eye(2, dtype=complex)), copy=False)], name="matmul_data")

    # mutating operations touch only the receiver, never the object it was copied from
    P["isolation"] = lambda: (
        isolated(evo, lambda c: c.__iadd__(B0), "__iadd__") +
        isolated(evo, lambda c: c.__imul__(2), "__imul__") +
        isolated(evo, lambda c: c.__imatmul__(B0), "__imatmul__") +
        isolated(evo, lambda c: c.arguments({"w": 5.0}), "arguments") +
        isolated(evo, lambda c: c.compress(), "compress") +
        isolated(evo, lambda c: c._register_feedback({}, "x"), "_register_feedback"))
    return P


# ===================================================== K: operation sequences
def gen_sequence(rng, n):
    """straight-line program over v0..v3 (v0,v1: QobjEvo; v2,v3: Qobj)"""
    types = {"v0": "evo", "v1": "evo", "v2": "qobj", "v3": "qobj"}
    prog = []
    names = ["v0", "v1", "v2", "v3", "v4", "v5"]
    for _ in range(n):
        defined = [v for v in names if v in types]
        op = rng.choice(["copy", "add", "mul2", "matmul", "iadd", "imul2", "alias", "ctor",
                         "iadd", "neg", "imatmul"])
        x = rng.choice(names)
        y = rng.choice(defined)
        z = rng.choice(defined)
        if op == "matmul" and "evo" in (types[y], types[z]):
            qs = [v for v in defined if types[v] == "qobj"]
            if not qs:
                op = "add"
            else:
                z = rng.choice(qs)          # keep the number of terms bounded
        if op in ("iadd", "imul2", "imatmul"):
            x = rng.choice(defined)
            if op == "imatmul" and (types[x] != "evo" or types[z] != "qobj"):
                op = "iadd"
            prog.append((op, x, x, z))
            if types[x] == "qobj" and op == "iadd" and types[z] == "evo":
                types[x] = "evo"           # Qobj += QobjEvo rebinds to a QobjEvo
        elif op == "alias":
            prog.append((op, x, y, None))
            types[x] = types[y]
        elif op == "ctor":
            prog.append((op, x, y, None))
            types[x] = "evo"
        elif op in ("copy", "mul2", "neg"):
            prog.append((op, x, y, None))
            types[x] = types[y]
        else:
            prog.append((op, x, y, z))
            types[x] = "evo" if "evo" in (types[y], types[z]) else "qobj"
    return prog


def seq_types(prog):
    types = {"v0": "evo", "v1": "evo", "v2": "qobj", "v3": "qobj"}
    tt = []
    for op, x, y, z in prog:
        tt.append(dict(types))
        if op in ("iadd", "imul2", "imatmul"):
            if types[x] == "qobj" and op == "iadd" and types[z] == "evo":
                types[x] = "evo"
        elif op in ("alias", "copy", "mul2", "neg"):
            types[x] = types[y]
        elif op == "ctor":
            types[x] = "evo"
        else:
            types[x] = "evo" if "evo" in (types[y], types[z]) else "qobj"
    return tt, types


def seq_to_coq(prog):
    evo_f = tx.clist(tx.q(f) for f in tx.EVO_FIELDS)
    tt, final = seq_types(prog)
    stmts = []
    for (op, x, y, z), types in zip(prog, tt):
        if op == "alias":
            stmts.append('SAssign "%s" (EVar "%s")' % (x, y))
        elif op in ("copy", "mul2", "neg", "ctor"):
            stmts.append('SAssign "%s" (ECall [] (RNew []) ["%s"])' % (x, y))
        elif op in ("add", "matmul"):
            stmts.append('SAssign "%s" (ECall [] (RNew []) ["%s"; "%s"])' % (x, y, z))
        else:
            if types[x] == "evo":
                stmts.append('SAssign "%s" (ECall [(0, %s)] (RArg 0) ["%s"; "%s"])' % (x, evo_f, x, z))
            else:
                stmts.append('SAssign "%s" (ECall [] (RNew []) ["%s"; "%s"])' % (x, x, z))
    fn = 'mkfunc ["v0"; "v1"; "v2"; "v3"] [] (seqs [%s])' % "; ".join(stmts)
    live = sorted(final)
    return ('(let st := fst (exec (orc_seed 20 0) 200 (f_body (%s)) (st0 (%s))) in '
            '(written_params (%s) st, map (env st) [%s]))'
            % (fn, fn, fn, "; ".join('"%s"' % v for v in live))), live


def seq_run_impl(prog):
    import qutip as q
    rngm = random.Random(7)
    A, B, C = mats(rngm)
    D, E, F = mats(rngm)
    env = {"v0": q.QobjEvo([A, [B, f_t]]), "v1": q.QobjEvo([[C, f_t]]),
           "v2": D + 3, "v3": E + 1j}
    init = dict(env)
    before = {k: snap(v) for k, v in init.items()}
    for op, x, y, z in prog:
        if op == "alias":
            env[x] = env[y]
        elif op == "copy":
            env[x] = env[y].copy()
        elif op == "mul2":
            env[x] = env[y] * 2
        elif op == "neg":
            env[x] = -env[y]
        elif op == "ctor":
            env[x] = q.QobjEvo(env[y])
        elif op == "add":
            env[x] = env[y] + env[z]
        elif op == "matmul":
            env[x] = env[y] @ env[z]
        elif op == "iadd":
            v = env[x]
            # `A += A` on a QobjEvo never returns (the list being iterated is
            # the list appended to); use an equal copy as right operand
            v += (env[z].copy() if env[z] is v else env[z])
            env[x] = v
        elif op == "imul2":
            v = env[x]
            v *= 2
            env[x] = v
        elif op == "imatmul":
            v = env[x]
            v @= env[z]
            env[x] = v
    written = sorted(i for i, k in enumerate(["v0", "v1", "v2", "v3"])
                     if snap(init[k]) != before[k])
    live = sorted(env)
    part = canon_partition([id(env[v]) for v in live])
    # the elements list of a QobjEvo is never shared between two distinct objects
    shared = []
    evos = {}
    for v in live:
        if isinstance(env[v], q.QobjEvo):
            evos.setdefault(id(env[v]), env[v])
    lists = [id(e._getstate()["elements"]) for e in evos.values()]
    if len(set(lists)) != len(lists):
        shared.append("two distinct QobjEvo share one elements list")
    return written, part, shared


def canon_partition(vals):
    first = {}
    out = []
    for v in vals:
        if v not in first:
            first[v] = len(first)
        out.append(first[v])
    return out


# ============================================================== T: obligations
def evaluate_checker(items):
    ok, out = vlib.coqc_file("Gen/%s.v" % IRMOD)
    if not ok:
        raise RuntimeError("generated IR does not compile:\n" + out[-2000:])
    ids = [it for it in items if "error" not in it]
    vals = vlib.coq_eval_values("cases_C04_chk_" + TAG, HEADER,
                                ["(why_rejected %s, st0_entry_b %s)" % (it["ident"], it["ident"])
                                 for it in ids])
    res = {}
    for it, v in zip(ids, vals):
        why, entry = vlib.parse_coq_value(v)
        res[it["ident"]] = (why, entry)
    return res


def translate_and_check(ctx):
    failed = set()
    items, res = [], {}
    for rnd in range(4):
        items = tx.generate(repo=vlib.REPO, failed=failed, modname=IRMOD)
        res = evaluate_checker(items)
        nf = {it["name"] for it in items if not it["extra_owned"]
              and ("error" in it or res[it["ident"]][0] is not None)}
        if nf == failed:
            break
        failed = nf
    return items, res


def write_obligations(ctx, items, res):
    """Gen/C04_obl.v: one lemma per function; returns dict ident -> status"""
    rej = [it for it in items if "error" not in it and res[it["ident"]][0] is not None]
    seeds = {}
    if rej:
        exprs = ["find_seed %s %s 80 0 400" % (it["ident"], tx.clist(tx.q(f) for f in it["fields"]))
                 for it in rej]
        vals = vlib.coq_eval_values("cases_C04_seed_" + TAG, HEADER, exprs, chunk=4)
        for it, v in zip(rej, vals):
            seeds[it["ident"]] = vlib.parse_coq_value(v)
    lines = [HEADER, "From Coq Require Import Lia.", "From QV Require Import Proofs.C04.", ""]
    status = {}
    for it in items:
        iid = it["ident"]
        if "error" in it:
            status[iid] = ("untranslated", it["error"])
            continue
        why, entry = res[iid]
        if why is None:
            lines.append("Lemma ok_%s : params_preserved %s = true.\nProof. vm_compute. reflexivity. Qed." % (iid, iid))
            lines.append("Lemma entry_%s : st0_entry_b %s = true.\nProof. vm_compute. reflexivity. Qed." % (iid, iid))
            lines.append("Definition thm_%s := params_preserved_sound %s ok_%s.\n" % (iid, iid, iid))
            status[iid] = ("proved", None)
        else:
            w = seeds.get(iid)
            if w is None:
                lines.append("Lemma rejected_%s : params_preserved %s = false.\nProof. vm_compute. reflexivity. Qed.\n" % (iid, iid))
                status[iid] = ("rejected-no-model-witness", why)
            else:
                seed, (l, f) = w[1][0], w[1][1]
                lines.append(
                    "Lemma refuted_%s : params_preserved %s = false /\\\n"
                    "  %d < N0 %s /\\ hp (fst (run_fn %s %d 80)) %d \"%s\" <> hp (st0 %s) %d \"%s\".\n"
                    "Proof. split; [vm_compute; reflexivity|]. split; [vm_compute; lia|].\n"
                    " vm_compute. intro H. discriminate H. Qed.\n"
                    % (iid, iid, l, iid, iid, seed, l, f, iid, l, f))
                pidx = l // 4 - 1
                pname = it["params"][pidx] if 0 <= pidx < len(it["params"]) else "?"
                status[iid] = ("refuted", {"why": why, "seed": seed, "loc": l, "field": f,
                                           "param": pname})
    gen = os.path.join(vlib.COQ, "Gen")
    with open(os.path.join(gen, "C04_obl_%s.v" % TAG), "w") as fh:
        fh.write("\n".join(lines))
    ok, out = vlib.coqc_file("Gen/C04_obl_%s.v" % TAG)
    # keep a readable copy of the last generated files, drop the per-run ones
    try:
        txt = open(os.path.join(gen, IRMOD + ".v")).read()
        open(os.path.join(gen, "C04_ir.v"), "w").write(txt)
        open(os.path.join(gen, "C04_obl.v"), "w").write(
            "\n".join(lines).replace(IRMOD, "C04_ir"))
        for base in (IRMOD, "C04_obl_" + TAG):
            for ext in (".v", ".vo", ".vok", ".vos", ".glob"):
                try:
                    os.remove(os.path.join(gen, base + ext))
                except OSError:
                    pass
            try:
                os.remove(os.path.join(gen, "." + base + ".aux"))
            except OSError:
                pass
    except OSError:
        pass
    return status, ok, out


def fin_obligations(ctx):
    """restore-on-every-exit obligations (Model/C04_fin.v) for the functions
    that write to an argument temporarily"""
    hdr = ("From Coq Require Import List Bool Arith.\nImport ListNotations.\n"
           "From QV Require Import Model.C04_fin Proofs.C04_fin.\n")
    out = {}
    for name, _, _ in tx.FIN_FUNCS:
        try:
            it = tx.translate_fin(name, vlib.REPO)
        except Exception as e:
            out[name] = ("untranslated", "%s: %s" % (type(e).__name__, e))
            continue
        defn = "Definition %s : fstmt := %s." % (it["ident"], it["term"])
        vals = vlib.coq_eval_values(
            "cases_C04_fin_" + TAG, hdr + defn + "\n",
            ["restored_on_every_exit %d %s" % (it["k"], it["ident"]),
             "find (fun j => negb (match disp (fst (fexec (mkforc (fun n => Nat.eqb n j) (fun _ => true) "
             "(repeat true %d)) 80 %s (mkfst [] 0))) with [] => true | _ => false end)) (seq 0 40)"
             % (it["k"], it["ident"])])
        ok = vlib.parse_coq_value(vals[0])
        wit = vlib.parse_coq_value(vals[1])
        lines = [hdr, defn]
        if ok is True:
            lines.append("Lemma ok_%s : restored_on_every_exit %d %s = true.\nProof. vm_compute. reflexivity. Qed."
                         % (it["ident"], it["k"], it["ident"]))
            lines.append("Definition thm_%s := restored_on_every_exit_sound %d %s ok_%s."
                         % (it["ident"], it["k"], it["ident"], it["ident"]))
            status = ("proved", {"stable_conditions": it["conds"], "tracked": it["tracked"]})
        else:
            j = wit[1] if isinstance(wit, tuple) else None
            lines.append("Lemma rejected_%s : restored_on_every_exit %d %s = false.\nProof. vm_compute. reflexivity. Qed."
                         % (it["ident"], it["k"], it["ident"]))
            if j is not None:
                lines.append(
                    "Lemma refuted_%s : exists st' r, fexec (mkforc (fun n => Nat.eqb n %d) (fun _ => true) "
                    "(repeat true %d)) 80 %s (mkfst [] 0) = (st', r) /\\ r <> FOutOfFuel /\\ disp st' <> [].\n"
                    "Proof. eexists. eexists. split; [vm_compute; reflexivity|]. split; intro H; discriminate H. Qed."
                    % (it["ident"], j, it["k"], it["ident"]))
            status = ("refuted" if j is not None else "rejected-no-model-witness",
                      {"raising_call": j, "stable_conditions": it["conds"]})
        gen = os.path.join(vlib.COQ, "Gen")
        fn = "C04_fin_obl_%s" % TAG
        with open(os.path.join(gen, fn + ".v"), "w") as fh:
            fh.write("\n".join(lines))
        okc, log = vlib.coqc_file("Gen/%s.v" % fn)
        try:
            open(os.path.join(gen, "C04_fin_obl.v"), "w").write("\n".join(lines))
        except OSError:
            pass
        out[name] = status + (okc, log[-1500:] if not okc else "")
    return out


# functions the unchanged tree is expected to fail at, with the oracle
# scenarios that must reproduce the defect on the implementation
REFUTED_REPLAY = {
    "MESolver.__init__": (SITE_ME, "MESolver:evo:super:"),
    "_solver_deprecation": (SITE_DEP, "deprecated-kwarg:"),
    "sesolve": (SITE_DEP, "deprecated-kwarg:sesolve"),
    "mesolve": (SITE_DEP, "deprecated-kwarg:mesolve"),
    "mcsolve": (SITE_DEP, "deprecated-kwarg:mcsolve"),
    "QobjEvo.tidyup": (SITE_TIDY, "tidyup:"),
    "krylovsolve": ("qutip/solver/krylovsolve.py:krylovsolve", "api:krylovsolve"),
}


# ========================================================================= run
def _cleanup():
    import glob
    gen = os.path.join(vlib.COQ, "Gen")
    for f in glob.glob(os.path.join(gen, "*_%s*" % TAG)) + glob.glob(os.path.join(gen, ".*_%s*" % TAG)):
        try:
            os.remove(f)
        except OSError:
            pass


def run(ctx):
    try:
        _run(ctx)
    finally:
        _cleanup()


def _run(ctx):
    import qutip  # noqa: F401
    rng = random.Random(ctx.seed * 104729 + 4)
    ctx.cov["rule"] = (
        "T: one obligation per translated function (checker verdict by vm_compute on the IR "
        "regenerated from the source); K: an operation-sequence case is a straight-line program of "
        "QobjEvo/Qobj operations run in the model and on real objects (compared: set of modified "
        "initial operands, alias partition of the final variables), non-trivial when it contains an "
        "in-place operation; oracle: a scenario is (API call, input form, storage type, memory "
        "order, reuse pattern), followed by the documented in-place operations on its results; "
        "distinct by name")
    ctx.cov["trusted_base"] += [
        "tools/tx_c04_alias.py: the translated subset is the model of the function bodies; branch "
        "and loop conditions are not interpreted (all paths); attributes of one object = fields of "
        "one cell; a QobjEvo with its elements list / feedback dicts is one cell",
        "effect summaries of callees that are not themselves translated (SUMMARIES table; builtins, "
        "data-layer kernels - with the in-place kernels iadd_*/imul_*/tidyup*/column_(un)stack_dense "
        "modelled as writing their first argument -, Qobj methods, integrator set-up): confirmed on real "
        "objects by identity and deep snapshots on every run, not proved; summaries of translated callees "
        "(QobjEvo constructor and methods, solver constructors and front ends, coefficients) are "
        "obligations of their own; callbacks passed by the caller are assumed pure; type facts used for "
        "`x += ...` (Qobj / Python numbers rebind, locally built lists extend) are probed",
        "Qobj: the constructor is translated in both documented modes (copy=True: the data object "
        "is created in the call, exit assertion; copy=False: documented opt-out, no assertion); a "
        "translated function that builds `Qobj(x, copy=False)` must prove x was created in the call; "
        "`x.data` and `x._data` are one field; type fact: in Qobj.to the conversion is only reached "
        "for another type (probed)",
        "exclusive ownership of a QobjEvo's containers and of a Qobj's data object: proved relative to the caller's objects "
        "(store-time and constructor-exit assertions + C04_owned_container_not_shared_with_caller); "
        "exclusivity among objects created during one and the same call is confirmed by the "
        "operation-sequence correspondence only",
        "owned parameters (self of __init__ and of documented in-place methods, **kwargs, the stats "
        "dict handed to a result constructor) may be modified; Propagator.__init__ is covered for "
        "system = Qobj/QobjEvo/list only (a Solver instance given as system is driven in place by design); "
        "QobjEvo._expect_dense / _mul_np_vec (temporary in-place reshape with restoration) are not "
        "under the theorem (the checker has no notion of restoring a write): snapshot oracle only",
        "snapshot function of tools/c04.py (data buffers, index arrays, dims, element lists, "
        "coefficient values at 3 times and their args, dict items, result attributes)",
    ]

    # ---- oracle scenarios (needed by the proof-failure search too)
    scs = scenarios(rng, ctx.quick)
    results = {}

    def run_all(filter_prefix=None, origin="oracle"):
        todo = [sc for sc in scs if sc.name not in results
                and not (filter_prefix and not sc.name.startswith(filter_prefix))]
        rr = forked_map(run_scenario, todo, timeout=40)
        for sc, (st_, val) in zip(todo, rr):
            if st_ == "ok":
                results[sc.name] = val
            elif st_ == "skipped":
                results[sc.name] = ([], None, True, {})
                continue
            else:
                results[sc.name] = ([], "%s: %s" % (st_, val), True, {})
                ctx.violation(sc.site, "scenario-" + st_,
                              "%s: the call does not complete (%s: %s)" % (sc.name, st_, val),
                              {"scenario": sc.name, "status": st_, "message": val})
            findings, err, same, before = results[sc.name]
            report_scenario(ctx, sc, findings, err, same, before, origin)

    def search(failed, log):
        run_all(origin="search after proof failure")

    # ---- 1. proofs
    vlib.standard_proof_step(ctx, ["Props/C04.vo"], ["Props/C04.v"], search)

    # ---- 2. translator + checker obligations
    try:
        items, res = translate_and_check(ctx)
        status, ok, out = write_obligations(ctx, items, res)
    except Exception as e:
        ctx.add_obligation("translator", False)
        run_all()
        ctx.violation("tx:C04", "translator-failed", "translation / checker evaluation failed: %s" % e,
                      {"log": traceback.format_exc()[-3000:]}, found_input=False)
        ctx.cov["explanation"] = "translator failed"
        return
    if not ok:
        ctx.violation("tx:C04:obligations", "coqc", "generated obligations do not check",
                      {"log": out[-3000:]}, found_input=False)
    names = {it["ident"]: it for it in items}
    used_probes = set(["isolation", "immutable_targets", "reshape_kernels"])
    tx_report = {}
    pending = []          # rejected functions that need an implementation witness
    for iid, (st, info) in status.items():
        it = names[iid]
        used_probes |= set(it.get("probes", []))
        label = it["name"] + ("[may modify %s]" % ",".join(it["extra_owned"]) if it["extra_owned"] else "")
        tx_report[label] = st if st == "proved" else [st, info]
        if st == "proved":
            ctx.add_obligation("params_preserved:" + label, ok)
        elif st == "refuted":
            ctx.add_obligation("refuted:" + label, ok)
            pending.append((it, info))
        else:
            ctx.add_obligation("params_preserved:" + label, False)
            pending.append((it, info))
    # ---- 2b. restore-on-every-exit obligations (temporary writes to an argument)
    try:
        fin = fin_obligations(ctx)
    except Exception as e:
        fin = {"*": ("untranslated", "harness: %s" % str(e)[-300:], False, "")}
    fin_pending = []
    for name, rec in fin.items():
        st_, info = rec[0], rec[1]
        okc = rec[2] if len(rec) > 2 else False
        label = name + "[temporary writes restored on every exit]"
        tx_report[label] = st_ if st_ == "proved" else [st_, info]
        if st_ == "proved":
            ctx.add_obligation("restored_on_every_exit:" + name, okc)
        elif st_ == "refuted":
            ctx.add_obligation("refuted:" + label, okc)
            fin_pending.append((name, info))
        else:
            ctx.add_obligation("restored_on_every_exit:" + name, False)
            fin_pending.append((name, info))
    ctx.cov["translated_functions"] = tx_report
    ctx.log("translator: %d functions, %d proved, %d refuted/rejected" % (
        len(status), sum(1 for s in status.values() if s[0] == "proved"), len(pending)))

    # ---- 3. K: summaries
    P = probes()
    nprobe = 0
    pnames = sorted(used_probes)
    for name in pnames:
        if name not in P:
            ctx.violation("summary:" + name, "no-probe", "effect summary `%s` has no confirmation probe" % name,
                          {"probe": name}, found_input=False)
    pnames = [n for n in pnames if n in P]
    pres = forked_map(lambda n: P[n](), pnames, timeout=60)
    for name, (st_, val) in zip(pnames, pres):
        if st_ == "skipped":
            continue
        bad = val if st_ == "ok" else ["probe %s: %s" % (st_, val)]
        nprobe += 1
        ctx.count_case(("probe", name))
        ctx.cov["traces_validated_against_impl"] += 1
        for b in bad[:3]:
            ctx.violation("summary:" + name, b.split(":")[0], "effect summary not confirmed on real objects: " + b,
                          {"probe": name, "failure": b})
    ctx.log("summaries: %d probes run" % nprobe)

    # ---- 3b. K: operation sequences, model vs implementation
    nseq = 150 if ctx.quick else 1500
    progs = []
    cdir = os.path.join(vlib.VERIF, "corpus", "C04")
    if os.path.isdir(cdir):
        for f in sorted(os.listdir(cdir)):
            progs.append([tuple(x) for x in json.load(open(os.path.join(cdir, f)))["prog"]])
    while len(progs) < nseq:
        progs.append(gen_sequence(rng, rng.randint(1, 9)))
    exprs, lives = [], []
    for p in progs:
        e, live = seq_to_coq(p)
        exprs.append(e)
        lives.append(live)
    try:
        vals = vlib.coq_eval_values("cases_C04_seq_" + TAG, HEADER0, exprs, chunk=100)
    except RuntimeError as e:
        vals = None
        ctx.violation("corr:C04:model-eval", "coqc", "model evaluation failed", {"log": str(e)[-2000:]},
                      found_input=False)
    mism = 0
    dist = {"len": {}, "inplace": 0}
    if vals is not None:
        ires = forked_map(seq_run_impl, progs, timeout=20)
        for p, v, (st_, val) in zip(progs, vals, ires):
            mw, menv = vlib.parse_coq_value(v)
            model = (sorted(mw), canon_partition(list(menv)))
            if st_ == "skipped":
                continue
            if st_ == "ok":
                iw, ipart, shared = val
            else:
                iw, ipart, shared = None, None, ["implementation %s: %s" % (st_, val)]
            nontriv = any(op in ("iadd", "imul2", "imatmul") for op, _, _, _ in p)
            dist["len"][len(p)] = dist["len"].get(len(p), 0) + 1
            dist["inplace"] += 1 if nontriv else 0
            ctx.count_case(("seq", tuple(p)), nontrivial=nontriv)
            ctx.cov["traces_validated_against_impl"] += 1
            if shared or model != (iw, ipart):
                mism += 1
                if mism <= 3:
                    extra = [k for k in (iw or []) if k not in model[0]]
                    ctx.violation("corr:operation-sequence",
                                  "operand-modified" if extra else ("shared-elements" if shared else "model-differs"),
                                  "operation sequence: model and implementation disagree%s" % (
                                      "; the implementation modified operand(s) %s that the summaries protect" % extra
                                      if extra else ""),
                                  {"prog": p, "model": model, "impl": [iw, ipart], "notes": shared},
                                  found_input=bool(extra or shared))
        ctx.sample({"sequence": progs[-1], "model_written_and_partition": list(model),
                    "impl_written_and_partition": [iw, ipart]})
    ctx.log("operation sequences: %d compared, %d mismatches" % (len(progs), mism))

    # ---- 4. oracle
    run_all()
    nfind = sum(1 for r in results.values() if r[0])
    errs = {k: r[1] for k, r in results.items() if r[1]}
    for sc in scs:
        ctx.count_case(("scenario", sc.name))
    ctx.cov["scenario_errors"] = dict(list(errs.items())[:10])
    ctx.cov["input_distribution"] = {
        "scenarios": len(scs), "scenarios_with_changed_argument": nfind,
        "scenarios_raising": len(errs),
        "by_family": _count(sc.name.split(":")[0] for sc in scs),
        "sequence_lengths": dist["len"], "sequences_with_inplace_op": dist["inplace"]}
    if len(errs) > len(scs) // 4:
        ctx.violation("oracle:C04", "scenarios-raise", "%d of %d oracle scenarios raise" % (len(errs), len(scs)),
                      {"errors": dict(list(errs.items())[:10])}, found_input=False)
    ctx.sample({"scenario": scs[0].name, "changed": results[scs[0].name][0]})
    ctx.log("oracle: %d scenarios, %d with a changed argument, %d raising" % (len(scs), nfind, len(errs)))

    # ---- 4b. exploration (not part of the C04 statement, never a VIOLATION)
    acases = aliasing_cases(random.Random(ctx.seed + 404))
    ares = forked_map(run_alias_case, acases, timeout=40)
    expl = {"cases": len(acases), "result_follows_later_edit_of_input": [], "documented_opt_out": [],
            "not_run": []}
    for case, (st_, val) in zip(acases, ares):
        if st_ != "ok":
            expl["not_run"].append("%s: %s %s" % (case[0], st_, str(val)[:120]))
            continue
        name, found, optout = val
        for arg, path in found:
            rec = "%s: result changes at `%s` after an in-place edit of input `%s`" % (name, path, arg)
            (expl["documented_opt_out"] if optout else
             expl["result_follows_later_edit_of_input"]).append(rec)
            if not optout:
                print("EXPLORATION: property=C04 input-aliasing (outside the statement, not a violation) "
                      + rec, flush=True)
    ctx.cov["exploration_input_aliasing"] = expl
    ctx.log("exploration input-aliasing: %d cases, %d results follow a later edit of an input, "
            "%d documented opt-outs" % (len(acases), len(expl["result_follows_later_edit_of_input"]),
                                        len(expl["documented_opt_out"])))

    # ---- 5. every rejected function needs a witness on the implementation
    for it, info in pending:
        base = it["name"]
        label = base + ("[may modify %s]" % ",".join(it["extra_owned"]) if it["extra_owned"] else "")
        exp = REFUTED_REPLAY.get(base) if not it["extra_owned"] else None
        hit = []
        if exp is not None:
            site, prefix = exp
            hit = [n for n, r in results.items() if n.startswith(prefix) and r[0]]
        if hit:
            ctx.notes.append("checker rejects %s (%s); reproduced on the implementation by scenario %s"
                             % (label, info, hit[0]))
            continue
        anyhit = [n for n, r in results.items() if r[0]]
        fresh = list(ctx.violations)          # unlisted violations found by the oracle in this run
        ctx.violation("checker:" + label, json.dumps(info, sort_keys=True, default=str)[:200],
                      "the verified checker no longer accepts %s (%s)%s" % (
                          label, info,
                          "; concrete inputs: see the oracle violations of this run" if fresh else
                          " and no oracle scenario shows a modified argument that is not already listed"),
                      {"function": label, "verdict": info, "oracle_replays_of_this_run": fresh[:6],
                       "scenarios_with_findings": anyhit[:8]},
                      found_input=bool(fresh))
    for name, info in fin_pending:
        fresh = [v for v in ctx.violations if "expect" in v or "mismatch" in v]
        ctx.violation("checker:" + name, "temporary-write-not-restored",
                      "%s: the verified restore-on-every-exit checker no longer accepts the function "
                      "(%s)%s" % (name, info, "; concrete inputs: see the oracle violations of this run"
                                  if fresh else " and no oracle scenario shows an unrestored argument"),
                      {"function": name, "verdict": info, "oracle_replays_of_this_run": fresh[:6]},
                      found_input=bool(fresh))
    ctx.cov["explanation"] = (
        "Props/C04.v: soundness of the checker for every program, oracle, fuel, heap. Per function "
        "of the anchored code the checker verdict is recomputed from the current source "
        "(Gen/C04_obl.v). Rejected functions carry a model execution that writes a caller's cell and "
        "must be reproduced on real objects by the snapshot oracle. The rest of the public API is "
        "under the snapshot oracle only (exploration, not counted as obligations).")


def _count(xs):
    d = {}
    for x in xs:
        d[x] = d.get(x, 0) + 1
    return d


def replay(ctx, payload):
    import qutip  # noqa: F401
    d = payload.get("detail", {})
    name = d.get("scenario")
    if name is None:
        ctx.log("replay: payload has no scenario (proof / correspondence record)")
        return
    for seed in (payload.get("seed", 0), 0, 1):
        rng = random.Random(seed * 104729 + 4)
        for tier_quick in (True, False):
            for sc in scenarios(rng, tier_quick):
                if sc.name == name:
                    findings, err, same, before = run_scenario(sc)
                    report_scenario(ctx, sc, findings, err, same, before, "replay")
                    return
    ctx.log("replay: scenario %s not found" % name)
