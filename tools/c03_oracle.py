"""Implementation-level oracle for C03 (and the witness search used when a
flag obligation no longer proves): run operations on real Qobj's whose
isherm/isunitary caches are in every state (unknown / populated by a read)
and compare every *definite* cached answer of every result with a
recomputation from the entries.
"""
import itertools
import random

import numpy as np


def pool():
    import qutip
    from qutip import Qobj
    s2 = 1 / np.sqrt(2)
    mats = {
        "I": [[1, 0], [0, 1]], "X": [[0, 1], [1, 0]], "Y": [[0, -1j], [1j, 0]],
        "Z": [[1, 0], [0, -1]], "iZ": [[1j, 0], [0, -1j]], "iI": [[1j, 0], [0, 1j]],
        "2I": [[2, 0], [0, 2]], "hI": [[0.5, 0], [0, 0.5]], "mI": [[-1, 0], [0, -1]],
        "N": [[0, 1], [0, 0]], "W": [[0, 2], [0.5, 0]], "P0": [[1, 0], [0, 0]],
        "hX": [[0, 0.5], [0.5, 0]], "G": [[1, 2], [3j, 4]], "H2": [[2, 1j], [-1j, 3]],
        "Had": [[s2, s2], [s2, -s2]], "S": [[1, 0], [0, 1j]],
        "iPiZ": [[1j * np.pi, 0], [0, -1j * np.pi]],
        "PD": [[2, 1], [1, 2]],
        "O": [[0, 0], [0, 0]],
    }
    ops = {k: np.array(v, dtype=complex) for k, v in mats.items()}
    return ops


CACHE_STATES = ["none", "herm", "unit", "both"]


def mk(arr, cache, dims=None, dtype=None):
    from qutip import Qobj
    q = Qobj(arr.copy(), dims=dims)
    if dtype:
        q = q.to(dtype)
    if cache in ("herm", "both"):
        q.isherm
    if cache in ("unit", "both"):
        q.isunitary
    return q


def truth(q):
    """Recompute both facts from the entries (independent of the caches)."""
    a = q.full()
    if a.shape[0] != a.shape[1]:
        return False, False
    scale = max(1.0, float(np.max(np.abs(a)))) if a.size else 1.0
    herm_err = float(np.max(np.abs(a - a.conj().T))) if a.size else 0.0
    unit_err = float(np.max(np.abs(a @ a.conj().T - np.eye(a.shape[0])))) if a.size else 0.0
    return herm_err, unit_err, scale


def check_flags(q, where, report, history):
    """Compare definite cached answers with the recomputation.  Borderline
    values (within 1e-6 of the tolerance decision) are not judged."""
    from qutip import Qobj
    if not isinstance(q, Qobj):
        return
    try:
        if not np.all(np.isfinite(q.full())):
            return          # NaN / inf entries (e.g. sqrtm of a nilpotent matrix): nothing to judge
    except Exception:
        return
    t = truth(q)
    if len(t) == 2:
        herm_err, unit_err, scale = (1.0, 1.0, 1.0)
    else:
        herm_err, unit_err, scale = t
    lo, hi = 1e-9 * scale, 1e-6 * scale

    def fresh_pred(kind):
        """qutip's own predicate recomputed from the bare matrix (its tolerance is
        absolute, ours relative: for entries of size 1e8 the two legitimately differ)"""
        try:
            b = Qobj(q.full(), dims=q.dims)
            return bool(b.isherm) if kind == "isherm" else bool(b.isunitary)
        except Exception:
            return None
    if q._isherm is not None:
        actual = None if lo < herm_err < hi else (herm_err <= lo)
        if actual is not None and bool(q._isherm) != actual and fresh_pred("isherm") != bool(q._isherm):
            report(where, "isherm", bool(q._isherm), actual, q, history)
    if q._isunitary is not None and q.isoper:
        actual = None if lo < unit_err < hi else (unit_err <= lo)
        if q.shape[0] != q.shape[1]:
            actual = False
        if actual is not None and bool(q._isunitary) != actual and fresh_pred("isunitary") != bool(q._isunitary):
            report(where, "isunitary", bool(q._isunitary), actual, q, history)


def unary_ops():
    import qutip
    ops = {
        "neg": lambda a: -a,
        "dag": lambda a: a.dag(),
        "conj": lambda a: a.conj(),
        "trans": lambda a: a.trans(),
        "copy": lambda a: a.copy(),
        "to_dense": lambda a: a.to("dense"),
        "to_csr": lambda a: a.to("csr"),
        "to_dia": lambda a: a.to("dia"),
        "pow0": lambda a: a ** 0, "pow1": lambda a: a ** 1,
        "pow2": lambda a: a ** 2, "pow3": lambda a: a ** 3,
        "expm": lambda a: a.expm(),
        "logm": lambda a: a.logm(),
        "sqrtm": lambda a: a.sqrtm(),
        "inv": lambda a: a.inv(),
        "mul_0": lambda a: a * 0, "rmul_0": lambda a: 0.0 * a, "div_huge": lambda a: a / 1e300 / 1e300,
        "mul_2": lambda a: a * 2, "mul_m1": lambda a: a * -1, "mul_i": lambda a: a * 1j,
        "rmul_i": lambda a: 1j * a, "mul_h": lambda a: a * 0.5,
        "mul_phase": lambda a: a * (0.6 + 0.8j), "div_2": lambda a: a / 2,
        "div_i": lambda a: a / 1j,
        "add_2": lambda a: a + 2, "add_i": lambda a: a + 1j, "radd_1": lambda a: 1 + a,
        "sub_i": lambda a: a - 1j, "rsub_2": lambda a: 2 - a, "add_0": lambda a: a + 0,
        "unit_tr": lambda a: a.unit(), "unit_fro": lambda a: a.unit(norm="fro"),
        "unit_max": lambda a: a.unit(norm="max"), "unit_one": lambda a: a.unit(norm="one"),
        "unit_tr_inpl": lambda a: a.copy().unit(inplace=True),
        "unit_fro_inpl": lambda a: a.copy().unit(inplace=True, norm="fro"),
        "unit_max_inpl": lambda a: a.copy().unit(inplace=True, norm="max"),
        "unit_one_inpl": lambda a: a.copy().unit(inplace=True, norm="one"),
        "spre": lambda a: qutip.spre(a), "spost": lambda a: qutip.spost(a),
        "sprepost_self": lambda a: qutip.sprepost(a, a),
        "sprepost_dag": lambda a: qutip.sprepost(a, a.dag()),
        "to_super": lambda a: qutip.to_super(a),
        "liouvillian": lambda a: qutip.liouvillian(a),
        "lindblad": lambda a: qutip.lindblad_dissipator(a),
        "tensor_self": lambda a: qutip.tensor(a, a),
        "tensor_id": lambda a: qutip.tensor(a, qutip.qeye(2)),
        "expand_op": lambda a: qutip.expand_operator(a, [2, 3, 2], [2]),
        "expand_op0": lambda a: qutip.expand_operator(a, [2, 2], [0]),
        "transform_had": lambda a: a.transform(_had()),
        "transform_inv": lambda a: a.transform(_had(), inverse=True),
        "tidyup": lambda a: a.copy().tidyup(),
        "qobjevo_const": lambda a: qutip.QobjEvo(a)(0.5),
        "qobjevo_td": lambda a: qutip.QobjEvo([a, [a, _f_real]])(2.0),
        "qobjevo_td_c": lambda a: qutip.QobjEvo([a, [a, _f_imag]])(2.0),
        "trunc_neg": lambda a: a.trunc_neg(),
        "ptrace_t": lambda a: qutip.tensor(a, a).ptrace(0),
        "permute_t": lambda a: qutip.tensor(a, qutip.Qobj([[1, 2], [3, 4]])).permute([1, 0]),
        "vec_roundtrip": lambda a: qutip.vector_to_operator(qutip.operator_to_vector(a)),
    }

    # channel-representation conversions of superoperators whose flags were
    # read (or set by their constructor) before the conversion
    def _read(q):
        q.isherm, q.isunitary
        return q
    conv = {
        "choi_of_spre_read": lambda a: qutip.to_choi(_read(qutip.spre(a))),
        "choi_of_spost_read": lambda a: qutip.to_choi(_read(qutip.spost(a))),
        "choi_of_sprepost_read": lambda a: qutip.to_choi(_read(qutip.sprepost(a, a.dag()))),
        "choi_of_sprepost_self_read": lambda a: qutip.to_choi(_read(qutip.sprepost(a, a))),
        "choi_of_spre": lambda a: qutip.to_choi(qutip.spre(a)),
        "choi_of_liouv_read": lambda a: qutip.to_choi(_read(qutip.liouvillian(a))),
        "super_of_choi_read": lambda a: qutip.to_super(_read(qutip.to_choi(qutip.sprepost(a, a.dag())))),
        "super_of_choi_spre_read": lambda a: qutip.to_super(_read(qutip.to_choi(qutip.spre(a)))),
        "super_of_kraus_choi_read": lambda a: qutip.to_super(_read(qutip.kraus_to_choi([a, a.dag()]))),
        "chi_of_sprepost_read": lambda a: qutip.to_chi(_read(qutip.sprepost(a, a.dag()))),
        "choi_of_chi_read": lambda a: qutip.to_choi(_read(qutip.to_chi(qutip.sprepost(a, a.dag())))),
        "dual_chan_read": lambda a: _read(qutip.to_choi(qutip.sprepost(a, a.dag()))).dual_chan(),
        "super_dag_read": lambda a: _read(qutip.to_super(_read(qutip.to_choi(qutip.sprepost(a, a.dag()))))).dag(),
    }
    ops.update(conv)
    return ops


def _had():
    import qutip
    s2 = 1 / np.sqrt(2)
    return qutip.Qobj([[s2, s2], [s2, -s2]])


def _f_real(t):
    return t


def _f_imag(t):
    return 1j * t


def binary_ops():
    import qutip
    return {
        "add": lambda a, b: a + b, "sub": lambda a, b: a - b,
        "matmul": lambda a, b: a @ b, "mul": lambda a, b: a * b,
        "tensor": lambda a, b: qutip.tensor(a, b),
        "sprepost": lambda a, b: qutip.sprepost(a, b),
        "super_tensor": lambda a, b: qutip.super_tensor(qutip.to_super(a), qutip.to_super(b)),
        "liouv_c": lambda a, b: qutip.liouvillian(a, [b]),
        "apply_super": lambda a, b: qutip.sprepost(a, a.dag())(b),
        "comm": lambda a, b: qutip.commutator(a, b),
    }


def solver_cases(report):
    """Solver output states: flags attached by Solver._restore_state."""
    import qutip
    H0 = 0 * qutip.sigmaz()
    Hz = qutip.sigmaz()
    cases = [
        ("sesolve_oper_H0", lambda st: qutip.sesolve(H0, st, [0, 1]).states, qutip.qeye(2)),
        ("sesolve_oper_Hz", lambda st: qutip.sesolve(Hz, st, [0, 0.5]).states, qutip.qeye(2)),
        ("mesolve_dm", lambda st: qutip.mesolve(Hz, st, [0, 0.5], [qutip.sigmam()]).states,
         qutip.fock_dm(2, 0)),
        ("mesolve_nonherm_op", lambda st: qutip.mesolve(Hz, st, [0, 0.5], [qutip.sigmam()]).states,
         qutip.Qobj([[0, 1], [0, 0]])),
        ("mesolve_oper_super", lambda st: qutip.mesolve(qutip.liouvillian(Hz), st, [0, 0.5]).states,
         qutip.to_super(qutip.qeye(2))),
        ("propagator_t0", lambda st: [qutip.propagator(H0, 0.0), qutip.propagator(Hz, [0, 1.0])[0]],
         None),
    ]

    # steady-state functions hand back a symmetrised matrix with isherm=True
    # (sites prop_ss, ss_direct, ss_power of the translator)
    def ss_outputs(st):
        sx, sm, sz = qutip.sigmax(), qutip.sigmam(), qutip.sigmaz()
        systems = [(sz + 0.3 * sx, [0.7 * sm]),
                   (sz, [0.5 * sm, 0.2 * sm.dag()]),
                   (qutip.jmat(1, "z") + 0.4 * qutip.jmat(1, "x"), [0.6 * qutip.jmat(1, "-")]),
                   (qutip.tensor(sz, qutip.qeye(2)) + 0.2 * qutip.tensor(sx, sx),
                    [0.5 * qutip.tensor(sm, qutip.qeye(2)), 0.4 * qutip.tensor(qutip.qeye(2), sm)])]
        outs = []
        for H, c in systems:
            for kw in ({"method": "direct"}, {"method": "direct", "sparse": False},
                       {"method": "power"}, {"method": "eigen"}, {"method": "svd"},
                       {"method": "iterative-gmres"}, {"method": "direct", "use_rcm": True}):
                try:
                    outs.append(qutip.steadystate(H, c, **kw))
                except Exception:
                    pass
            try:
                U = qutip.propagator(H, 40.0, c)
                outs.append(qutip.propagator_steadystate(U))
            except Exception:
                pass
        return outs
    cases.append(("steadystate", ss_outputs, None))
    n = 0
    for name, fn, st in cases:
        for cache in CACHE_STATES:
            s = None
            if st is not None:
                s = st.copy()
                if cache in ("herm", "both"):
                    s.isherm
                if cache in ("unit", "both"):
                    s.isunitary
            try:
                outs = fn(s)
            except Exception:
                continue
            for k, o in enumerate(outs):
                n += 1
                check_flags(o, "solver:" + name, report, [name, cache, "state#%d" % k])
    return n


def qobjevo_cases(report):
    """QobjEvo.__call__ (site qobjevo_call): time-dependent operators with 1-3
    terms whose operators have their flags cached or not, and coefficients that
    are real / complex / zero at the evaluation time, in every position."""
    import qutip
    P = pool()
    ops = ["X", "Z", "N", "Y", "iZ", "P0", "O"]
    coeffs = {"r": lambda t: 0.5 * t, "c": lambda t: 0.5j * t, "m": lambda t: (1 + 1j) * t,
              "z": lambda t: 0.0 * t, "rc": lambda t: complex(0.25 * t)}
    n = 0
    for nterms in (1, 2, 3):
        for names in itertools.product(ops[:5] if nterms == 3 else ops, repeat=nterms):
            if nterms == 3 and len(set(names)) < 2:
                continue
            for cs in itertools.product(sorted(coeffs), repeat=nterms):
                if nterms == 3 and (n % 7):       # thin out the largest stratum
                    n += 1
                    continue
                for cache in ("herm", "none"):
                    terms = [[mk(P[a], cache), coeffs[c]] for a, c in zip(names, cs)]
                    for lead in (False, True):     # with / without a constant first term
                        lst = ([mk(P["Z"], cache)] if lead else []) + terms
                        try:
                            q = qutip.QobjEvo(lst)(2.0)
                        except Exception:
                            continue
                        n += 1
                        check_flags(q, "qobjevo.__call__", report,
                                    ["QobjEvo", list(names), list(cs), cache, "lead" if lead else "nolead"])
    return n


def replay_history(hist, report):
    """Re-execute one recorded history (depth-1 unary / binary case or a chain)
    and judge every intermediate result.  Returns False when the history is of
    another kind (solver / QobjEvo families: re-run the whole oracle then)."""
    from qutip import Qobj
    P, U, B = pool(), unary_ops(), binary_ops()
    if not hist or not isinstance(hist[0], list) or hist[0][0] not in P:
        return False
    first = hist[0]
    cur = mk(P[first[0]], first[1] if len(first) > 1 else "none",
             dtype=first[2] if len(first) > 2 else None)
    done = [list(first)]
    rest = hist[1:]
    # depth-1 binary form: [[a, ca], [b, cb], op]
    if len(rest) == 2 and isinstance(rest[0], list) and rest[0][0] in P and isinstance(rest[1], str) \
            and rest[1] in B:
        other = mk(P[rest[0][0]], rest[0][1])
        r = B[rest[1]](cur, other)
        check_flags(r, rest[1], report, hist)
        return True
    for step in rest:
        if step == "read-isherm":
            cur.isherm
        elif step == "read-isunitary":
            cur.isunitary
        elif isinstance(step, str):
            if step not in U:
                return False
            cur = U[step](cur)
        else:
            opn, nb = step[0], step[1]
            if opn not in B or nb not in P:
                return False
            other = mk(P[nb], step[2] if len(step) > 2 else "none")
            side = step[3] if len(step) > 3 else "cur-first"
            cur = B[opn](cur, other) if side == "cur-first" else B[opn](other, cur)
        done.append(step)
        if not isinstance(cur, Qobj):
            break
        if not (isinstance(step, str) and step.startswith("read-")):
            check_flags(cur, "chain:" + (step if isinstance(step, str) else step[0]), report, list(done))
    return True


def run_oracle(seed, budget_chains, report, count=None, only=None):
    """Depth-1 exhaustive over pool x cache states x operations, then random
    chains (depth 2-4) with random reads in between.  report(where, flag,
    cached, actual, qobj, history)."""
    rng = random.Random(seed)
    P = pool()
    U = unary_ops()
    B = binary_ops()
    n = 0
    names = sorted(P)
    for opn, fn in sorted(U.items()):
        if only and opn not in only:
            continue
        for name in names:
            for cache in CACHE_STATES:
                a = mk(P[name], cache)
                try:
                    r = fn(a)
                except Exception:
                    continue
                n += 1
                if count:
                    count((opn, name, cache))
                check_flags(r, opn, report, [[name, cache], opn])
    bin_names = ["I", "X", "Z", "iZ", "2I", "hI", "N", "W", "G", "H2", "S", "Y", "O"]
    for opn, fn in sorted(B.items()):
        if only and opn not in only:
            continue
        for na, nb in itertools.product(bin_names, bin_names):
            for ca, cb in (("none", "none"), ("both", "both"), ("herm", "unit"), ("both", "none")):
                a, b = mk(P[na], ca), mk(P[nb], cb)
                try:
                    r = fn(a, b)
                except Exception:
                    continue
                n += 1
                if count:
                    count((opn, na, nb, ca, cb))
                check_flags(r, opn, report, [[na, ca], [nb, cb], opn])
    # random chains: histories with reads interleaved
    unames, bnames = sorted(U), sorted(B)
    for _ in range(budget_chains):
        hist = []
        na = rng.choice(names)
        c0, d0 = rng.choice(CACHE_STATES), rng.choice([None, "csr", "dense", "dia"])
        cur = mk(P[na], c0, dtype=d0)
        hist.append([na, c0, d0])
        for _step in range(rng.randint(2, 4)):
            try:
                if rng.random() < 0.7 or cur.shape != (2, 2):
                    opn = rng.choice(unames)
                    if cur.shape != (2, 2) and opn.startswith(("transform", "permute", "ptrace")):
                        continue
                    nxt = U[opn](cur)
                    hist.append(opn)
                else:
                    opn = rng.choice(bnames)
                    nb = rng.choice(names)
                    cb = rng.choice(CACHE_STATES)
                    other = mk(P[nb], cb)
                    side = "cur-first" if rng.random() < 0.5 else "other-first"
                    nxt = B[opn](cur, other) if side == "cur-first" else B[opn](other, cur)
                    hist.append([opn, nb, cb, side])
            except Exception:
                break
            from qutip import Qobj
            if not isinstance(nxt, Qobj):
                break
            try:
                if not np.all(np.isfinite(nxt.full())):
                    break      # NaN / inf data (sqrtm of a nilpotent matrix, ...): the chain ends here
            except Exception:
                break
            check_flags(nxt, "chain:" + (hist[-1] if isinstance(hist[-1], str) else hist[-1][0]),
                        report, list(hist))
            r = rng.random()
            if r < 0.3:
                nxt.isherm
                hist.append("read-isherm")
            elif r < 0.5:
                nxt.isunitary
                hist.append("read-isunitary")
            cur = nxt
            if max(cur.shape) > 16:
                break
        n += 1
        if count:
            count(tuple(map(str, hist)))
    n += solver_cases(report)
    n += qobjevo_cases(report)
    return n
