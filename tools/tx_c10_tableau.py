"""tx_c10_tableau - translator (T) for property C10.

Reads the Butcher tableaux that qutip's own Runge-Kutta integrator uses

  * qutip/solver/integrator/verner7efficient.py   (vern7_coeff)
  * qutip/solver/integrator/verner9efficient.py   (vern9_coeff)
  * qutip/solver/integrator/explicit_rk.pyx       (euler_coeff, rk4_coeff:
    the two module-level dict literals before the first `cdef`)

with Python's `ast` (nothing is imported or executed from the tree under
test) and writes them as *exact* rationals to coq/Gen/C10_tableaux.v.  Each
float literal / float expression is evaluated to the IEEE double the
interpreter would store into the float64 array and that double is emitted as
the exact dyadic rational `num # 2^k` - i.e. the numbers the kernel really
multiplies with, not the 40-digit decimals in the file.

Supported subset (anything else raises TxError = fail closed):
  NAME = <int literal>
  NAME = np.zeros(<int|NAME> | (<..>, <..>), dtype=np.float64)
  NAME[i] = E | NAME[i, j] = E        with E ::= number | -E | E / E | E - E
                                               | NAME[i] | NAME[i, j]
  for VAR in range(<int>): <subscript assignments using VAR as index>
  NAME = {'order': .., 'a': .., ...}  (the exported dict)
  docstrings, comments, `import numpy as np`, `__all__ = [...]`
For the .pyx: `NAME = {...}` with np.array(<nested list of numbers>,
dtype=np.float64) values and number expressions E (1/6, .5 ...).
"""
import ast
import os
import re
from fractions import Fraction

import vlib


class TxError(Exception):
    pass


def _num(node, env, loopvars):
    """Evaluate a numeric expression the way CPython/numpy float64 would."""
    if isinstance(node, ast.Constant) and isinstance(node.value, (int, float)) \
            and not isinstance(node.value, bool):
        return node.value
    if isinstance(node, ast.UnaryOp) and isinstance(node.op, ast.USub):
        return -_num(node.operand, env, loopvars)
    if isinstance(node, ast.BinOp) and isinstance(node.op, ast.Div):
        return _num(node.left, env, loopvars) / _num(node.right, env, loopvars)
    if isinstance(node, ast.BinOp) and isinstance(node.op, ast.Sub):
        return float(_num(node.left, env, loopvars)) - float(_num(node.right, env, loopvars))
    if isinstance(node, ast.Subscript):
        arr, idx = _target(node, env, loopvars)
        return _get(arr, idx)
    if isinstance(node, ast.Name) and node.id in loopvars:
        return loopvars[node.id]
    raise TxError("unsupported numeric expression: %s" % ast.dump(node)[:120])


def _int(node, env, loopvars):
    if isinstance(node, ast.Constant) and isinstance(node.value, int):
        return node.value
    if isinstance(node, ast.Name):
        if node.id in loopvars:
            return loopvars[node.id]
        if isinstance(env.get(node.id), int):
            return env[node.id]
    raise TxError("unsupported index/size: %s" % ast.dump(node)[:120])


def _target(node, env, loopvars):
    if not isinstance(node.value, ast.Name) or node.value.id not in env:
        raise TxError("subscript of unknown array")
    arr = env[node.value.id]
    if not isinstance(arr, list):
        raise TxError("subscript of a non-array")
    sl = node.slice
    if isinstance(sl, ast.Tuple):
        idx = tuple(_int(e, env, loopvars) for e in sl.elts)
    else:
        idx = (_int(sl, env, loopvars),)
    return arr, idx


def _get(arr, idx):
    x = arr
    for i in idx:
        if not isinstance(x, list) or not (0 <= i < len(x)):
            raise TxError("index out of range %r" % (idx,))
        x = x[i]
    if isinstance(x, list):
        raise TxError("partial indexing")
    return x


def _set(arr, idx, v):
    x = arr
    for i in idx[:-1]:
        if not (0 <= i < len(x)):
            raise TxError("index out of range %r" % (idx,))
        x = x[i]
    if not isinstance(x, list) or not (0 <= idx[-1] < len(x)) or isinstance(x[idx[-1]], list):
        raise TxError("bad index %r" % (idx,))
    x[idx[-1]] = float(v)


def _is_np_float64(node):
    return (isinstance(node, ast.Attribute) and node.attr == "float64"
            and isinstance(node.value, ast.Name) and node.value.id == "np")


def _zeros(call, env):
    if not (isinstance(call.func, ast.Attribute) and call.func.attr == "zeros"
            and isinstance(call.func.value, ast.Name) and call.func.value.id == "np"):
        return None
    if len(call.args) != 1 or [k.arg for k in call.keywords] != ["dtype"] \
            or not _is_np_float64(call.keywords[0].value):
        raise TxError("np.zeros with unexpected arguments")
    sh = call.args[0]
    if isinstance(sh, ast.Tuple):
        dims = [_int(e, env, {}) for e in sh.elts]
    else:
        dims = [_int(sh, env, {})]
    if len(dims) == 1:
        return [0.0] * dims[0]
    if len(dims) == 2:
        return [[0.0] * dims[1] for _ in range(dims[0])]
    raise TxError("np.zeros rank")


def _stmt(st, env, loopvars, out):
    if isinstance(st, ast.Expr) and isinstance(st.value, ast.Constant) \
            and isinstance(st.value.value, str):
        return
    if isinstance(st, ast.Import):
        if [(a.name, a.asname) for a in st.names] != [("numpy", "np")]:
            raise TxError("unexpected import")
        return
    if isinstance(st, ast.Assign) and len(st.targets) == 1:
        tg = st.targets[0]
        if isinstance(tg, ast.Name):
            if tg.id == "__all__":
                return
            v = st.value
            if isinstance(v, ast.Constant) and isinstance(v.value, int):
                env[tg.id] = v.value
                return
            if isinstance(v, ast.Call):
                z = _zeros(v, env)
                if z is not None:
                    env[tg.id] = z
                    return
            if isinstance(v, ast.Dict):
                d = {}
                for k, val in zip(v.keys, v.values):
                    if not (isinstance(k, ast.Constant) and isinstance(k.value, str)
                            and isinstance(val, ast.Name) and val.id in env):
                        raise TxError("unsupported dict entry")
                    d[k.value] = env[val.id]
                out[tg.id] = d
                return
            raise TxError("unsupported assignment to %s" % tg.id)
        if isinstance(tg, ast.Subscript):
            arr, idx = _target(tg, env, loopvars)
            _set(arr, idx, _num(st.value, env, loopvars))
            return
    if isinstance(st, ast.For) and not st.orelse and isinstance(st.target, ast.Name) \
            and isinstance(st.iter, ast.Call) and isinstance(st.iter.func, ast.Name) \
            and st.iter.func.id == "range" and len(st.iter.args) == 1 \
            and not st.iter.keywords:
        n = _int(st.iter.args[0], env, loopvars)
        for i in range(n):
            lv = dict(loopvars)
            lv[st.target.id] = i
            for s2 in st.body:
                if not (isinstance(s2, ast.Assign) and len(s2.targets) == 1
                        and isinstance(s2.targets[0], ast.Subscript)):
                    raise TxError("unsupported statement in for body")
                _stmt(s2, env, lv, out)
        return
    raise TxError("unsupported statement at line %d: %s" % (
        getattr(st, "lineno", 0), ast.dump(st)[:100]))


def read_verner(path, name):
    tree = ast.parse(open(path).read())
    env, out = {}, {}
    for st in tree.body:
        _stmt(st, env, {}, out)
    if name not in out:
        raise TxError("%s not defined in %s" % (name, path))
    d = out[name]
    if sorted(d) != ["a", "b", "bi", "c", "e", "order"]:
        raise TxError("unexpected keys in %s: %r" % (name, sorted(d)))
    return d


def _lit(node):
    """np.array(<nested list>, dtype=np.float64) or a number expression."""
    if isinstance(node, ast.Call):
        if not (isinstance(node.func, ast.Attribute) and node.func.attr == "array"
                and isinstance(node.func.value, ast.Name) and node.func.value.id == "np"
                and len(node.args) == 1 and [k.arg for k in node.keywords] == ["dtype"]
                and _is_np_float64(node.keywords[0].value)):
            raise TxError("unsupported call in tableau dict")
        return _lit(node.args[0])
    if isinstance(node, ast.List):
        return [_lit(e) for e in node.elts]
    v = _num(node, {}, {})
    return v


def _floatify(x):
    return [_floatify(e) for e in x] if isinstance(x, list) else float(x)


def read_pyx(path):
    src = open(path).read()
    head = src.split("\ncdef ")[0]
    res = {}
    for name in ("euler_coeff", "rk4_coeff"):
        m = re.search(r"^%s = \{.*?^\}" % name, head, flags=re.S | re.M)
        if not m:
            raise TxError("%s dict literal not found in %s" % (name, path))
        tree = ast.parse(m.group(0))
        st = tree.body[0]
        if not (isinstance(st, ast.Assign) and isinstance(st.value, ast.Dict)):
            raise TxError("%s is not a dict literal" % name)
        d = {}
        for k, v in zip(st.value.keys, st.value.values):
            if not (isinstance(k, ast.Constant) and isinstance(k.value, str)):
                raise TxError("bad key")
            val = _lit(v)
            d[k.value] = val if k.value == "order" else _floatify(val)
        if sorted(d) != ["a", "b", "c", "order"]:
            raise TxError("unexpected keys in %s" % name)
        res[name] = d
    # the kernel must still pick these dicts for the four method names
    for meth, var in (("vern7", "vern7_coeff"), ("vern9", "vern9_coeff"),
                      ("rk4", "rk4_coeff")):
        if not re.search(r'"%s" == method:\s*\n\s*self\._init_coeff\(\*\*%s\)' % (meth, var), src):
            raise TxError("method %s is no longer wired to %s" % (meth, var))
    if not re.search(r"else:\s*\n\s*self\._init_coeff\(\*\*euler_coeff\)", src):
        raise TxError("default method is no longer euler_coeff")
    return res


# ------------------------------------------------------------------ emission
def qlit(x):
    f = Fraction(float(x))
    n, d = f.numerator, f.denominator
    return "(%s # %d)" % (("(%d)" % n) if n < 0 else str(n), d)


def qlist(xs):
    return "[" + "; ".join(qlit(x) for x in xs) + "]"


def qmat(rows):
    return "[" + ";\n    ".join(qlist(r) for r in rows) + "]"


def emit(name, d):
    s = d["order"]
    if not isinstance(s, int):
        raise TxError("order must be an int")
    lines = []
    lines.append("Definition %s_order : nat := %d." % (name, d["order"]))
    lines.append("Definition %s_a : list (list Q) :=\n   %s." % (name, qmat(d["a"])))
    lines.append("Definition %s_b : list Q := %s." % (name, qlist(d["b"])))
    lines.append("Definition %s_c : list Q := %s." % (name, qlist(d["c"])))
    if "e" in d:
        lines.append("Definition %s_e : list Q := %s." % (name, qlist(d["e"])))
    if "bi" in d:
        lines.append("Definition %s_bi : list (list Q) :=\n   %s." % (name, qmat(d["bi"])))
    return "\n".join(lines)


def read_all(repo=None):
    repo = repo or vlib.REPO
    base = os.path.join(repo, "qutip", "solver", "integrator")
    tabs = dict(read_pyx(os.path.join(base, "explicit_rk.pyx")))
    tabs["vern7_coeff"] = read_verner(os.path.join(base, "verner7efficient.py"), "vern7_coeff")
    tabs["vern9_coeff"] = read_verner(os.path.join(base, "verner9efficient.py"), "vern9_coeff")
    return tabs


NAMES = (("euler_coeff", "euler"), ("rk4_coeff", "rk4"),
         ("vern7_coeff", "vern7"), ("vern9_coeff", "vern9"))


def generate(repo=None):
    """Write coq/Gen/C10_tab_<name>.v, one file per tableau (a file is only
    rewritten when its content changes, so that `make` re-proves exactly the
    tableaux that were edited).  Returns the tableaux as Python floats."""
    tabs = read_all(repo)
    gen = os.path.join(vlib.COQ, "Gen")
    os.makedirs(gen, exist_ok=True)
    for key, nm in NAMES:
        body = ["(* GENERATED by tools/tx_c10_tableau.py from the qutip source - do not edit. *)",
                "From Coq Require Import List ZArith QArith.",
                "Import ListNotations.",
                "Local Open Scope Q_scope.", "",
                emit(nm, tabs[key]), ""]
        text = "\n".join(body)
        path = os.path.join(gen, "C10_tab_%s.v" % nm)
        old = open(path).read() if os.path.exists(path) else None
        if old != text:
            with open(path, "w") as f:
                f.write(text)
    return tabs


if __name__ == "__main__":
    t = generate()
    for k, d in t.items():
        print(k, d["order"], len(d["b"]), len(d["c"]))
