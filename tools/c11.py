"""C11 - solver answers do not depend on output schedule or on the object's
past use.

Parts of the check
  A. proof step: Props/C11.v (propagator memo over an abstract evolution
     groupoid; Runge-Kutta object bookkeeping).
  B. correspondence (K) for qutip.solver.propagator.Propagator: the real class
     is driven through a real SESolver whose integrator is an exact integer
     flow in the Heisenberg group (tools/c11.py::ExactFlow); random query
     histories; after every query the answer, the memo (times, props), the live
     integrator position and the solver.step calls are compared exactly with
     Model/C11.v evaluated by vm_compute.  The model of the source
     (old_rule = false) has to agree on every case; the rules as they were
     before the fix commits (old_rule = true) are evaluated too, only to name a
     regression to a former defect.
  C. correspondence for Explicit_RungeKutta (set_initial_value / integrate
     window bookkeeping) against Model/C11_rk.v.
  D. implementation-level oracle, always run: (i) every Propagator answer
     against the exact evolution; (ii) fresh-object vs reused-object
     comparisons (bitwise) for sesolve / mesolve integrators over reuse
     patterns; (iii) StochasticSolver.run_from_experiment history.
"""
import json
import os
import random

import numpy as np

import vlib
from vlib import cz, cnat, cbool, clist, copt

HEADER = ("From Coq Require Import List ZArith Bool QArith.\nImport ListNotations.\n"
          "From QV Require Import Model.C11.\nOpen Scope Z_scope.\n")

SITE_BACK = "propagator.Propagator._compute:backward-branch"


# ------------------------------------------------------------ exact flow
def hmul(x, y):
    return (x[0] + y[0], x[1] + y[1], x[2] + y[2] + x[0] * y[1])


def hinv(x):
    return (-x[0], -x[1], x[0] * x[1] - x[2])


def hflow(cte, k, t):
    return (2 * t, t, t * t) if cte else (k * t, t * t, t * t * t)


def hU(cte, k, t, s):
    return hmul(hflow(cte, k, t), hinv(hflow(cte, k, s)))


def hmat(x):
    return np.array([[1, x[0], x[2]], [0, 1, x[1]], [0, 0, 1]], dtype=complex)


def decode(M):
    """3x3 complex matrix -> Heisenberg triple, or a tagged dump when it is
    not exactly of that form."""
    M = np.asarray(M)
    x = (M[0, 1], M[1, 2], M[0, 2])
    if all(v.imag == 0 and float(v.real).is_integer() for v in x):
        tr = tuple(int(v.real) for v in x)
        if M.shape == (3, 3) and np.array_equal(M, hmat(tr)):
            return tr
    return ("M", [repr(complex(v)) for v in M.ravel()])


_FLOW = {}


def flow_classes():
    """The exact-flow integrator, registered once on SESolver."""
    if _FLOW:
        return _FLOW
    import qutip.core.data as _data
    from qutip.solver.integrator.integrator import Integrator
    from qutip.solver.sesolve import SESolver

    class ExactFlow(Integrator):
        integrator_options = {}
        support_time_dependant = True
        supports_blackbox = False
        method = "exactflow"
        log = []
        ev = []

        def _prepare(self):
            self.name = "exactflow"

        def _k(self):
            # read the current args through the real QobjEvo: rhs = -1j*k*N
            return int(round((self.system(0).full()[0, 1] * 1j).real))

        def set_state(self, t, state0):
            ExactFlow.ev.append("set")
            self._t = t
            self._y = _data.to(_data.Dense, state0).copy()
            self._is_set = True

        def get_state(self, copy=True):
            # like the in-place real integrators (lsoda, vern7/9 on Dense): with
            # copy=False the caller gets the working buffer itself
            return self._t, (self._y.copy() if copy else self._y)

        def integrate(self, t, copy=True):
            ExactFlow.log.append((int(self._t), int(t)))
            ExactFlow.ev.append("int")
            cte = self.system.isconstant
            k = 0 if cte else self._k()
            F = hmat(hU(cte, k, int(t), int(self._t)))
            buf = self._y.as_ndarray()
            buf[...] = F @ buf                      # the state buffer is REUSED in place
            self._t = t
            return self.get_state(copy)

        @property
        def options(self):
            """exact flow: no options"""
            return self._options

        @options.setter
        def options(self, new):
            Integrator.options.fset(self, new)

    SESolver.add_integrator(ExactFlow, "exactflow")
    _FLOW["cls"] = ExactFlow
    return _FLOW


def mk_flow_solver(cte, k0):
    from qutip import Qobj, QobjEvo
    from qutip.solver.sesolve import SESolver
    flow_classes()
    N = Qobj(np.array([[0, 1, 0], [0, 0, 0], [0, 0, 0]], dtype=complex))
    H = N if cte else QobjEvo([[N, _coeff_k]], args={"k": k0})
    return SESolver(H, options={"method": "exactflow"})


def _coeff_k(t, k):
    return k


def run_prop_impl(case):
    """Drive the real Propagator; return the list of observations."""
    from qutip.solver.propagator import Propagator
    F = flow_classes()["cls"]
    solver = mk_flow_solver(case["cte"], case["k0"])
    P = Propagator(solver, memoize=case["memoize"], tol=case["tol"])
    out = []
    info = []
    alias = []
    sizes = []
    case["_alias"] = alias
    case["_sizes"] = sizes
    aops = []
    case["_aops"] = aops
    for (t, ts, k) in case["qs"]:
        F.log = []
        F.ev = []
        n_before = len(P.props)
        args_before = P.args
        calls = []
        orig = P._compute

        def spy(tt, idx, _o=orig, _c=calls):
            _c.append((int(tt), int(idx)))
            return _o(tt, idx)
        P._compute = spy
        try:
            if k is None:
                U = P(t, ts)
            else:
                U = P(t, ts, k=k)
        except Exception as e:          # canonicalised error
            out.append(("error", type(e).__name__))
            break
        finally:
            del P._compute
        # the same query as operations of the object-identity model
        q = []
        if P.args != args_before and not P.cte:
            q += ["AEvict 0"] * n_before + ["ANew 0 true", "AStart None 0"]
            n_mem, evs = 1, list(F.ev)[1:]
        else:
            n_mem, evs = n_before, list(F.ev)
        for (_tt, idx) in calls:
            if idx == 0:                       # backward branch
                body, evs = ["AStart None 0", "AStep (Z.add 1) false"], evs[2:]
                tail, evs = ["AStart None 0"], evs[1:]
                ins = "ANew 0 true"
            else:
                body = []
                if evs and evs[0] == "set":
                    body.append("AStart None 0")
                    evs = evs[1:]
                evs = evs[1:]
                ins, tail = "AStep (Z.add 1) true", []
            if n_mem >= P.memoize:
                q.append("AEvict 0")
                n_mem -= 1
            q += body + [ins] + tail
            n_mem += 1
        aops.append(q)
        buf = P.solver._integrator._y.as_ndarray()
        shared = [i for i, p in enumerate(P.props)
                  if type(p.data).__name__ == "Dense" and np.shares_memory(p.data.as_ndarray(), buf)]
        if type(U.data).__name__ == "Dense" and np.shares_memory(U.data.as_ndarray(), buf):
            shared.append("answer")
        if shared:
            alias.append((len(out), shared))
        sizes.append((len(P.props), len([x for x in shared if x != "answer"])))
        tl, yl = P.solver._integrator.get_state()
        out.append((decode(U.full()),
                    [int(x) if float(x).is_integer() else repr(x) for x in P.times],
                    [decode(p.full()) for p in P.props],
                    (int(tl), decode(yl.to_array())),
                    list(F.log)))
        info.append(calls)
    return out, info


def prop_oracle(case, obs):
    """The property itself on an implementation trace: answer k must be the
    exact evolution U(args_k; t', ts') for some t', ts' within tol."""
    cte, tol = case["cte"], case["tol"]
    cur = case["k0"]
    bad = []
    for n, ((t, ts, k), o) in enumerate(zip(case["qs"], obs)):
        if k is not None:
            cur = k
        if o[0] == "error":
            bad.append((n, "query raised %s" % o[1]))
            break
        ok = False
        for d1 in range(-tol, tol + 1):
            for d2 in range(-tol, tol + 1):
                if o[0] == hU(cte, cur, t + d1, ts + d2):
                    ok = True
        if not ok:
            bad.append((n, "P(%d,%d) = %r, exact evolution is %r" % (
                t, ts, o[0], hU(cte, cur, t, ts))))
    return bad


def coq_queries(qs):
    return clist(qs, lambda q: "(%s, %s, %s)" % (cz(q[0]), cz(q[1]), copt(q[2], cz)))


def coq_observe(case, old_rule):
    return "observe %s %s %s %s %s %s" % (
        cbool(old_rule), cbool(case["cte"]), cz(case["tol"]), cnat(case["memoize"]),
        cz(case["k0"]), coq_queries(case["qs"]))


def canon_model_obs(v):
    res = []
    for o in v:
        a, b, c, times, props, live, steps = o     # Coq prints nested pairs flat
        ans = (a, b, c)
        res.append((tuple(ans), list(times), [tuple(p) for p in props],
                    (live[0], tuple(live[1])), [tuple(s) for s in steps]))
    return res


def canon_impl_obs(obs):
    res = []
    for o in obs:
        if o[0] == "error":
            res.append(o)
        else:
            res.append((o[0], o[1], o[2], o[3], [tuple(s) for s in o[4]]))
    return res


def gen_prop_case(rng):
    style = rng.choice(["forward", "forward", "mixed", "mixed", "negative"])
    cte = rng.random() < 0.35
    tol = rng.choice([0, 0, 0, 0, 1, 2])
    memo = rng.choice([1, 3, 3, 4, 5, 6, 10])
    n = rng.choice([1, 2, 3, 5, 8, 12, 16])
    lo, hi = {"forward": (0, 12), "mixed": (-5, 10), "negative": (-9, 3)}[style]
    qs = []
    for _ in range(n):
        t = rng.randint(lo, hi)
        r = rng.random()
        if r < 0.55:
            ts = 0
        elif r < 0.65:
            ts = t
        else:
            ts = rng.randint(lo, hi)
        if style == "forward" and cte and ts > t:
            t, ts = ts, t
        k = None
        if rng.random() < 0.15:
            k = rng.choice([1, 2, 3])
        qs.append([t, ts, k])
    return {"cte": cte, "tol": tol, "memoize": memo, "k0": rng.choice([1, 1, 2]),
            "qs": qs, "style": style}


WITNESSES = [
    # (signature, case) - the witnesses of the Coq refutation theorems
    ("witness:backward-then-forward",
     {"cte": False, "tol": 0, "memoize": 10, "k0": 1,
      "qs": [[-1, 0, None], [1, 0, None]], "style": "witness"}),
    ("witness:backward-twice",
     {"cte": False, "tol": 0, "memoize": 10, "k0": 1,
      "qs": [[-1, 0, None], [-2, 0, None]], "style": "witness"}),
    ("witness:backward-twice",
     {"cte": True, "tol": 0, "memoize": 10, "k0": 1,
      "qs": [[-1, 0, None], [-2, 0, None]], "style": "witness"}),
]


def propagator_part(ctx, rng):
    ncases = 260 if ctx.quick else 2600
    cases = [w[1] for w in WITNESSES]
    cdir = os.path.join(vlib.VERIF, "corpus", "C11")
    if os.path.isdir(cdir):
        for f in sorted(os.listdir(cdir)):
            c = json.load(open(os.path.join(cdir, f)))
            if c.get("kind", "propagator") == "propagator":
                cases.append(c["case"] if "case" in c else c)
    while len(cases) < ncases:
        cases.append(gen_prop_case(rng))
    impl = []
    infos = []
    dist = {"style": {}, "cte": {}, "tol": {}, "memoize": {}, "len": {}}
    aliases, asizes, aopss = [], [], []
    for c in cases:
        o, info = run_prop_impl(c)
        aliases.append(c.pop("_alias", []))
        asizes.append(c.pop("_sizes", []))
        aopss.append(c.pop("_aops", []))
        impl.append(canon_impl_obs(o))
        infos.append(info)
        for key, val in (("style", c["style"]), ("cte", c["cte"]), ("tol", c["tol"]),
                         ("memoize", c["memoize"]), ("len", len(c["qs"]))):
            dist[key][str(val)] = dist[key].get(str(val), 0) + 1
    ctx.cov.setdefault("input_distribution", {})["propagator"] = dist
    exprs = [coq_observe(c, False) for c in cases] + [coq_observe(c, True) for c in cases]
    try:
        vals = vlib.coq_eval_values("cases_C11p", HEADER, exprs, chunk=200)
    except RuntimeError as e:
        ctx.violation("corr:C11:model-eval", "coqc", "model evaluation failed",
                      {"log": str(e)}, found_input=False)
        return
    n = len(cases)
    agree = {"source_only": 0, "old_rule_only": 0, "both": 0, "none": 0}
    # report disagreements that come with a wrong answer first
    order = sorted(range(n), key=lambda i: 0 if prop_oracle(cases[i], impl[i]) else 1)
    for i in order:
        c = cases[i]
        msrc = canon_model_obs(vlib.parse_coq_value(vals[i]))       # the source as it is
        mold = canon_model_obs(vlib.parse_coq_value(vals[n + i]))   # rule before 3b5adfb
        im = impl[i]
        a_src, a_old = (im == msrc), (im == mold)
        key = ("both" if a_src and a_old else "source_only" if a_src else
               "old_rule_only" if a_old else "none")
        agree[key] += 1
        ctx.count_case(("prop", json.dumps(c, sort_keys=True)),
                       nontrivial=len(c["qs"]) >= 2)
        ctx.cov["traces_validated_against_impl"] += 1
        bad = prop_oracle(c, im)
        al = aliases[i]
        if al:
            # invariant: no memo entry (and no answer) is the integrator's working object
            ctx.violation("propagator.Propagator:aliasing", "memo-entry-shares-integrator-buffer",
                          "after query %d memo entries %r share memory with the integrator's "
                          "state buffer: a later step overwrites them" % (al[0][0], al[0][1]),
                          {"kind": "propagator", "case": c, "aliased": al[:3]})
        if a_src and not bad:
            continue
        first = next((j for j in range(min(len(im), len(msrc)))
                      if im[j] != msrc[j]), min(len(im), len(msrc)))
        detail = {"kind": "propagator", "case": c, "first_differing_query": first,
                  "impl": im[first:first + 1], "model_source": msrc[first:first + 1],
                  "wrong": bad[:3]}
        if a_old and not a_src and bad:
            # regression to the backward branch as it was before commit 3b5adfb
            nq = bad[0][0]
            back_now = any(idx == 0 for (_, idx) in infos[i][nq]) if nq < len(infos[i]) else False
            sig = "witness:backward-twice" if back_now else "witness:backward-then-forward"
            ctx.violation(SITE_BACK, sig,
                          "Propagator answer depends on earlier backward queries: " + bad[0][1],
                          detail)
        elif not a_src:
            ctx.violation(
                "corr:propagator.Propagator",
                bad[0][1].split("=")[0] if bad else "model-differs",
                "Propagator and its model disagree on a query history"
                + ("; implementation violates the property: " + bad[0][1] if bad else ""),
                detail, found_input=bool(bad))
        else:
            # agrees with the model but the answer is wrong: contradicts
            # C11_propagator_answers, i.e. the harness / flow is inconsistent
            ctx.violation("propagator.Propagator", "wrong-answer-with-model-agreement",
                          bad[0][1], detail)
    ctx.cov["propagator_agreement"] = agree
    # object-identity model (Model/C11_alias.v): memo size and entries shared
    # with the integrator buffer after every query
    AH = ("From Coq Require Import List ZArith Bool.\nImport ListNotations.\n"
          "From QV Require Import Model.C11_alias.\nOpen Scope Z_scope.\n")
    aex, where = [], []
    for i, (qops, sz) in enumerate(zip(aopss, asizes)):
        if len(qops) != len(sz) or not sz or impl[i] and impl[i][-1][0] == "error":
            continue
        acc = []
        for qi, q in enumerate(qops):
            acc = acc + q
            if qi == len(qops) - 1 or qi == len(qops) // 2:
                aex.append("let s := a_run Z 0 true (a_init Z 0) %s in "
                           "(length (a_memo s), length (filter (fun b => b) (a_shared Z s)))"
                           % clist(acc))
                where.append((i, qi))
    try:
        avals = vlib.coq_eval_values("cases_C11a", AH, aex, chunk=300)
    except RuntimeError as e:
        ctx.violation("corr:C11:alias-model-eval", "coqc", "model evaluation failed",
                      {"log": str(e)}, found_input=False)
        avals = []
    a_ok = 0
    for (i, qi), v in zip(where, avals):
        mv = tuple(vlib.parse_coq_value(v))
        if mv == tuple(asizes[i][qi]):
            a_ok += 1
        else:
            ctx.violation("corr:propagator.Propagator:aliasing", "model-differs",
                          "memo size / entries shared with the integrator buffer differ from the "
                          "object model after query %d: implementation %r, model %r" % (
                              qi, asizes[i][qi], mv),
                          {"kind": "propagator", "case": cases[i]},
                          found_input=asizes[i][qi][1] > 0)
    ctx.cov["propagator_alias_model_agreement"] = {"checked": len(where), "agree": a_ok}
    ctx.sample({"propagator_case": cases[-1], "impl_observations": impl[-1][:2]})
    return agree


# ------------------------------------------- real solvers: fresh vs reused
SITE_RK = "explicit_rk.Explicit_RungeKutta.set_initial_value:k-buffers"
SITE_KRY = "krylov.IntegratorKrylov.set_state:_is_set"
SITE_NODENSE = "explicit_rk.Explicit_RungeKutta.integrate:no-dense-output"
SITE_SDT = "stochastic.StochasticSolver.run_from_experiment:dt"

SE_METHODS = ["adams", "bdf", "dop853", "lsoda", "vern7", "vern9", "diag", "krylov"]
ME_METHODS = ["adams", "bdf", "dop853", "lsoda", "vern7", "vern9", "diag"]


def _coeff_w(t, w):
    return np.cos(w * t)


def sys_matrices(n, hseed):
    """integer-valued Hermitian H0, H1 and a collapse operator"""
    r = random.Random(hseed)
    A = np.array([[r.randint(-2, 2) for _ in range(n)] for _ in range(n)], dtype=complex)
    B = np.array([[r.randint(-1, 1) * (1j if r.random() < 0.3 else 1) for _ in range(n)]
                  for _ in range(n)], dtype=complex)
    H0 = A + A.conj().T + np.diag(np.arange(n))
    H1 = B + B.conj().T
    C = np.diag(np.ones(n - 1), 1) / 2.0          # dyadic lowering operator
    return H0, H1, C


def mk_solver(spec, w=1):
    from qutip import Qobj, QobjEvo
    from qutip.solver.sesolve import SESolver
    from qutip.solver.mesolve import MESolver
    n = spec["n"]
    H0, H1, C = sys_matrices(n, spec["hseed"])
    H = Qobj(H0)
    if spec["td"]:
        H = QobjEvo([Qobj(H0), [Qobj(H1), _coeff_w]], args={"w": w})
    opt = {"method": spec["method"]}
    opt.update(spec.get("options", {}))
    if spec["kind"] == "se":
        return SESolver(H, options=opt)
    return MESolver(H, c_ops=[Qobj(C)], options=opt)


def mk_state(spec, code):
    """code: ('ket', i) | ('sup', i, j) | ('oper',)"""
    from qutip import basis, qeye, to_super
    n = spec["n"]
    if code[0] == "ket":
        return basis(n, code[1] % n)
    if code[0] == "sup":
        return (basis(n, code[1] % n) + 1j * basis(n, code[2] % n)).unit() \
            if code[1] % n != code[2] % n else basis(n, code[1] % n)
    if spec["kind"] == "se":
        return qeye(n)
    return to_super(qeye(n))


def tl_of(code):
    """code (start/8, step/8, count) -> dyadic time list"""
    a, d, c = code
    return [a / 8.0 + d / 8.0 * i for i in range(c)]


def apply_prior(spec, solver, op, others):
    """One earlier use of the solver object."""
    kind = op[0]
    if kind == "run":            # other state / other range
        solver.run(mk_state(spec, op[1]), tl_of(op[2]))
    elif kind == "run_shape":    # state of another shape
        solver.run(mk_state(spec, ("oper",)), tl_of(op[1]))
    elif kind == "steps":        # start / step use
        tl = tl_of(op[2])
        solver.start(mk_state(spec, op[1]), tl[0])
        for t in tl[1:]:
            solver.step(t)
    elif kind == "run_args":     # run under other arguments
        solver.run(mk_state(spec, op[1]), tl_of(op[2]), args={"w": op[3]})
    elif kind == "opt_toggle":   # change an option and change it back
        old = solver.options[op[1]]
        solver.options[op[1]] = op[2]
        solver.options[op[1]] = old
    elif kind == "other_object":  # another solver object used in between
        o = mk_solver(spec)
        o.run(mk_state(spec, op[1]), tl_of(op[2]))
        others.append(o)
    else:
        raise ValueError(kind)


def probe(spec, solver, pr, interleave=None):
    """The observed computation: returns list of state matrices."""
    psi = mk_state(spec, pr["state"])
    tl = tl_of(pr["tl"])
    kw = {"args": {"w": pr["w"]}} if (spec["td"] and pr.get("w") is not None) else {}
    if pr["mode"] == "run":
        return [x.full() for x in solver.run(psi, tl, **kw).states]
    # start / step, optionally with another object stepped in between
    if kw:
        solver._argument(kw["args"])
    solver.start(psi, tl[0])
    out = [None]
    other = None
    if interleave is not None:
        other = mk_solver(spec)
        other.start(mk_state(spec, interleave), 0.0)
    for i, t in enumerate(tl[1:]):
        if other is not None:
            other.step(0.125 * (i + 1))
        out.append(solver.step(t).full())
    return out


def same_states(a, b):
    """bitwise comparison (entries may be None = not compared)"""
    worst = 0.0
    bit = len(a) == len(b)
    for x, y in zip(a, b):
        if x is None or y is None:
            continue
        if x.shape != y.shape:
            return False, float("inf")
        if not np.array_equal(x, y):
            bit = False
            worst = max(worst, float(np.abs(x - y).max()))
    return bit, worst


def classify_reuse(spec, history, pr, err=None, worst=None):
    """stable (site, signature)"""
    m = spec["method"]
    kinds = [h[0] for h in history]
    if err is not None:
        et, msg = err
        if (m in ("vern7", "vern9") and "run_shape" in kinds and et == "ValueError"
                and "incompatible matrix shapes" in msg):
            return SITE_RK, "reuse-with-other-state-shape-raises"
        if (m == "krylov" and et == "RuntimeError" and "start" in msg
                and (pr["mode"] == "steps" or "steps" in kinds)):
            return SITE_KRY, "start-then-step-raises"
        return "solver-history:" + m, "%s|%s|raises:%s" % ("+".join(kinds) or "none", pr["mode"], et)
    sev = "beyond-tolerance" if worst > 1e-5 else "bitwise-only"
    return "solver-history:" + m, "%s|%s|%s" % ("+".join(kinds) or "none", pr["mode"], sev)


def run_reuse_case(spec, history, pr, interleave=None):
    """returns None when the reused object answers exactly like a fresh one,
    else (site, signature, what)"""
    # Solver.run(args=...) changes the arguments for good: the problem a later
    # call without args refers to is the one with the last arguments given
    cur_w = 1
    for op in history:
        if op[0] == "run_args":
            cur_w = op[3]
    try:
        ref_solver = mk_solver(spec, w=pr.get("w") if pr.get("w") is not None else cur_w)
        ref = [x.full() for x in ref_solver.run(mk_state(spec, pr["state"]), tl_of(pr["tl"])).states]
    except Exception as e:
        return ("skip", "fresh solver cannot do the probe: %s" % type(e).__name__, None)
    others = []
    solver = mk_solver(spec)
    try:
        for op in history:
            try:
                apply_prior(spec, solver, op, others)
            except Exception as e:
                # is the earlier use itself legal on a fresh object?
                try:
                    apply_prior(spec, mk_solver(spec), op, [])
                except Exception:
                    return ("skip", "prior use unsupported: %s" % op[0], None)
                raise
        got = probe(spec, solver, pr, interleave)
    except Exception as e:
        site, sig = classify_reuse(spec, history, pr, err=(type(e).__name__, str(e)))
        return (site, sig, "reused %s/%s solver raises %s: %s (a fresh one does not)" % (
            spec["kind"], spec["method"], type(e).__name__, str(e)[:80]))
    bit, worst = same_states(got, ref)
    if bit:
        return None
    site, sig = classify_reuse(spec, history, pr, worst=worst)
    return (site, sig, "reused %s/%s solver differs from a fresh one by %.3g after history %s" % (
        spec["kind"], spec["method"], worst, [h[0] for h in history]))


def gen_reuse_case(rng, spec):
    def st():
        return rng.choice([("ket", rng.randint(0, 4)), ("sup", rng.randint(0, 4), rng.randint(0, 4))])

    def tl():
        return (rng.choice([0, 0, 2, 4, -4]), rng.choice([1, 2, 4]), rng.randint(2, 5))
    ops = []
    for _ in range(rng.choice([1, 1, 2, 3])):
        k = rng.choice(["run", "run", "run_shape", "steps", "run_args", "opt_toggle", "other_object"])
        if k == "run":
            ops.append(("run", st(), tl()))
        elif k == "run_shape":
            if spec["method"] == "krylov":
                continue
            ops.append(("run_shape", tl()))
        elif k == "steps":
            ops.append(("steps", st(), tl()))
        elif k == "run_args":
            if spec["td"]:
                ops.append(("run_args", st(), tl(), rng.choice([2, 3])))
        elif k == "opt_toggle":
            if spec["method"] not in ("diag", "krylov"):
                ops.append(("opt_toggle", "atol", rng.choice([1e-10, 1e-6])))
        else:
            ops.append(("other_object", st(), tl()))
    pr = {"state": st(), "tl": tl(), "mode": rng.choice(["run", "run", "steps"]),
          "w": rng.choice([None, 1, 2]) if spec["td"] else None}
    inter = st() if (pr["mode"] == "steps" and rng.random() < 0.5) else None
    return ops, pr, inter


FIXED_HISTORIES = [
    ([("run", ("ket", 0), (0, 2, 5))], "run"),
    ([("run_shape", (0, 2, 3))], "run"),
    ([("run", ("ket", 0), (0, 2, 5))], "steps"),
    ([("steps", ("ket", 1), (0, 1, 4))], "run"),
    ([("opt_toggle", "atol", 1e-10)], "run"),
    ([("run_args", ("ket", 0), (0, 2, 4), 3)], "run"),
    ([("other_object", ("ket", 1), (0, 2, 4))], "steps"),
]


def solver_reuse_part(ctx, rng):
    specs = []
    for kind, methods in (("se", SE_METHODS), ("me", ME_METHODS)):
        for m in methods:
            for td in (False, True):
                if td and m in ("diag", "krylov"):
                    continue
                specs.append({"kind": kind, "method": m, "td": td, "n": 3, "hseed": 1})
    if not ctx.quick:
        for kind, methods in (("se", SE_METHODS), ("me", ME_METHODS)):
            for m in methods:
                for n, hs in ((2, 2), (4, 3), (5, 4)):
                    if kind == "me" and n == 5:
                        continue
                    specs.append({"kind": kind, "method": m,
                                  "td": m not in ("diag", "krylov") and hs % 2 == 0,
                                  "n": n, "hseed": hs})
    nrand = 3 if ctx.quick else 12
    stats = {"cases": 0, "skipped": 0, "identical": 0, "violations": 0}
    dist = {}
    for spec in specs:
        todo = []
        for ops, mode in FIXED_HISTORIES:
            if any(o[0] == "run_args" for o in ops) and not spec["td"]:
                continue
            if any(o[0] == "opt_toggle" for o in ops) and spec["method"] in ("diag", "krylov"):
                continue
            if any(o[0] == "run_shape" for o in ops) and spec["method"] == "krylov":
                continue
            pr = {"state": ("sup", 1, 2), "tl": (4, 2, 5), "mode": mode, "w": None}
            todo.append((list(ops), pr, ("ket", 0) if mode == "steps" and ops[0][0] == "other_object" else None))
        for _ in range(nrand):
            todo.append(gen_reuse_case(rng, spec))
        for ops, pr, inter in todo:
            if not ops and inter is None and pr["mode"] == "run":
                continue
            r = run_reuse_case(spec, ops, pr, inter)
            stats["cases"] += 1
            key = "%s/%s" % (spec["kind"], spec["method"])
            dist[key] = dist.get(key, 0) + 1
            ctx.count_case(("reuse", json.dumps([spec, ops, pr, inter], default=str)),
                           nontrivial=True)
            if r is None:
                stats["identical"] += 1
            elif r[0] == "skip":
                stats["skipped"] += 1
            else:
                stats["violations"] += 1
                ctx.violation(r[0], r[1], r[2],
                              {"kind": "reuse", "spec": spec, "history": ops, "probe": pr,
                               "interleave": inter})
    ctx.cov["solver_reuse"] = stats
    ctx.cov.setdefault("input_distribution", {})["solver_reuse"] = dist
    ctx.sample({"reuse_spec": specs[-1], "history": todo[-1][0], "probe": todo[-1][1]})


# ------------- interleaved start / step(args) / run(args) / options / e_ops
def il_exec(spec, solver, ops):
    """Execute a history on one solver object; returns the answer of the last
    op (list of matrices)."""
    from qutip import num
    out = None
    for op in ops:
        kw = {"args": {"w": op[-1]}} if op[-1] is not None else {}
        if op[0] == "start":
            solver.start(mk_state(spec, op[1]), op[2] / 8.0)
            out = None
        elif op[0] == "step":
            out = [solver.step(op[1] / 8.0, **kw).full()]
        elif op[0] == "run":
            tl = tl_of(op[2])
            e_ops = [num(spec["n"])] * op[3] if op[3] else None
            r = solver.run(mk_state(spec, op[1]), tl, e_ops=e_ops, **kw)
            out = ([np.array(r.expect)] if op[3] else []) + \
                  [x.full() for x in (r.states or [])]
        elif op[0] == "opt":
            old = solver.options[op[1]]
            solver.options[op[1]] = op[2]
            solver.options[op[1]] = old
    return out


def il_reference_suffix(ops, w0=1):
    """The part of the history that determines the last answer (from the last
    start / run on), and the arguments in force when it begins."""
    w, j, wj = w0, 0, w0
    for i, op in enumerate(ops):
        if op[0] in ("start", "run"):
            j, wj = i, w
        if op[0] in ("step", "run") and op[-1] is not None:
            w = op[-1]
    return ops[j:], wj


def gen_il_history(rng):
    def st():
        return rng.choice([("ket", rng.randint(0, 4)), ("sup", rng.randint(0, 4), rng.randint(0, 4))])

    def w():
        return rng.choice([None, None, 1, 2, 3])
    ops, t, started = [], 0, False
    for _ in range(rng.choice([3, 4, 6, 8])):
        r = rng.random()
        if r < 0.2 or not started:
            if rng.random() < 0.5:
                t = rng.randint(-4, 4)
                ops.append(("start", st(), t, None))
            else:
                a, d, c = rng.randint(-4, 4), rng.choice([1, 2]), rng.randint(2, 4)
                ops.append(("run", st(), (a, d, c), rng.choice([0, 0, 1, 2]), w()))
                t = a + d * (c - 1)
            started = True
        elif r < 0.75:
            t += rng.choice([1, 2, 4])
            ops.append(("step", t, w()))
        elif r < 0.9:
            a, d, c = rng.randint(-4, 4), rng.choice([1, 2]), rng.randint(2, 4)
            ops.append(("run", st(), (a, d, c), rng.choice([0, 0, 1, 2]), w()))
            t = a + d * (c - 1)
        else:
            ops.append(("opt", "atol", rng.choice([1e-10, 1e-6]), None))
    if ops[-1][0] in ("opt", "start"):
        t += 2
        ops.append(("step", t, w()))
    return ops


IL_FIXED = [
    # start; step(args=A); run(args=B); step(args=A) continuing from the run
    [("start", ("ket", 0), 0, None), ("step", 2, 2), ("run", ("ket", 1), (0, 2, 3), 0, 3),
     ("step", 6, 2)],
    [("run", ("ket", 0), (0, 2, 3), 0, 2), ("step", 6, 3), ("step", 8, 3), ("step", 10, 2)],
    [("start", ("sup", 1, 2), 0, None), ("step", 2, 2), ("start", ("ket", 1), 0, None),
     ("step", 2, 2)],
    [("run", ("ket", 0), (0, 2, 3), 1, 2), ("run", ("ket", 1), (0, 2, 3), 2, None), ("step", 6, 2)],
]


def interleave_part(ctx, rng):
    """One solver object used through interleaved start / step(t, args) /
    run(..., args, e_ops) / option changes; the last answer must be the one a
    new solver gives for the part of the history that determines it."""
    specs = []
    for kind, methods in (("se", SE_METHODS), ("me", ME_METHODS)):
        for m in methods:
            if m in ("diag", "krylov"):
                continue
            specs.append({"kind": kind, "method": m, "td": True, "n": 3, "hseed": 1})
    nrand = 3 if ctx.quick else 20
    stats = {"cases": 0, "identical": 0, "skipped": 0, "violations": 0}
    for spec in specs:
        hists = [list(h) for h in IL_FIXED] + [gen_il_history(rng) for _ in range(nrand)]
        for ops in hists:
            stats["cases"] += 1
            ctx.count_case(("interleave", json.dumps([spec, ops], default=str)), nontrivial=True)
            suffix, wj = il_reference_suffix(ops)
            try:
                ref = il_exec(spec, mk_solver(spec, w=wj), suffix)
            except Exception:
                stats["skipped"] += 1
                continue
            try:
                got = il_exec(spec, mk_solver(spec, w=1), ops)
            except Exception as e:
                stats["violations"] += 1
                ctx.violation("solver-history:" + spec["method"],
                              "interleaved|raises:" + type(e).__name__,
                              "interleaved start/step/run history raises %s on %s/%s although a "
                              "new solver answers its last part" % (
                                  type(e).__name__, spec["kind"], spec["method"]),
                              {"kind": "interleave", "spec": spec, "ops": ops})
                continue
            bit, worst = same_states(got, ref)
            if bit:
                stats["identical"] += 1
                continue
            stats["violations"] += 1
            sev = "beyond-tolerance" if worst > 1e-5 else "bitwise-only"
            last = ops[-1][0] + ("-args" if ops[-1][-1] is not None else "")
            ctx.violation("solver-history:" + spec["method"], "interleaved|%s|%s" % (last, sev),
                          "%s/%s solver: the answer of the last call of an interleaved "
                          "start/step(args)/run(args) history differs by %.3g from a new solver "
                          "given the same arguments: %s" % (
                              spec["kind"], spec["method"], worst,
                              [(o[0], o[-1]) for o in ops]),
                          {"kind": "interleave", "spec": spec, "ops": ops})
    ctx.cov["interleaved_histories"] = stats
    ctx.sample({"interleaved_history": [list(map(str, o)) for o in IL_FIXED[0]]})


# ------------------------------ assignment of whole option dictionaries
SITE_OPT = "solver_base.Solver.options:setter"
OPT_METHODS = ["adams", "bdf", "dop853", "lsoda", "vern7", "vern9"]


def opt_effective(eff, d):
    """Documented meaning of `solver.options = d`: keys given replace the
    current ones; when the method changes, the old integrator's options are
    dropped and the new integrator starts from its defaults plus d."""
    m_new = d.get("method", eff["method"])
    if m_new != eff["method"]:
        return dict({"method": m_new}, **{k: v for k, v in d.items() if k != "method"})
    out = dict(eff)
    out.update(d)
    return out


def run_options_case(case):
    """returns None or (signature, what)"""
    spec = {"kind": case["kind"], "method": case["init"]["method"], "td": case["td"],
            "n": 3, "hseed": 1, "options": {k: v for k, v in case["init"].items() if k != "method"}}
    solver = mk_solver(spec)
    eff = dict(case["init"])
    psi, tl = mk_state(spec, ("sup", 1, 2)), tl_of((0, 2, 4))
    equal_old = False
    for d, run_between in case["assign"]:
        if d.get("method", eff["method"]) != eff["method"] and any(
                k != "method" and k in solver.options and solver.options[k] == v
                for k, v in d.items()):
            equal_old = True     # a value equal to the old integrator's current one
        solver.options = dict(d)
        eff = opt_effective(eff, d)
        if run_between:
            solver.run(mk_state(spec, ("ket", 0)), tl_of((0, 1, 3)))
    wrong = [(k, solver.options[k], v) for k, v in eff.items() if solver.options[k] != v]
    fspec = dict(spec, method=eff["method"], options={k: v for k, v in eff.items() if k != "method"})
    ref = [x.full() for x in mk_solver(fspec).run(psi, tl).states]
    got = [x.full() for x in solver.run(psi, tl).states]
    bit, worst = same_states(got, ref)
    if not wrong and bit:
        return None
    changed = True
    if wrong and changed and equal_old and all(
            solver.options[k] != v and k != "method" for k, _, v in wrong):
        sig = "method-change-drops-options-equal-to-old-values"
    else:
        sig = "options-dict|%s|%s" % ("wrong-values" if wrong else "values-ok",
                                      "bitwise" if bit else "result-differs")
    return (sig, "after assigning %s to a %s/%s solver built with %s the options are %s "
                 "(expected %s) and the run differs from a new solver by %.3g" % (
                     [d for d, _ in case["assign"]], case["kind"], case["init"]["method"],
                     case["init"], {k: g for k, g, _ in wrong}, {k: v for k, _, v in wrong}, worst))


def gen_options_case(rng):
    vals = {"atol": [1e-10, 1e-9, 1e-8], "rtol": [1e-8, 1e-6], "nsteps": [2500, 5000, 1000]}
    init = {"method": rng.choice(OPT_METHODS)}
    for k in rng.sample(sorted(vals), rng.randint(0, 2)):
        init[k] = rng.choice(vals[k])
    assign, cur = [], dict(init)
    for _ in range(rng.choice([1, 1, 2, 3])):
        d = {}
        if rng.random() < 0.6:
            d["method"] = rng.choice(OPT_METHODS)
        for k in rng.sample(sorted(vals), rng.randint(0, 2)):
            # equal to the current value half of the time
            d[k] = cur[k] if (k in cur and rng.random() < 0.5) else rng.choice(vals[k])
        if not d:
            d["atol"] = rng.choice(vals["atol"])
        assign.append((d, rng.random() < 0.3))
        cur = opt_effective(cur, d)
    return {"kind": rng.choice(["se", "me"]), "td": rng.random() < 0.5, "init": init,
            "assign": assign}


def options_assign_part(ctx, rng):
    cases = [
        {"kind": "se", "td": False, "init": {"method": "adams", "atol": 1e-10},
         "assign": [({"method": "vern7", "atol": 1e-10}, False)]},
        {"kind": "me", "td": True, "init": {"method": "bdf", "nsteps": 5000},
         "assign": [({"method": "dop853", "nsteps": 5000, "atol": 1e-9}, True)]},
        {"kind": "se", "td": False, "init": {"method": "adams", "atol": 1e-10},
         "assign": [({"atol": 1e-10, "rtol": 1e-8}, False), ({"method": "adams"}, False)]},
    ]
    n = 24 if ctx.quick else 240
    while len(cases) < n:
        cases.append(gen_options_case(rng))
    stats = {"cases": 0, "ok": 0, "violations": 0}
    for c in cases:
        stats["cases"] += 1
        ctx.count_case(("optdict", json.dumps(c, default=str)), nontrivial=True)
        try:
            r = run_options_case(c)
        except Exception as e:
            r = ("options-dict|raises:" + type(e).__name__, "assigning option dictionaries "
                 "raises %s: %s" % (type(e).__name__, str(e)[:80]))
        if r is None:
            stats["ok"] += 1
        else:
            stats["violations"] += 1
            ctx.violation(SITE_OPT, r[0], r[1], {"kind": "optdict", "case": c})
    ctx.cov["options_dict_histories"] = stats


# ---------------- special earlier states, long spans, larger krylov systems
def jc_system(N, g2):
    """Jaynes-Cummings model (excitation number conserved), coupling g2/2"""
    from qutip import tensor, qeye, destroy
    a = tensor(qeye(2), destroy(N))
    sm = tensor(destroy(2), qeye(N))
    H = a.dag() * a + sm.dag() * sm + (g2 / 2.0) * (a.dag() * sm + a * sm.dag())
    return H, a


def jc_state(N, code):
    """special and generic kets of the 2 x N space"""
    from qutip import tensor, basis, Qobj
    if code == "g0":            # eigenstate: zero-coupling ground state
        return tensor(basis(2, 0), basis(N, 0))
    if code == "e0":            # lives in a 2-dimensional invariant subspace
        return tensor(basis(2, 1), basis(N, 0))
    if code == "block_eig":     # eigenstate inside that block (resonant case)
        return (tensor(basis(2, 1), basis(N, 0)) + tensor(basis(2, 0), basis(N, 1))).unit()
    if code == "e1":            # another small invariant subspace
        return tensor(basis(2, 1), basis(N, 1))
    v = np.zeros((2 * N, 1), dtype=complex)
    m = 7 if code == "generic" else 11
    for i in range(2 * N):
        v[i, 0] = ((i * m) % 5 - 2) + 1j * ((i * 3) % 4 - 1)
    return Qobj(v, dims=[[2, N], [1, 1]]).unit()


def special_solver(case):
    from qutip.solver.sesolve import SESolver
    from qutip.solver.mesolve import MESolver
    H, a = jc_system(case["N"], case["g2"])
    opt = {"method": case["method"], "progress_bar": ""}
    if case["solver"] == "se":
        return SESolver(H, options=opt)
    return MESolver(H, c_ops=[a / 4.0], options=opt)


def special_use(case, solver, code, mode, T, collect):
    psi = jc_state(case["N"], code)
    tl = [T * i / 4.0 for i in range(5)]
    if mode == "run":
        out = [x.full() for x in solver.run(psi, tl).states]
    else:
        solver.start(psi, tl[0])
        out = [None] + [solver.step(t).full() for t in tl[1:]]
    return out if collect else None


def run_special_case(case):
    """reused object (earlier uses with special states) vs a new object"""
    try:
        ref = special_use(case, special_solver(case), case["probe"], "run", case["T"], True)
    except Exception as e:
        return ("skip", type(e).__name__, None)
    s = special_solver(case)
    try:
        for code, mode, T in case["first"]:
            special_use(case, s, code, mode, T, False)
        got = special_use(case, s, case["probe"], case["probe_mode"], case["T"], True)
    except Exception as e:
        return ("solver-history:" + case["method"],
                "special-state|%s|raises:%s" % (case["probe_mode"], type(e).__name__),
                "reused %s/%s solver raises %s after special earlier states: %s" % (
                    case["solver"], case["method"], type(e).__name__, str(e)[:80]))
    bit, worst = same_states(got, ref)
    if bit:
        return None
    if case["method"] == "krylov":
        # validation: the constructor draws a random ket to size the step, so
        # two new objects already differ at the level of the tolerance
        atol = float(s.options["atol"])
        if worst <= 1e3 * atol:
            return ("within", worst, None)
        sev = "beyond-solver-tolerance"
    else:
        sev = "beyond-tolerance" if worst > 1e-5 else "bitwise-only"
    kinds = "+".join("%s:%s" % (c, m) for c, m, _ in case["first"])
    return ("solver-history:" + case["method"],
            "special-state|%s|%s" % (case["probe_mode"], sev),
            "%s/%s solver used before on %s answers the %s state (t <= %g, dim %d) %.3g away "
            "from a new solver" % (case["solver"], case["method"], kinds, case["probe"],
                                   case["T"], 2 * case["N"], worst))


def special_state_part(ctx, rng):
    """Earlier uses with eigenstates / states of small invariant subspaces, then
    generic states over spans long against 1/|H| (and the reverse order, and
    start/step), for every integration method; krylov with krylov_dim < dim."""
    specials = ["g0", "e0", "block_eig", "e1"]
    cases = []
    plan = [("se", m, 10) for m in SE_METHODS] + [("me", m, 3) for m in ME_METHODS]
    plan += [("se", "krylov", 30)]
    if not ctx.quick:
        plan += [("se", "krylov", 50), ("se", "vern7", 30), ("se", "adams", 30),
                 ("me", "vern7", 5), ("me", "adams", 5)]
    for solver, method, N in plan:
        T = 20 if solver == "se" else 8
        base = {"solver": solver, "method": method, "N": N, "g2": 1, "T": T}
        steps_ok = True
        hist = [
            ([("e0", "run", T)], "generic", "run"),
            ([("g0", "run", T)], "generic", "run"),
            ([("generic", "run", T)], "e0", "run"),             # reverse order
            ([("e0", "steps", 1)], "generic", "steps"),         # start / step
            ([("block_eig", "run", 2), ("e1", "run", T)], "generic2", "run"),
        ]
        nr = 1 if ctx.quick else 4
        for _ in range(nr):
            first = [(rng.choice(specials + ["generic"]), rng.choice(["run", "run", "steps"]),
                      rng.choice([1, T])) for _ in range(rng.choice([1, 2]))]
            hist.append((first, rng.choice(["generic", "generic2"] + specials),
                         rng.choice(["run", "steps"])))
        for first, probe, pm in hist:
            c = dict(base)
            c.update({"first": [list(f) for f in first], "probe": probe, "probe_mode": pm})
            cases.append(c)
    stats = {"cases": 0, "identical": 0, "within_tolerance_validation": 0, "skipped": 0,
             "violations": 0, "worst_validation_distance": 0.0}
    for c in cases:
        r = run_special_case(c)
        stats["cases"] += 1
        ctx.count_case(("special", json.dumps(c, sort_keys=True)), nontrivial=True)
        if r is None:
            stats["identical"] += 1
        elif r[0] == "skip":
            stats["skipped"] += 1
        elif r[0] == "within":
            stats["within_tolerance_validation"] += 1
            stats["worst_validation_distance"] = max(stats["worst_validation_distance"], r[1])
        else:
            stats["violations"] += 1
            ctx.violation(r[0], r[1], r[2], {"kind": "special", "case": c})
    ctx.cov["special_state_reuse"] = stats
    ctx.sample({"special_state_case": cases[0]})


# ------------------------------------- IntegratorKrylov validity range
KR_HEADER = ("From Coq Require Import List ZArith Bool.\nImport ListNotations.\n"
             "From QV Require Import Model.C11_krylov.\nOpen Scope Z_scope.\n")
KR_SCALE = 64
_KSPY = {}


def krylov_spy_class():
    """IntegratorKrylov with recording wrappers around the three numerical
    kernels (the control flow under test is the unmodified one).  The step
    bound is rounded down to a multiple of 1/64 so that every float
    comparison `t > t_0 + max_step` of the run is exact."""
    if _KSPY:
        return _KSPY["cls"]
    from qutip.solver.integrator.krylov import IntegratorKrylov
    from qutip.solver.sesolve import SESolver

    class KrylovSpy(IntegratorKrylov):
        method = "krylov_spy"
        events = []

        def _lanczos_algorithm(self, psi):
            r = IntegratorKrylov._lanczos_algorithm(self, psi)
            KrylovSpy.events.append(("lanczos", int(r[0].shape[0])))
            return r

        def integrate(self, t, copy=True):
            self._spy_int = True
            try:
                return IntegratorKrylov.integrate(self, t, copy)
            finally:
                self._spy_int = False

        def _compute_max_step(self, *a, **k):
            was, self._spy_int = getattr(self, "_spy_int", False), False
            try:
                v = IntegratorKrylov._compute_max_step(self, *a, **k)
            finally:
                self._spy_int = was
            v = max(1, int(np.floor(min(v, 1e6) * KR_SCALE))) / float(KR_SCALE)
            KrylovSpy.events.append(("bound", int(v * KR_SCALE)))
            return v

        def _compute_psi(self, dt, *a):
            if getattr(self, "_spy_int", False):     # only the uses made by integrate
                KrylovSpy.events.append(("psi", dt, getattr(self, "_max_step", None)))
            return IntegratorKrylov._compute_psi(self, dt, *a)

        @property
        def options(self):
            """krylov with recording wrappers"""
            return self._options

        @options.setter
        def options(self, new):
            IntegratorKrylov.options.fset(self, new)

    SESolver.add_integrator(KrylovSpy, "krylov_spy")
    _KSPY["cls"] = KrylovSpy
    return KrylovSpy


def kr_state(N, code):
    from qutip import tensor, basis
    if code == "zero":
        return 0 * jc_state(N, "g0")
    if code == "mid":      # invariant subspace of dimension 6
        return (tensor(basis(2, 1), basis(N, 0)) + tensor(basis(2, 1), basis(N, 1))
                + 1j * tensor(basis(2, 1), basis(N, 2))).unit()
    return jc_state(N, code)


def kr_bound(b):
    if b == float("inf"):
        return "PosInf"
    if b == float("-inf"):
        return "NegInf"
    return ("Fin", int(round(b * KR_SCALE)))


def run_krylov_impl(case):
    from qutip.solver.sesolve import SESolver
    from qutip.solver.integrator.integrator import IntegratorException
    Spy = krylov_spy_class()
    N = case["N"]
    H, _a = jc_system(N, 1)
    Spy.events = []
    np.random.seed(case.get("rseed", 1))
    solver = SESolver(H, options={"method": "krylov_spy", "krylov_dim": case["kdim"],
                                  "always_compute_step": case["always"],
                                  "nsteps": case["nsteps"], "progress_bar": ""})
    I = solver._integrator
    kdim = int(I.options["krylov_dim"])
    prep = list(Spy.events)
    rand = [(next((e[1] for e in prep if e[0] == "lanczos"), 0),
             next((e[1] for e in prep if e[0] == "bound"), 1))]
    ncomp = sum(1 for e in prep if e[0] == "bound")
    views, per_op, bad = [], [], []
    for op in case["ops"]:
        Spy.events = []
        code = 0
        try:
            if op[0] == "set":
                I.set_state(op[1] / float(KR_SCALE), kr_state(N, op[2]).data)
            else:
                I.integrate(op[1] / float(KR_SCALE))
        except (IntegratorException, AttributeError):
            code = 1
        ev = list(Spy.events)
        ncomp += sum(1 for e in ev if e[0] == "bound")
        t0 = getattr(I, "_t_0", 0.0)
        views.append((code, int(round(t0 * KR_SCALE)), kr_bound(I._max_step),
                      bool(I._is_set), ncomp))
        per_op.append(ev)
        # the property itself on the implementation trace
        lz = [e[1] for e in ev if e[0] == "lanczos"]
        if lz and I._max_step == float("inf") and not (lz[-1] <= kdim or lz[-1] == 2 * N):
            bad.append("inf-bound-kept-for-non-breakdown-state: after %r _max_step is +inf "
                       "although the Lanczos iteration of the current state did not break "
                       "down (size %d > krylov_dim %d)" % (op, lz[-1], kdim))
        for e in ev:
            if e[0] == "psi" and e[2] is not None and not (e[1] <= e[2]):
                bad.append("propagation-outside-validity-range: _compute_psi(%r) with "
                           "_max_step=%r" % (e[1], e[2]))
    # oracle answers per set state: its own (ldim, bound) then those of the hops
    states, cur = [], None
    for op, ev in zip(case["ops"], per_op):
        pairs, pend = [], None
        for e in ev:
            if e[0] == "lanczos":
                if pend is not None:
                    pairs.append(pend)
                pend = [e[1], 1]
            elif e[0] == "bound" and pend is not None:
                pend[1] = e[1]
        if pend is not None:
            pairs.append(pend)
        if op[0] == "set":
            cur = list(pairs)
            states.append(cur)
        elif cur is not None:
            cur.extend(pairs)
    return {"kdim": kdim, "rand": rand, "views": views, "states": states, "bad": bad}


def coq_ktrace(case, r):
    def ost(pairs):
        return clist(pairs, lambda p: "(%s, %s)" % (cnat(p[0]), cz(p[1])))
    it = iter(r["states"])
    ops = []
    for op in case["ops"]:
        if op[0] == "set":
            ops.append("KSet %s %s" % (cz(op[1]), ost(next(it))))
        else:
            ops.append("KInt %s" % cz(op[1]))
    return ("ktrace %s %s %s %s (prepare ost %s %s o_ldim o_bnd %s %s) %s" % (
        cnat(r["kdim"]), cnat(2 * case["N"]), cbool(case["always"]), cnat(case["nsteps"]),
        cnat(r["kdim"]), cnat(2 * case["N"]), cbool(case["always"]), ost(r["rand"]),
        clist(ops)))


def gen_krylov_case(rng):
    codes = ["g0", "e0", "block_eig", "e1", "mid", "generic", "generic", "generic2", "zero"]
    ops = []
    if rng.random() < 0.1:
        ops.append(["int", rng.randint(0, 64)])
    t = 0
    for _ in range(rng.choice([1, 2, 3, 4])):
        t = rng.randint(-64, 64)
        ops.append(["set", t, rng.choice(codes)])
        for _ in range(rng.choice([0, 1, 2, 3])):
            t = t + rng.choice([0, 3, 16, 64, 200, 640, -8])
            ops.append(["int", t])
    return {"N": rng.choice([6, 10]), "kdim": rng.choice([0, 0, 3, 4, 6]),
            "always": rng.random() < 0.3, "nsteps": rng.choice([3, 6, 100, 100]),
            "rseed": rng.randint(0, 5), "ops": ops}


def krylov_part(ctx, rng, only=None):
    ncases = 60 if ctx.quick else 600
    cases = [{"N": 10, "kdim": 0, "always": False, "nsteps": 100, "rseed": 1,
              "ops": [["set", 0, "e0"], ["int", 640], ["set", 0, "generic"], ["int", 1280]]},
             {"N": 10, "kdim": 4, "always": False, "nsteps": 100, "rseed": 1,
              "ops": [["set", 0, "generic"], ["int", 320], ["set", 0, "g0"], ["int", 640],
                      ["set", 64, "mid"], ["int", 640]]}]
    if only is not None:
        cases, ncases = [only], 1
    while len(cases) < ncases:
        cases.append(gen_krylov_case(rng))
    runs = [run_krylov_impl(c) for c in cases]
    try:
        vals = vlib.coq_eval_values("cases_C11k", KR_HEADER,
                                    [coq_ktrace(c, r) for c, r in zip(cases, runs)], chunk=200)
    except RuntimeError as e:
        ctx.violation("corr:C11:krylov-model-eval", "coqc", "model evaluation failed",
                      {"log": str(e)}, found_input=False)
        return
    agree = 0
    for c, r, v in zip(cases, runs, vals):
        model = []
        for x in vlib.parse_coq_value(v):
            code, t0, b, isset, ncomp = x
            model.append((code, t0, b if isinstance(b, str) else tuple(b), isset, ncomp))
        im = [(a, b, d if isinstance(d, str) else tuple(d), e, f) for a, b, d, e, f in r["views"]]
        ctx.count_case(("krylov", json.dumps(c)), nontrivial=len(c["ops"]) >= 3)
        ctx.cov["traces_validated_against_impl"] += 1
        if r["bad"]:
            ctx.violation("krylov.IntegratorKrylov:_max_step", r["bad"][0].split(":")[0],
                          r["bad"][0], {"kind": "krylov", "case": c})
        if im == model:
            agree += 1
            continue
        first = next((j for j in range(min(len(im), len(model))) if im[j] != model[j]), 0)
        ctx.violation("corr:krylov.IntegratorKrylov",
                      r["bad"][0].split(":")[0] if r["bad"] else "model-differs",
                      "IntegratorKrylov and its model disagree on a call history"
                      + ("; implementation violates the property: " + r["bad"][0] if r["bad"] else ""),
                      {"kind": "krylov", "case": c, "first_differing_op": first,
                       "impl": im[first:first + 1], "model": model[first:first + 1]},
                      found_input=bool(r["bad"]))
    ctx.cov["krylov_agreement"] = {"cases": len(cases), "agree": agree}
    ctx.sample({"krylov_case": cases[1], "impl_views": [list(map(str, v)) for v in runs[1]["views"][:3]]}
               if len(cases) > 1 else {"krylov_case": cases[0]})


# ------------------------------------- zvode window (_back / _front)
ZV_HEADER = ("From Coq Require Import List ZArith Bool.\nImport ListNotations.\n"
             "From QV Require Import Model.C11_zvode.\nOpen Scope Z_scope.\n")


_ZSNAP = [0]


def run_zvode_impl(case):
    """Drive a real IntegratorScipyAdams / BDF (real zvode) through set_state /
    mcstep; returns the observations and the oracle (internal time reached by
    every step)."""
    import scipy.linalg
    from qutip import Qobj, basis
    from qutip.solver.sesolve import SESolver
    from qutip.solver.integrator.integrator import IntegratorException
    I = SESolver(Qobj(RK_H), options={"method": case["method"]})._integrator
    y0 = basis(3, 0).data
    views, oracle, bad = [], [], []
    t0 = None
    concrete, model_t = [], []
    start_last = None       # ode time at the start of the last successful mcstep
    for op in case["ops"]:
        f0 = getattr(I, "_front", 0.0)
        t_start = float(I._ode_solver.t)
        if op[0] == "rel":
            # target chosen relative to the window the object holds now
            b0 = getattr(I, "_back", 0.0)
            b0 = b0 if isinstance(b0, (int, float)) else 0.0
            kind, x = op[1], op[2]
            cur_t = float(I._ode_solver.t)
            p_t = start_last if start_last is not None else cur_t
            tt = {"in": b0 + x * (f0 - b0), "front": f0, "beyond": f0 + x,
                  "behind": b0 - x, "same": cur_t,
                  "prev": p_t + x * (cur_t - p_t)}[kind]
            op = ["mc", float(tt)]
        concrete.append(op)
        mt = float(op[1])
        if op[0] == "mc" and isinstance(f0, float) and mt != f0 and \
                abs(mt - f0) <= 256 * np.spacing(abs(f0)):
            mt = float(f0)      # same canonicalisation for a target in the fuzz
            _ZSNAP[0] += 1
        model_t.append(mt)
        raised, tout = False, None
        try:
            if op[0] == "set":
                I.set_state(float(op[1]), y0)
                t0, tout = float(op[1]), float(op[1])
            else:
                tout, y = I.mcstep(float(op[1]))
                if t0 is not None:
                    exact = scipy.linalg.expm(-1j * RK_H * (tout - t0))[:, :1]
                    if np.abs(y.to_array() - exact).max() > 1e-4:
                        bad.append("wrong-state: mcstep(%r) returned time %r with a state that "
                                   "is not the solution there (validation, tol 1e-4)" % (op[1], tout))
                    if tout > float(op[1]):
                        bad.append("overshoot: mcstep(%r) returned the later time %r" % (op[1], tout))
        except IntegratorException as e:
            raised = True
            if "behind the integration limit" not in str(e) and "not initialted" not in str(e):
                bad.append("zvode-failure: mcstep(%r) raised %s" % (op[1], str(e)[:60]))
            elif (t0 is not None and start_last is not None
                  and min(start_last, t_start) <= float(op[1]) <= t_start):
                # Integrator.mcstep: a time between the start of the last call
                # and now can be asked for
                bad.append("reachable-time-refused: mcstep(%r) raised although the last call "
                           "started at %r and the object is at %r" % (op[1], start_last, t_start))
        except AttributeError:
            raised = True
        ot = float(I._ode_solver.t)
        if op[0] == "set":
            start_last = None
        elif not raised:
            start_last = t_start
        if tout is None:
            tout = ot
        front = getattr(I, "_front", 0.0)
        # VODE: when a step is cut to land on tcrit, tn + h can miss tcrit by
        # roundoff; it then returns T = tcrit exactly while rwork[12] keeps tn
        # (test |tn - tcrit| <= 100 uround (|tn| + |h|)).  Such times are
        # canonicalised to rwork[12] (= _front) and counted.
        for nm in ("ot", "tout"):
            xv = ot if nm == "ot" else tout
            if xv != front and abs(xv - front) <= 256 * np.spacing(abs(front)):
                _ZSNAP[0] += 1
                if nm == "ot":
                    ot = front
                else:
                    tout = front
        back = getattr(I, "_back", 0.0)
        if not isinstance(back, (int, float)):
            back = 0.0          # Integrator.__init__ default (inf, None): not set yet
        views.append((raised, tout, bool(I._is_set), back, front, ot))
        stepped = op[0] == "mc" and front != f0
        oracle.append(front if stepped else 0.0)
        if stepped and float(I._ode_solver._integrator.rwork[12]) != front:
            bad.append("front-is-not-tcur: _front=%r rwork[12]=%r" % (
                front, float(I._ode_solver._integrator.rwork[12])))
    case["ops"] = concrete          # resolved targets: what a replay re-runs
    case["_model_t"] = model_t
    return views, oracle, bad


def gen_zvode_case(rng):
    ops = []
    if rng.random() < 0.15:
        ops.append(["mc", rng.randint(0, 8) / 8.0])
    for _ in range(rng.choice([1, 2, 3])):
        t = rng.randint(-8, 8) / 8.0
        ops.append(["set", t])
        for _ in range(rng.choice([3, 6, 12])):
            r = rng.random()
            if r < 0.3:
                ops.append(["rel", "beyond", rng.choice([1e-3, 0.02, 0.25, 1.0])])
            elif r < 0.6:
                ops.append(["rel", "in", rng.choice([0.0, 0.25, 0.5, 0.9, 1.0])])
            elif r < 0.7:
                ops.append(["rel", "front", 0])
            elif r < 0.8:
                ops.append(["rel", "same", 0])
            elif r < 0.86:
                ops.append(["rel", "behind", rng.choice([1e-4, 0.5])])
            elif r < 0.95:
                ops.append(["rel", "prev", rng.choice([0.0, 0.0, 0.5])])
            else:
                t = t + rng.randint(1, 10) / 16.0
                ops.append(["mc", t])
    return {"method": rng.choice(["adams", "bdf"]), "ops": ops}


def zvode_part(ctx, rng, only=None):
    from fractions import Fraction
    ncases = 80 if ctx.quick else 800
    cases = [{"method": "adams", "ops": [["set", 0.0], ["mc", 1.0], ["mc", 0.0078125],
                                         ["mc", 1.0], ["mc", 1.0], ["mc", -1.0], ["mc", 2.0]]}]
    if only is not None:
        cases, ncases = [only], 1
    while len(cases) < ncases:
        cases.append(gen_zvode_case(rng))
    runs, exprs, scs = [], [], []
    for c in cases:
        views, oracle, bad = run_zvode_impl(c)
        mts = c.pop("_model_t")
        vals_ = [op[1] for op in c["ops"]] + list(oracle) + list(mts)
        for v in views:
            vals_ += [v[1], v[3], v[4], v[5]]
        den = 1
        for x in vals_:
            den = max(den, Fraction(float(x)).denominator)
        sc = (lambda d: (lambda x: int(Fraction(float(x)) * d)))(den)
        ops = ["ZSet %s" % cz(sc(op[1])) if op[0] == "set"
               else "ZMc %s %s" % (cz(sc(mt)), cz(sc(o)))
               for op, o, mt in zip(c["ops"], oracle, mts)]
        exprs.append("z_trace z_new %s" % clist(ops))
        runs.append((views, oracle, bad))
        scs.append(sc)
    try:
        vals = vlib.coq_eval_values("cases_C11z", ZV_HEADER, exprs, chunk=200)
    except RuntimeError as e:
        ctx.violation("corr:C11:zvode-model-eval", "coqc", "model evaluation failed",
                      {"log": str(e)}, found_input=False)
        return
    agree = 0
    for c, (views, oracle, bad), sc, v in sorted(zip(cases, runs, scs, vals),
                                                key=lambda z: 0 if z[1][2] else 1):
        model = [(x[0], x[1], x[2][0], x[2][1], x[2][2], x[2][3])
                 for x in vlib.parse_coq_value(v)]
        im = [(a, sc(b), d, sc(e), sc(f), sc(g)) for a, b, d, e, f, g in views]
        ctx.count_case(("zvode", json.dumps(c)), nontrivial=len(c["ops"]) >= 4)
        ctx.cov["traces_validated_against_impl"] += 1
        if bad:
            ctx.violation("scipy_integrator.IntegratorScipyAdams.mcstep", bad[0].split(":")[0],
                          bad[0], {"kind": "zvode", "case": c})
        if im == model:
            agree += 1
            continue
        first = next((j for j in range(min(len(im), len(model))) if im[j] != model[j]), 0)
        ctx.violation("corr:scipy_integrator.IntegratorScipyAdams",
                      bad[0].split(":")[0] if bad else "model-differs",
                      "IntegratorScipyAdams/BDF and the window model disagree on a call history"
                      + ("; implementation violates the property: " + bad[0] if bad else ""),
                      {"kind": "zvode", "case": c, "first_differing_op": first,
                       "impl": [list(map(str, x)) for x in im[first:first + 1]],
                       "model": [list(map(str, x)) for x in model[first:first + 1]]},
                      found_input=bool(bad))
    ctx.cov["zvode_agreement"] = {"cases": len(cases), "agree": agree,
                                  "roundoff_times_canonicalised": _ZSNAP[0]}
    ctx.sample({"zvode_case": cases[0], "impl_views": [list(map(str, x)) for x in runs[0][0][:4]]})


# ------------------------------------- lsoda window (_back / _front)
LS_HEADER = ("From Coq Require Import List ZArith Bool.\nImport ListNotations.\n"
             "From QV Require Import Model.C11_lsoda.\nOpen Scope Z_scope.\n")
SITE_LSODA = "scipy_integrator.IntegratorScipylsoda._backstep"
SITE_LSODA_PROBE = "scipy_integrator.IntegratorScipylsoda._one_step"


def run_lsoda_impl(case):
    """Drive a real IntegratorScipylsoda through set_state / mcstep; the two
    float expressions the source evaluates (front - rwork[11], the first
    target of _one_step) and lsoda's (tcur, hu, hcur) after the call are the
    oracle inputs of the model."""
    import scipy.linalg
    from qutip import Qobj, basis
    from qutip.solver.sesolve import SESolver
    from qutip.solver.integrator.integrator import IntegratorException
    I = SESolver(Qobj(RK_H), options={"method": "lsoda"})._integrator
    y0 = basis(3, 0).data
    views, oracle, concrete, bad = [], [], [], []
    t0, start_last = None, None
    for op in case["ops"]:
        ode = I._ode_solver
        rw = getattr(ode._integrator, "rwork", np.zeros(20))
        f0 = getattr(I, "_front", 0.0)
        b0 = I._back[0] if I._is_set else 0.0
        t_start = float(ode.t)
        if op[0] == "rel":
            kind, x = op[1], op[2]
            p_t = start_last if start_last is not None else t_start
            tt = {"in": b0 + x * (f0 - b0), "front": f0, "beyond": f0 + x, "behind": b0 - x,
                  "same": t_start, "prev": p_t + x * (t_start - p_t), "back": b0}[kind]
            if kind in ("in", "prev", "back") and not (f0 - b0 > 1e-8 * max(1.0, abs(f0))):
                # windows at rounding scale (first steps after a reset are ~1e-14
                # long) are outside what exact bookkeeping can say: move on
                tt = f0 + 0.25
            op = ["mc", float(tt), op[3] if len(op) > 3 else 1.0]
        if op[0] == "mc" and len(op) > 2 and op[2] != 1.0 and I._is_set:
            rw[11] = rw[11] * op[2]       # lsoda decides to try a smaller step next
        concrete.append(op)
        raised, tout = False, None
        fd = p = 0.0
        if op[0] == "mc" and I._is_set:
            t = float(op[1])
            fd = float(f0 - rw[11])
            p = float(min(f0 + (rw[11] / 100 + max(1e-15, 4 * np.spacing(abs(t_start)))), t))
        try:
            if op[0] == "set":
                I.set_state(float(op[1]), y0)
                t0, tout, start_last = float(op[1]), float(op[1]), None
            else:
                tout, y = I.mcstep(float(op[1]))
                exact = scipy.linalg.expm(-1j * RK_H * (tout - t0))[:, :1]
                if np.abs(y.to_array() - exact).max() > 1e-4:
                    bad.append("wrong-state: mcstep(%r) returned time %r with a state that is "
                               "not the solution there (validation, tol 1e-4)" % (op[1], tout))
                start_last = t_start
        except IntegratorException as e:
            raised = True
            msg = str(e)
            if "behind the integration limit" in msg:
                if t0 is not None and start_last is not None and \
                        min(start_last, t_start) <= float(op[1]) <= t_start:
                    bad.append("reachable-time-refused: mcstep(%r) raised although the last call "
                               "started at %r" % (op[1], start_last))
            elif "not initialted" not in msg:
                bad.append("lsoda-failure: mcstep(%r) raised '%s' (window %r..%r, ode at %r)" % (
                    op[1], msg[:40], b0, f0, t_start))
        except AttributeError:
            raised = True
        rw = getattr(ode._integrator, "rwork", np.zeros(20))
        views.append((raised, bool(I._is_set), I._back[0] if I._is_set else 0.0,
                      getattr(I, "_front", 0.0), float(ode.t)))
        oracle.append((float(op[1]), fd, p, (float(rw[12]), float(rw[10]), float(rw[11]))))
        if raised and any(b.startswith("lsoda-failure") for b in bad):
            break
    case["ops"] = concrete
    return views, oracle, bad


def gen_lsoda_case(rng):
    ops = []
    for _ in range(rng.choice([1, 2])):
        ops.append(["set", rng.randint(-4, 4) / 8.0])
        for _ in range(rng.choice([4, 8, 14])):
            r = rng.random()
            shrink = rng.choice([1.0, 1.0, 1.0, 0.25])
            if r < 0.35:
                ops.append(["rel", "beyond", rng.choice([1e-3, 0.02, 0.25, 1.0]), 1.0])
            elif r < 0.7:
                ops.append(["rel", "in", rng.choice([0.1, 0.25, 0.5, 0.9, 1.0]), shrink])
            elif r < 0.78:
                ops.append(["rel", "same", 0, 1.0])
            elif r < 0.86:
                ops.append(["rel", "behind", rng.choice([1e-4, 0.5]), 1.0])
            elif r < 0.93:
                ops.append(["rel", "prev", rng.choice([0.5, 1.0]), shrink])
            else:
                ops.append(["rel", "back", 0, shrink])
    return {"ops": ops}


def lsoda_part(ctx, rng, only=None):
    from fractions import Fraction
    ncases = 40 if ctx.quick else 400
    cases = [{"ops": [["set", 0.0]] + [["rel", "beyond", 1.0, 1.0]] * 25
              + [["rel", "back", 0, 0.25], ["rel", "beyond", 1.0, 1.0], ["rel", "in", 0.5, 1.0]]},
             {"ops": [["set", -0.125], ["mc", 0.125, 1.0], ["mc", 0.125, 1.0]]}]
    if only is not None:
        cases, ncases = [only], 1
    while len(cases) < ncases:
        cases.append(gen_lsoda_case(rng))
    runs, exprs, scs = [], [], []
    for c in cases:
        views, oracle, bad = run_lsoda_impl(c)
        vals_ = []
        for v in views:
            vals_ += [v[2], v[3], v[4]]
        for o in oracle:
            vals_ += [o[0], o[1], o[2]] + list(o[3])
        den = 1
        for x in vals_:
            den = max(den, Fraction(float(x)).denominator)
        sc = (lambda d: (lambda x: int(Fraction(float(x)) * d)))(den)
        ops = []
        for op, o in zip(c["ops"], oracle):
            if op[0] == "set":
                ops.append("LSet %s" % cz(sc(op[1])))
            else:
                tri = "(%s, %s, %s)" % tuple(cz(sc(x)) for x in o[3])
                ops.append("LMc %s %s %s %s %s" % (cz(sc(o[0])), cz(sc(o[1])), cz(sc(o[2])), tri, tri))
        exprs.append("l_trace false l_new %s" % clist(ops))
        exprs.append("l_trace true l_new %s" % clist(ops))
        runs.append((views, oracle, bad))
        scs.append(sc)
    try:
        vals = vlib.coq_eval_values("cases_C11l", LS_HEADER, exprs, chunk=100)
    except RuntimeError as e:
        ctx.violation("corr:C11:lsoda-model-eval", "coqc", "model evaluation failed",
                      {"log": str(e)}, found_input=False)
        return
    agree = {"source": 0, "old_rule_only": 0, "none": 0}
    for i, (c, (views, oracle, bad), sc) in enumerate(zip(cases, runs, scs)):
        def canon(v):
            return [(x[0], x[1][0], x[1][1], x[1][2], x[1][3]) for x in vlib.parse_coq_value(v)]
        # the source follows the rule `fixed = true` (commit 9575753); the rule
        # before it is evaluated only to name a regression
        msrc, mold = canon(vals[2 * i + 1]), canon(vals[2 * i])
        im = [(a, b, sc(c_), sc(d), sc(e)) for a, b, c_, d, e in views]
        n = len(im)
        numeric_edge = False
        if bad and any(b.startswith("lsoda-failure") for b in bad):
            # after lsoda reports a failure the fields hold whatever rwork holds:
            # only the fact that the call raised is compared for that call
            def same(m):
                return im[:n - 1] == m[:n - 1] and len(m) >= n and m[n - 1][0] is True
            a_src, a_old = same(msrc), same(mold)
            if not a_src and not a_old and im[:n - 1] == msrc[:n - 1]:
                # a failure inside lsoda that the bookkeeping model does not
                # produce: a forward request while the window is at rounding
                # scale (first steps after a reset are ~1e-15 long)
                v = views[n - 2] if n >= 2 else None
                if v is not None and abs(v[3] - v[2]) <= 1e-8 * max(1.0, abs(v[3])):
                    numeric_edge = True
                    a_src = True
        else:
            a_src, a_old = im == msrc[:n], im == mold[:n]
        ctx.count_case(("lsoda", json.dumps(c)), nontrivial=len(c["ops"]) >= 4)
        ctx.cov["traces_validated_against_impl"] += 1
        agree["source" if a_src else "old_rule_only" if a_old else "none"] += 1
        if bad:
            site, sig = "scipy_integrator.IntegratorScipylsoda.mcstep", bad[0].split(":")[0]
            if numeric_edge:
                site, sig = SITE_LSODA_PROBE, "forward-request-on-rounding-scale-window-illegal-input"
            elif bad[0].startswith("lsoda-failure") and a_old and not a_src:
                # the behaviour of _backstep before commit 9575753 is back
                site, sig = SITE_LSODA, "restart-at-window-back-then-illegal-input"
            ctx.violation(site, sig, bad[0], {"kind": "lsoda", "case": c})
        if not a_src and not a_old:
            first = next((j for j in range(min(n, len(msrc))) if im[j] != msrc[j]), 0)
            ctx.violation("corr:scipy_integrator.IntegratorScipylsoda",
                          bad[0].split(":")[0] if bad else "model-differs",
                          "IntegratorScipylsoda and the window model disagree on a call history",
                          {"kind": "lsoda", "case": c, "first_differing_op": first,
                           "impl": [str(im[first])], "model": [str(msrc[first])]},
                          found_input=bool(bad))
    ctx.cov["lsoda_agreement"] = dict(agree, cases=len(cases))
    ctx.sample({"lsoda_case": cases[0]})


# ----------------------------- Solver call protocol (run/start/step/options)
SV_HEADER = ("From Coq Require Import List ZArith Bool.\nImport ListNotations.\n"
             "From QV Require Import Model.C11_solver.\nOpen Scope Z_scope.\n")
SV_KEYS = ["method", "store_final_state", "normalize_output", "atol", "rtol", "nsteps",
           "order", "first_step"]
SV_METH = {"adams": 0, "fa": 1, "fb": 2, "fc": 3}
SV_METH_R = {v: k for k, v in SV_METH.items()}
SV_MOD = 1000003
_SV = {}


def sv_classes():
    """Scripted integrator classes registered through add_integrator; they
    record every call made on them.  Base-class reset / arguments / options
    logic is the real one."""
    if _SV:
        return _SV
    import qutip.core.data as _data
    from qutip.solver.integrator.integrator import Integrator
    from qutip.solver.sesolve import SESolver
    from qutip.solver.mesolve import MESolver
    LOG = []
    COUNT = [0]

    def make(name, mid, opts):
        class Scripted(Integrator):
            integrator_options = dict(opts)
            support_time_dependant = True
            supports_blackbox = False
            method = name

            def __init__(self, system, options):
                self._sv_quiet = True
                COUNT[0] += 1
                self._sv_id = COUNT[0]
                Integrator.__init__(self, system, options)
                self._sv_quiet = False
                LOG.append(("ECtor", self._sv_id, mid, self._vals()))

            def _vals(self):
                return [int(self._options[k]) if k in self.integrator_options else 0
                        for k in SV_KEYS]

            def _prepare(self):
                self.name = name
                if not self._sv_quiet:
                    LOG.append(("EPrepare", self._sv_id))

            def _w(self):
                L = self.system(0).full()
                z = L[1, 1] if self.system.issuper else L[0, 0]
                return int(round(abs(z)))

            def set_state(self, t, state0):
                self._t = int(t)
                self._y = _data.to(_data.Dense, state0).copy()
                self._is_set = True
                LOG.append(("ESet", self._sv_id, int(t), int(round(self._y.to_array()[0, 0].real))))

            def get_state(self, copy=True):
                return self._t, (self._y.copy() if copy else self._y)

            def integrate(self, t, copy=True):
                LOG.append(("EInt", self._sv_id, int(t)))
                arr = self._y.to_array().copy()
                x = int(round(arr[0, 0].real))
                osum = sum((i + 1) * int(self._options[k]) for i, k in enumerate(SV_KEYS)
                           if k in self.integrator_options)
                x2 = (x * 3 + 7 * mid + osum + 11 * self._w() + 13 * self._t + 17 * int(t)) % SV_MOD
                arr[0, 0] = x2
                self._y = _data.Dense(arr)
                self._t = int(t)
                return self.get_state(copy)

            def arguments(self, args):
                LOG.append(("EArgs", self._sv_id, int(args["k"])))
                Integrator.arguments(self, args)

            @property
            def options(self):
                """scripted integrator"""
                return self._options

            @options.setter
            def options(self, new):
                Integrator.options.fset(self, new)
                if not getattr(self, "_sv_quiet", True):
                    LOG.append(("EOpt", self._sv_id, self._vals()))
        Scripted.__name__ = "Scripted_" + name
        return Scripted

    classes = {"fa": make("fa", 1, {"atol": 8, "rtol": 6, "nsteps": 2500}),
               "fb": make("fb", 2, {"atol": 8, "order": 5}),
               "fc": make("fc", 3, {"rtol": 6, "first_step": 0})}
    for cls in (SESolver, MESolver):
        for k, c in classes.items():
            cls.add_integrator(c, k)
    _SV.update({"log": LOG, "count": COUNT})
    return _SV


def sv_dict(d):
    """[(key index, value or None)] -> options dictionary"""
    out = {}
    for k, v in d:
        name = SV_KEYS[k]
        if k == 0:
            out[name] = SV_METH_R[v]
        elif k in (1, 2):
            out[name] = None if v is None else bool(v)
        else:
            out[name] = v
    return out


def run_solver_impl(case):
    from qutip import Qobj, QobjEvo, basis
    from qutip.solver.sesolve import SESolver
    from qutip.solver.mesolve import MESolver
    sv = sv_classes()
    LOG, COUNT = sv["log"], sv["count"]
    del LOG[:]
    COUNT[0] = 0
    Hd = Qobj(np.array([[1, 0], [0, 0]], dtype=complex))
    H = QobjEvo([[Hd, _coeff_k]], args={"k": case["w0"]})
    cls = SESolver if case["solver"] == "se" else MESolver
    solver = cls(H, options=sv_dict(case["init"]))
    views = []

    def state(x):
        from qutip import ket2dm
        return x * (basis(2, 0) if case["solver"] == "se" else ket2dm(basis(2, 0)))

    def tag(q):
        return int(round(q.full()[0, 0].real))

    def optvals():
        o = solver.options
        return [int(SV_METH[o[k]]) if k == "method" else (int(o[k]) if k in o else 0)
                for k in SV_KEYS]

    pre = list(LOG)
    del LOG[:]
    bad, cur_w, position = [], case["w0"], None
    for op in case["ops"]:
        err, xs = False, []
        try:
            if op[0] == "opts":
                solver.options = sv_dict(op[1])
            elif op[0] == "item":
                solver.options[SV_KEYS[op[1]]] = sv_dict([(op[1], op[2])])[SV_KEYS[op[1]]]
            elif op[0] == "start":
                solver.start(state(op[1]), op[2])
            elif op[0] == "step":
                kw = {"args": {"k": op[2]}} if op[2] is not None else {}
                xs = [tag(solver.step(op[1], **kw))]
            elif op[0] == "run":
                kw = {"args": {"k": op[4]}} if op[4] is not None else {}
                r = solver.run(state(op[1]), [op[2]] + list(op[3]), **kw)
                xs = [tag(q) for q in r.states]
        except (KeyError, RuntimeError):
            err = True
        ev = [tuple(e) for e in LOG]
        views.append((err, xs, ev, optvals()))
        del LOG[:]
        # the property on the implementation trace (independent of the model):
        # the integrator in use is the one the options name and holds their values
        I = solver._integrator
        o = solver.options
        if I.method != o["method"] or any(I.options[k] != o[k] for k in I.integrator_options):
            bad.append("integrator-incoherent: after %r the integrator is %s with %r but the "
                       "options say %s with %r" % (op, I.method, dict(I.options), o["method"],
                                                  {k: o[k] for k in I.integrator_options}))
        # and a step asks for the flow under the values last set
        if op[0] in ("step", "run") and op[-1] is not None and not err:
            cur_w = op[-1]
        if op[0] == "start":
            position = (op[2], op[1])
        if op[0] == "run" and not err:
            position = (op[2], op[1])
            for t_, x_ in zip(op[3], xs[1:]):
                want = sv_flow(o, cur_w, position[0], t_, position[1])
                if x_ != want:
                    bad.append("wrong-evolution-request: run%r handed out %d at t=%d, the options / "
                               "arguments last set give %d" % (tuple(op[1:]), x_, t_, want))
                position = (t_, x_)
        if op[0] == "step" and not err and position is not None:
            want = sv_flow(o, cur_w, position[0], op[1], position[1])
            if xs[0] != want:
                bad.append("wrong-evolution-request: step%r handed out %d, the options / arguments "
                           "last set and the position %r give %d" % (tuple(op[1:]), xs[0], position, want))
            position = (op[1], xs[0])
    return pre, views, bad


def sv_apply(solver, case, op):
    """one operation of a protocol history on a real solver: (err, states)"""
    from qutip import basis, ket2dm

    def state(x):
        return x * (basis(2, 0) if case["solver"] == "se" else ket2dm(basis(2, 0)))

    def tag(q):
        return int(round(q.full()[0, 0].real))
    try:
        if op[0] == "opts":
            solver.options = sv_dict(op[1])
        elif op[0] == "item":
            solver.options[SV_KEYS[op[1]]] = sv_dict([(op[1], op[2])])[SV_KEYS[op[1]]]
        elif op[0] == "start":
            solver.start(state(op[1]), op[2])
        elif op[0] == "step":
            kw = {"args": {"k": op[2]}} if op[2] is not None else {}
            return False, [tag(solver.step(op[1], **kw))]
        elif op[0] == "run":
            kw = {"args": {"k": op[4]}} if op[4] is not None else {}
            r = solver.run(state(op[1]), [op[2]] + list(op[3]), **kw)
            return False, [tag(q) for q in r.states]
    except (KeyError, RuntimeError):
        return True, []
    return False, []


def sv_fresh_equiv(case):
    """C11_solver_fresh_solver_equivalent on the implementation: after the
    first half of the history, a NEW solver built with the option values and
    arguments in force and started at the same position must answer the second
    half identically.  Returns None or a description."""
    from qutip import Qobj, QobjEvo, basis, ket2dm
    from qutip.solver.sesolve import SESolver
    from qutip.solver.mesolve import MESolver
    sv_classes()
    Hd = Qobj(np.array([[1, 0], [0, 0]], dtype=complex))
    cls = SESolver if case["solver"] == "se" else MESolver
    A = cls(QobjEvo([[Hd, _coeff_k]], args={"k": case["w0"]}), options=sv_dict(case["init"]))
    half = len(case["ops"]) // 2
    w = case["w0"]
    for op in case["ops"][:half]:
        err, _ = sv_apply(A, case, op)
        if op[0] in ("step", "run") and op[-1] is not None and not err:
            w = op[-1]
    I = A._integrator
    if not I._is_set:
        return None
    t, y = I.get_state()
    x = int(round(y.to_array()[0, 0].real))
    opts = {k: A.options[k] for k in ["method", "store_final_state", "normalize_output"]
            + list(I.integrator_options)}
    B = cls(QobjEvo([[Hd, _coeff_k]], args={"k": w}), options=opts)
    B.start(x * (basis(2, 0) if case["solver"] == "se" else ket2dm(basis(2, 0))), t)
    for i, op in enumerate(case["ops"][half:]):
        ra, rb = sv_apply(A, case, op), sv_apply(B, case, op)
        if ra != rb:
            return ("used solver answers %r, a new solver built with the values in force %r "
                    "(operation %d of the history: %r)" % (ra, rb, half + i, op))
    return None


def sv_flow(o, w, t, t2, x):
    mid = SV_METH[o["method"]]
    keys = {1: ["atol", "rtol", "nsteps"], 2: ["atol", "order"], 3: ["rtol", "first_step"]}[mid]
    osum = sum((SV_KEYS.index(k) + 1) * int(o[k]) for k in keys)
    return (x * 3 + 7 * mid + osum + 11 * w + 13 * t + 17 * t2) % SV_MOD


def coq_sops(case):
    def od(d):
        return clist(d, lambda p: "(%s, %s)" % (cnat(p[0]), copt(p[1], cz)))
    ops = []
    for op in case["ops"]:
        if op[0] == "opts":
            ops.append("SOpts %s" % od(op[1]))
        elif op[0] == "item":
            ops.append("SItem %s %s" % (cnat(op[1]), copt(op[2], cz)))
        elif op[0] == "start":
            ops.append("SStart %s %s" % (cz(op[1]), cz(op[2])))
        elif op[0] == "step":
            ops.append("SStep %s %s" % (cz(op[1]), copt(op[2], cz)))
        else:
            ops.append("SRun %s %s %s %s" % (cz(op[1]), cz(op[2]), clist(op[3], cz),
                                           copt(op[4], cz)))
    return "x_trace (fst (x_init %s %s)) %s" % (cz(case["w0"]), od(case["init"]), clist(ops))


def gen_solver_case(rng):
    ode = {1: [3, 4, 5], 2: [3, 6], 3: [4, 7]}
    vals = {3: [8, 9, 10], 4: [6, 7], 5: [2500, 1000, 5000], 6: [5, 3], 7: [0, 1]}

    def rdict(cur_m, with_method):
        d, m = [], cur_m
        if with_method:
            m = rng.choice([1, 2, 3])
            d.append((0, m))
        keys = list(ode[m])
        if rng.random() < 0.15:
            keys = [3, 4, 5, 6, 7]                 # may contain an unsupported key
        for k in rng.sample(keys, rng.randint(0, min(2, len(keys)))):
            d.append((k, rng.choice(vals[k] + [None])))
        if rng.random() < 0.3:
            d.append((rng.choice([1, 2]), rng.choice([0, 1])))
        rng.shuffle(d)
        return d, m
    m = rng.choice([1, 2, 3])
    init = [(0, m)] + [(k, rng.choice(vals[k] + [None]))
                       for k in rng.sample(ode[m], rng.randint(0, 2))]
    ops, t = [], 0
    for _ in range(rng.choice([3, 5, 8, 12])):
        r = rng.random()
        if r < 0.2:
            d, m2 = rdict(m, rng.random() < 0.5)
            ops.append(["opts", d])
            # the method may stay the old one when the assignment is refused
        elif r < 0.35:
            k = rng.choice([0, 1, 2, 3, 4, 5, 6, 7])
            v = rng.choice([1, 2, 3]) if k == 0 else rng.choice((vals.get(k) or [0, 1]) + [None])
            if k == 0 and v is None:
                v = 1
            ops.append(["item", k, v])
        elif r < 0.5:
            t = rng.randint(-3, 3)
            ops.append(["start", rng.randint(2, 50), t])
        elif r < 0.8:
            t += rng.randint(1, 3)
            ops.append(["step", t, rng.choice([None, None, 1, 2, 3])])
        else:
            t0 = rng.randint(-3, 3)
            tl = [t0 + i + 1 for i in range(rng.randint(0, 3))]
            t = tl[-1] if tl else t0
            ops.append(["run", rng.randint(2, 50), t0, tl, rng.choice([None, None, 1, 2, 3])])
    return {"solver": rng.choice(["se", "me"]), "w0": rng.choice([1, 2]), "init": init, "ops": ops}


def solver_protocol_part(ctx, rng, only=None):
    ncases = 150 if ctx.quick else 1500
    cases = [{"solver": "se", "w0": 1, "init": [(0, 1), (3, 10)],
              "ops": [["start", 5, 0], ["step", 1, None], ["opts", [(0, 3), (4, 6)]],
                      ["step", 2, 2], ["run", 7, 0, [1, 2], 3], ["step", 4, None],
                      ["item", 4, 7], ["step", 5, None], ["opts", [(0, 1), (3, 10)]],
                      ["step", 6, 3]]},
             {"solver": "me", "w0": 1, "init": [(0, 2)],
              "ops": [["start", 5, 0], ["step", 1, 2], ["run", 7, 0, [1, 2], 3], ["step", 4, 2],
                      ["step", 5, 2], ["run", 9, 0, [], 1], ["step", 1, 2]]}]
    if only is not None:
        cases, ncases = [only], 1
    while len(cases) < ncases:
        cases.append(gen_solver_case(rng))
    runs = [run_solver_impl(c) for c in cases]
    try:
        vals = vlib.coq_eval_values("cases_C11s", SV_HEADER, [coq_sops(c) for c in cases],
                                    chunk=150)
    except RuntimeError as e:
        ctx.violation("corr:C11:solver-model-eval", "coqc", "model evaluation failed",
                      {"log": str(e)}, found_input=False)
        return
    agree = 0
    for c, (pre, views, bad), v in sorted(zip(cases, runs, vals),
                                          key=lambda z: 0 if z[1][2] else 1):
        if bad:
            ctx.violation("solver_base.Solver:protocol", bad[0].split(":")[0], bad[0],
                          {"kind": "solverproto", "case": c})
        model = []
        for x in vlib.parse_coq_value(v):
            err, xs, evs, ov = x
            model.append((err, list(xs), [tuple(e) if isinstance(e, tuple) else (e,) for e in evs],
                          list(ov)))
        im = [(a, list(b), [tuple(list(e[:-1]) + [list(e[-1])]) if isinstance(e[-1], list) else e
                            for e in ev], list(o)) for a, b, ev, o in views]
        model = [(a, b, [tuple(list(e[:-1]) + [list(e[-1])]) if isinstance(e[-1], list) else e
                         for e in ev], o) for a, b, ev, o in model]
        ctx.count_case(("solverproto", json.dumps(c)), nontrivial=len(c["ops"]) >= 4)
        ctx.cov["traces_validated_against_impl"] += 1
        if im == model:
            agree += 1
            continue
        first = next((j for j in range(min(len(im), len(model))) if im[j] != model[j]), 0)
        ctx.violation("corr:solver_base.Solver", bad[0].split(":")[0] if bad else "model-differs",
                      "Solver (run/start/step/options) and its model disagree on a call history"
                      + ("; implementation violates the property: " + bad[0] if bad else ""),
                      {"kind": "solverproto", "case": c, "first_differing_op": first,
                       "op": c["ops"][first] if first < len(c["ops"]) else None,
                       "impl": [str(im[first])] if first < len(im) else None,
                       "model": [str(model[first])] if first < len(model) else None},
                      found_input=bool(bad))
    nfe = 0
    for c in cases:
        why = sv_fresh_equiv(c)
        nfe += 1
        if why:
            ctx.violation("solver_base.Solver:protocol", "differs-from-new-solver", why,
                          {"kind": "solverproto", "case": c})
    ctx.cov["solver_protocol_agreement"] = {"cases": len(cases), "agree": agree,
                                            "fresh_solver_equivalence_checked": nfe}
    ctx.sample({"solver_protocol_case": cases[0]})


def stochastic_part(ctx, rng):
    """StochasticSolver.run_from_experiment must leave the solver as it was:
    a later run(seed) equals the run of a fresh solver."""
    from qutip import Qobj, basis, ket2dm
    from qutip.solver.stochastic import SMESolver, SSESolver
    n = 2
    H0, H1, C = sys_matrices(3, 1)
    H = Qobj(H0[:2, :2])
    sc = [Qobj(np.array([[0, 0.5], [0, 0]], dtype=complex))]
    for cls, name in ((SMESolver, "sme"), (SSESolver, "sse")):
        wanted = ["euler", "platen"] if ctx.quick else ["euler", "platen", "milstein", "rouchon",
                                                        "pred_corr", "explicit1.5"]
        for method in [m for m in wanted if m in cls.avail_integrators()]:
            def mk():
                return cls(H, sc_ops=sc, heterodyne=False,
                           options={"method": method, "dt": 1 / 64.0,
                                    "store_measurement": True, "store_states": True,
                                    "progress_bar": ""})
            psi = basis(2, 0)
            tl = [i / 8.0 for i in range(5)]
            seed = 11
            try:
                ref = mk().run(psi, tl, ntraj=1, seeds=seed)
                ref_states = [x.full() for x in ref.average_states] if ref.average_states else \
                    [np.array(ref.expect)]
            except Exception:
                ref_states = None
            s = mk()
            dt0 = s._integrator.options["dt"]
            tl2 = [i / 4.0 for i in range(4)]
            noise = np.array([[0.5, -0.25, 0.125]])
            what = None
            try:
                s.run_from_experiment(psi, tl2, noise)
            except Exception:
                # the first use of a new object fails: not a question of history
                ctx.count_case(("stoch-unsupported", name, method), nontrivial=False)
                continue
            try:
                dt1 = s._integrator.options["dt"]
                got = s.run(psi, tl, ntraj=1, seeds=seed)
                got_states = [x.full() for x in got.average_states] if got.average_states else \
                    [np.array(got.expect)]
                bit, worst = same_states(got_states, ref_states)
                if dt1 != dt0 or not bit:
                    what = ("after run_from_experiment the integrator dt is %r (was %r); "
                            "run(seed) differs from a fresh solver by %.3g" % (dt1, dt0, worst))
                    sig = "integrator-dt-not-restored" if dt1 != dt0 else "later-run-differs"
            except Exception as e:
                what = "run_from_experiment / later run raises %s: %s" % (type(e).__name__, str(e)[:80])
                sig = "raises:" + type(e).__name__
            ctx.count_case(("stoch", name, method), nontrivial=True)
            if what:
                ctx.violation(SITE_SDT, sig, "%s/%s: %s" % (name, method, what),
                              {"kind": "stochastic", "solver": name, "method": method})


# ----------------------------------------- Explicit_RungeKutta bookkeeping
RK_HEADER = ("From Coq Require Import List ZArith Bool.\nImport ListNotations.\n"
             "From QV Require Import Model.C11_rk.\nOpen Scope Z_scope.\n")
RK_SHAPES = [(3, 1), (3, 3), (3, 2)]
RK_H = np.array([[0, 1, 0], [1, 1, 1], [0, 1, 2]], dtype=complex)


def rk_params(method):
    """(rk_extra_step, adaptive, tableau has dense-output coefficients)"""
    from qutip.solver.integrator.verner7efficient import vern7_coeff
    from qutip.solver.integrator.verner9efficient import vern9_coeff
    if method == "vern7":
        return vern7_coeff["c"].shape[0], True, vern7_coeff.get("bi") is not None
    if method == "vern9":
        return vern9_coeff["c"].shape[0], True, vern9_coeff.get("bi") is not None
    return (4 if method == "rk4" else 1), False, False


def rk_y0(shape_id):
    r, c = RK_SHAPES[shape_id]
    y = np.zeros((r, c), dtype=complex)
    for j in range(c):
        y[j % r, j] = 1
    return y


def run_rk_impl(case):
    """Drive a real Explicit_RungeKutta; returns views and the oracle stream
    (observed window fronts) for each op."""
    import scipy.linalg
    import qutip.core.data as _data
    from qutip import Qobj, QobjEvo
    from qutip.solver.integrator.explicit_rk import Explicit_RungeKutta
    L = QobjEvo(Qobj(-1j * RK_H))
    rk = Explicit_RungeKutta(L, 1e-6, 1e-8, 100000, 0, 0, 0, bool(case["interp"]),
                             case["method"])
    views, oracle, bad = [], [], []
    y0, t0 = None, None
    for op in case["ops"]:
        if op[0] == "set":
            y0, t0 = rk_y0(op[1]), float(op[2])
            raised = False
            try:
                rk.set_initial_value(_data.Dense(y0.copy()), t0)
            except ValueError:
                raised = True
            views.append((raised, 0, rk.t, rk.t_prev, rk.t_front))
            oracle.append(None)
            if raised:
                y0 = None
        else:
            t, step = float(op[1]), bool(op[2])
            p0, f0 = rk.t_prev, rk.t_front
            raised = False
            try:
                rk.integrate(t, step)
            except ValueError:
                raised = True
            st = int(rk.status)
            views.append((raised, st, rk.t, rk.t_prev, rk.t_front))
            if raised:
                oracle.append([f0 + 1.0])
            elif rk.t_front == f0:
                # no step, or a step of length < 1 ulp; the value is unused by
                # the model when the loop is not entered
                oracle.append([f0])
            elif rk.t_prev == f0:
                oracle.append([rk.t_front])
            else:
                oracle.append([rk.t_prev, rk.t_front])
            # the property itself on the implementation: window + state
            if not raised and st >= 0 and y0 is not None:
                if not (rk.t_prev <= rk.t <= rk.t_front):
                    bad.append("window broken: t_prev=%r t=%r t_front=%r" % (rk.t_prev, rk.t, rk.t_front))
                if not step and rk.t != t:
                    bad.append("integrate(%r) ended at %r with status %d" % (t, rk.t, st))
                exact = scipy.linalg.expm(-1j * RK_H * (rk.t - t0)) @ y0
                if case["method"] in ("vern7", "vern9") and \
                        np.abs(rk.y.to_array() - exact).max() > 1e-4:
                    atprev = scipy.linalg.expm(-1j * RK_H * (rk.t_prev - t0)) @ y0
                    if np.abs(rk.y.to_array() - atprev).max() < 1e-4:
                        bad.append("state-of-t_prev-reported-for-t: integrate(%r) inside the "
                                   "window reports t=%r but the state of t_prev=%r" % (
                                       t, rk.t, rk.t_prev))
                    else:
                        bad.append("wrong-state: state reported for t=%r is not the solution "
                                   "at t (validation, tol 1e-4)" % rk.t)
    return views, oracle, bad


def rk_scale(case, views, oracle):
    from fractions import Fraction
    vals = []
    for op in case["ops"]:
        vals.append(op[2] if op[0] == "set" else op[1])
    for v in views:
        vals += list(v[2:])
    for o in oracle:
        vals += list(o or [])
    den = 1
    for x in vals:
        den = max(den, Fraction(float(x)).denominator)
    return lambda x: int(Fraction(float(x)) * den)


def coq_rk_trace(case, oracle, sc, old_rule):
    n, adaptive, dense = rk_params(case["method"])
    ops = []
    for op, o in zip(case["ops"], oracle):
        if op[0] == "set":
            r, c = RK_SHAPES[op[1]]
            ops.append("OSet (%s, %s) %s" % (cz(r), cz(c), cz(sc(op[2]))))
        else:
            ops.append("OInt %s %s %s" % (cz(sc(op[1])), cbool(op[2]),
                                          clist([sc(x) for x in o], cz)))
    return "trace %s %s %s %s %s rk_new %s" % (cnat(n), cbool(adaptive), cbool(dense),
                                              cbool(case["interp"]), cbool(old_rule),
                                              clist(ops))


def gen_rk_case(rng):
    method = rng.choice(["vern7", "vern7", "vern9", "rk4", "euler"])
    interp = rng.random() < 0.75
    ops = []
    if rng.random() < 0.15:
        ops.append(["int", rng.randint(0, 16) / 8.0, rng.random() < 0.3])
    t = 0.0
    shape_mode = rng.choice(["same", "same", "mixed"])
    sh = rng.randrange(3)
    for _ in range(rng.choice([1, 2, 3])):
        if shape_mode == "mixed":
            sh = rng.randrange(3)
        t = rng.randint(-8, 8) / 8.0
        ops.append(["set", sh, t])
        for _ in range(rng.choice([1, 3, 6])):
            r = rng.random()
            if r < 0.55:
                t = t + rng.randint(1, 12) / 8.0        # forward
            elif r < 0.8:
                t = t - rng.randint(1, 4) / 16.0        # slightly back (inside / outside window)
            ops.append(["int", t, rng.random() < 0.35])
    return {"method": method, "interp": interp, "ops": ops}


def rk_part(ctx, rng, only=None):
    ncases = 120 if ctx.quick else 1200
    cases = [
        {"method": "vern7", "interp": True,
         "ops": [["set", 1, 0.0], ["int", 0.5, False], ["set", 0, 0.0], ["int", 0.5, False]]},
        {"method": "rk4", "interp": True,
         "ops": [["set", 0, 0.0], ["int", 0.5, False], ["set", 1, 0.0], ["int", 0.5, False],
                 ["int", 0.75, True]]},
        {"method": "vern7", "interp": False,
         "ops": [["set", 0, 0.0], ["int", 1.25, False], ["int", 1.0, False]]},
    ]
    if only is not None:
        cases, ncases = [only], 1
    while len(cases) < ncases:
        cases.append(gen_rk_case(rng))
    runs = [run_rk_impl(c) for c in cases]
    exprs = []
    scs = []
    for c, (views, oracle, bad) in zip(cases, runs):
        sc = rk_scale(c, views, oracle)
        scs.append(sc)
        exprs.append(coq_rk_trace(c, oracle, sc, False))
    for c, (views, oracle, bad), sc in zip(cases, runs, scs):
        exprs.append(coq_rk_trace(c, oracle, sc, True))
    try:
        vals = vlib.coq_eval_values("cases_C11rk", RK_HEADER, exprs, chunk=200)
    except RuntimeError as e:
        ctx.violation("corr:C11:rk-model-eval", "coqc", "model evaluation failed",
                      {"log": str(e)}, found_input=False)
        return
    n = len(cases)
    agree = {"source_only": 0, "old_rule_only": 0, "both": 0, "none": 0}
    dist = {}
    for i, (c, (views, oracle, bad), sc) in enumerate(zip(cases, runs, scs)):
        im = [(bool(v[0]), int(v[1]), sc(v[2]), sc(v[3]), sc(v[4])) for v in views]
        msrc = [tuple(x) for x in vlib.parse_coq_value(vals[i])]       # the source as it is
        mold = [tuple(x) for x in vlib.parse_coq_value(vals[n + i])]   # rule before abf9216
        a_src, a_old = im == msrc, im == mold
        key = ("both" if a_src and a_old else "source_only" if a_src else
               "old_rule_only" if a_old else "none")
        agree[key] += 1
        dist[c["method"]] = dist.get(c["method"], 0) + 1
        ctx.count_case(("rk", json.dumps(c)), nontrivial=len(c["ops"]) >= 3)
        ctx.cov["traces_validated_against_impl"] += 1
        raised = any(v[0] for v in views)
        if bad:
            site = "explicit_rk.Explicit_RungeKutta.integrate"
            if bad[0].startswith("state-of-t_prev"):
                site = SITE_NODENSE
            ctx.violation(site, bad[0].split(":")[0], bad[0], {"kind": "rk", "case": c})
        if a_src:
            continue
        first = next((j for j in range(min(len(im), len(msrc))) if im[j] != msrc[j]), 0)
        detail = {"kind": "rk", "case": c, "first_differing_op": first,
                  "impl": im[first:first + 1], "model_source": msrc[first:first + 1]}
        if a_old and raised:
            # regression to set_initial_value as it was before commit abf9216
            ctx.violation(SITE_RK, "reuse-with-other-state-shape-raises",
                          "Explicit_RungeKutta.%s raises on a reused object (stage buffers "
                          "keep the first shape)" % ("set_initial_value" if any(
                              v[0] and o[0] == "set" for v, o in zip(views, c["ops"])) else "integrate"),
                          detail)
        else:
            ctx.violation("corr:explicit_rk.Explicit_RungeKutta",
                          "raises" if raised else "model-differs",
                          "Explicit_RungeKutta and its model disagree on a call history"
                          + ("; a call raises although a new object accepts it" if raised else ""),
                          detail, found_input=raised)
    ctx.cov["rk_agreement"] = agree
    ctx.cov.setdefault("input_distribution", {})["rk"] = dist
    ctx.sample({"rk_case": cases[-1], "impl_views": [list(v) for v in runs[-1][0][:3]]})


def real_propagator_part(ctx, rng):
    """Validation (tolerance 1e-5, not a proof obligation): the real Propagator
    over real SESolver/MESolver integrators, reused vs fresh, and composition."""
    from qutip import Qobj, QobjEvo, sigmax, sigmaz, destroy
    from qutip.solver.propagator import Propagator

    def mk(kind):
        if kind == "cte":
            return Propagator(sigmax(), memoize=4)
        if kind == "td":
            return Propagator(QobjEvo([sigmaz(), [sigmax(), _coeff_w]], args={"w": 1}), memoize=4)
        return Propagator(sigmax(), c_ops=[destroy(2) / 2], memoize=4)

    hist = [[(0.5, 0), (0.25, 0), (1.0, 0.5), (0.75, 0), (1.0, 0), (2.0, 1.0), (0.5, 0)]]
    n = 2 if ctx.quick else 10
    for _ in range(n):
        h = []
        for _ in range(rng.randint(2, 7)):
            t, ts = rng.randint(0, 16) / 8.0, rng.choice([0, 0, rng.randint(0, 8) / 8.0])
            h.append((max(t, ts), min(t, ts)))      # forward queries only
        hist.append(h)
    back = [[(-0.5, 0), (1.0, 0)], [(-0.5, 0), (-1.0, 0)]]
    for kind in ("cte", "td", "me"):
        for h in hist + back:
            is_back = h in back
            P = mk(kind)
            worst, where = 0.0, None
            try:
                for (t, ts) in h:
                    got = P(t, ts).full()
                    ref = mk(kind)(t, ts).full()
                    d = float(np.abs(got - ref).max())
                    if d > worst:
                        worst, where = d, (t, ts)
                if not is_back:
                    t2, t1 = max(h[-1][0], 0.5) + 0.5, max(h[-1][0], 0.5)
                    comp = float(np.abs((P(t2, t1) @ P(t1, 0) - P(t2, 0)).full()).max())
                    if comp > worst:
                        worst, where = comp, ("composition", t2, t1)
            except Exception as e:
                worst, where = float("inf"), type(e).__name__
            ctx.count_case(("realprop", kind, repr(h)), nontrivial=True)
            if worst > 1e-5:
                if is_back:
                    sig = ("witness:backward-then-forward" if h == back[0]
                           else "witness:backward-twice")
                    ctx.violation(SITE_BACK, sig,
                                  "real %s Propagator differs from a fresh one by %.3g at %r "
                                  "after a backward query" % (kind, worst, where),
                                  {"kind": "realprop", "system": kind, "history": h})
                else:
                    ctx.violation("propagator.Propagator:real-solver", "forward-history-differs",
                                  "real %s Propagator differs from a fresh one by %.3g at %r "
                                  "(validation, tol 1e-5)" % (kind, worst, where),
                                  {"kind": "realprop", "system": kind, "history": h})


PROP_METHODS = ["adams", "bdf", "dop853", "lsoda", "vern7", "vern9", "diag"]


def run_memo_stability_case(case):
    """Real Propagator over a real integration method and default data type:
    every memo entry, re-read after later computations, must still be the
    matrix first handed out (bitwise) and the one a new object gives; no memo
    entry / answer may share memory with the integrator's state.
    Returns list of (signature, what)."""
    import qutip
    from qutip import Qobj, QobjEvo, destroy
    from qutip.solver.propagator import Propagator
    n = 3
    H0, H1, C = sys_matrices(n, 1)
    bad = []
    with qutip.CoreOptions(default_dtype=case["dtype"]):
        def mk():
            H = Qobj(H0) if not case["td"] else QobjEvo([Qobj(H0), [Qobj(H1), _coeff_w]],
                                                       args={"w": 1})
            c_ops = [Qobj(C)] if case["me"] else None
            opt = {"method": case["method"]}
            if case["method"] != "diag":
                # tight integration tolerances: the comparisons to tolerance below
                # (recomputed entries, new objects) are then far from 1e-5
                opt.update({"atol": 1e-11, "rtol": 1e-9})
            return Propagator(H, c_ops=c_ops, options=opt, memoize=case["memoize"])
        P = mk()
        first = {}
        for (t, ts) in case["qs"]:
            # answered from the memo?  (every time it needs is still stored)
            need = [(t - ts) / 8.0] if (P.cte and ts) else ([t / 8.0, ts / 8.0] if ts else [t / 8.0])
            from_memo = all(any(abs(x - y) <= P.tol for y in P.times) for x in need)
            U = P(t / 8.0, ts / 8.0)
            M = U.full().copy()
            key = (t, ts)
            if key in first:
                d = float(np.abs(first[key] - M).max())
                # bitwise while the entry is still stored; after an eviction the
                # propagator is legitimately recomputed from another memo point
                if (from_memo and d != 0.0) or d > 1e-5:
                    bad.append(("memo-entry-changed",
                                "P(%g, %g) asked again (%s) returns a matrix %.3g away from the "
                                "one first returned" % (t / 8.0, ts / 8.0,
                                                        "still in the memo" if from_memo
                                                        else "recomputed after eviction", d)))
            first.setdefault(key, M)
            # aliasing invariant
            st = P.solver._integrator.get_state(copy=False)[1]
            objs = list(P.props) + [U]
            for i, q in enumerate(objs):
                d = q.data
                same = d is st
                if not same and type(d).__name__ == "Dense" and type(st).__name__ == "Dense":
                    same = np.shares_memory(d.as_ndarray(), st.as_ndarray())
                if not same and type(st).__name__ == "Dense" and type(d).__name__ == "Dense" \
                        and st.shape != d.shape:
                    # column-stacked state of a master-equation propagator
                    same = np.shares_memory(d.as_ndarray(), st.as_ndarray())
                if same:
                    bad.append(("memo-entry-shares-integrator-buffer",
                                "%s shares memory with the integrator's state after P(%g, %g)" % (
                                    "the answer" if i == len(objs) - 1 else "memo entry %d" % i,
                                    t / 8.0, ts / 8.0)))
                    break
        # every distinct query against a new object (same method): the first
        # answers were computed along another path, so tolerance (validation)
        for (t, ts), M in first.items():
            ref = mk()(t / 8.0, ts / 8.0).full()
            if np.abs(ref - M).max() > 1e-5:
                bad.append(("differs-from-new-object", "P(%g, %g) is %.3g away from a new object" % (
                    t / 8.0, ts / 8.0, float(np.abs(ref - M).max()))))
                break
    seen, out = set(), []
    for sig, what in bad:
        if sig not in seen:
            seen.add(sig)
            out.append((sig, what))
    return out


def memo_stability_part(ctx, rng):
    cases = []
    fixed = [(2, 0), (6, 0), (2, 0), (9, 0), (6, 0), (6, 2), (2, 0), (9, 6), (9, 0)]
    for method in PROP_METHODS:
        for dtype in ("CSR", "Dense", "Dia"):
            for me, td in ((False, True), (True, False)):
                if method == "diag" and td:
                    td = False
                qs = list(fixed)
                if not ctx.quick:
                    qs += [(rng.randint(0, 12), rng.choice([0, 0, rng.randint(0, 6)]))
                           for _ in range(8)]
                    qs = [(max(a, b), min(a, b)) for a, b in qs]
                cases.append({"method": method, "dtype": dtype, "me": me, "td": td,
                              "memoize": rng.choice([3, 10]) if not ctx.quick else 10, "qs": qs})
    stats = {"cases": 0, "ok": 0, "violations": 0}
    for c in cases:
        stats["cases"] += 1
        ctx.count_case(("memostab", json.dumps(c)), nontrivial=True)
        try:
            bad = run_memo_stability_case(c)
        except Exception as e:
            bad = [("raises:" + type(e).__name__, str(e)[:100])]
        if not bad:
            stats["ok"] += 1
            continue
        stats["violations"] += 1
        for sig, what in bad[:2]:
            ctx.violation("propagator.Propagator:memo-stability", sig,
                          "Propagator(method=%s, default_dtype=%s, %s): %s" % (
                              c["method"], c["dtype"], "master equation" if c["me"] else "unitary",
                              what), {"kind": "memostab", "case": c})
    ctx.cov["memo_stability_real_methods"] = stats
    ctx.sample({"memo_stability_case": cases[0]})


# ---------------------------------------------------------------------- run
def run(ctx):
    rng = random.Random(ctx.seed * 7919 + 11)
    ctx.cov["rule"] = (
        "propagator case = (constant?, tol, memoize, initial args, history of "
        "(t, t_start, args-change)) drawn from forward / mixed / negative styles; "
        "non-trivial when the history has >= 2 queries; distinct by full case")
    ctx.cov["trusted_base"] += [
        "oracle (Section variables of Proofs/C11.v): operators form a group, "
        "U a t s is the exact evolution with U t s * U s r = U t r; a constant "
        "system is time-translation invariant and ignores args; the integrator "
        "behind Solver.step is exact (rounding / adaptive error outside)",
        "Model/C11.v is hand-written from propagator.py; tied by exact trace "
        "correspondence through tools/c11.py::ExactFlow (integer Heisenberg flow)",
        "Model/C11_rk.v is hand-written from explicit_rk.pyx (set_initial_value, "
        "integrate); step-size control, error estimate and dense output are an oracle "
        "(the observed window fronts are fed to the model); TOO_MUCH_WORK / DT_UNDERFLOW "
        "paths are modelled only as 'stop with a negative status'",
        "Model/C11_krylov.v (IntegratorKrylov _prepare / set_state / integrate) and "
        "Model/C11_zvode.v (IntegratorScipyAdams/BDF set_state / mcstep) are hand-written; "
        "Lanczos size, step bound and propagation (krylov; the bound is rounded down to 1/64 "
        "by the recording wrapper) and zvode's internal time after a step are oracles fed "
        "from the observed run; zvode enters by its documented contract (interpolation within "
        "one step behind tcur, itask 5 takes one step not beyond tcrit); times VODE returns as tcrit "
        "within its 100-uround fuzz of rwork[12] are canonicalised to rwork[12] (counted in the evidence)",
        "Model/C11_lsoda.v (IntegratorScipylsoda set_state / mcstep / _one_step / _backstep) is "
        "hand-written; lsoda enters by its contract, its (tcur, hu, hcur) after a call and the two "
        "float expressions fl(_front - rwork[11]) and the first target of _one_step are oracle "
        "inputs taken from the observed run; histories whose windows are at rounding scale are "
        "outside the exact bookkeeping (see known findings)",
        "fresh-vs-reused bitwise comparisons of real solvers are an implementation-level "
        "oracle (not a proof obligation); SciPy/LAPACK internals are outside; for krylov "
        "with krylov_dim < dimension the comparison is a validation with tolerance "
        "1e3*atol (the constructor sizes its step from a random ket)",
    ]

    def search(failed, log):
        r2 = random.Random(ctx.seed + 101)
        for _ in range(400):
            c = gen_prop_case(r2)
            o, _i = run_prop_impl(c)
            c.pop("_alias", None)
            c.pop("_sizes", None)
            c.pop("_aops", None)
            bad = prop_oracle(c, canon_impl_obs(o))
            if bad:
                ctx.violation("propagator.Propagator", bad[0][1].split("=")[0], bad[0][1],
                              {"kind": "propagator", "case": c, "failed_theorems": failed})
                return

    vlib.standard_proof_step(ctx, ["Props/C11.vo"], ["Props/C11.v"], search)
    propagator_part(ctx, rng)
    real_propagator_part(ctx, rng)
    memo_stability_part(ctx, rng)
    rk_part(ctx, rng)
    solver_reuse_part(ctx, rng)
    interleave_part(ctx, rng)
    options_assign_part(ctx, rng)
    special_state_part(ctx, rng)
    krylov_part(ctx, rng)
    zvode_part(ctx, rng)
    lsoda_part(ctx, rng)
    solver_protocol_part(ctx, rng)
    stochastic_part(ctx, rng)
    ctx.cov["explanation"] = (
        "Theorems (Props/C11.v) hold for every history of the model; the model is tied "
        "to propagator.py by exact equality of answers, memo, live integrator position "
        "and solver.step calls on generated histories.")


def replay(ctx, payload):
    d = payload["detail"]
    kind = d.get("kind", "propagator")
    if kind == "propagator":
        c = d["case"]
        o, _ = run_prop_impl(c)
        al = c.pop("_alias", [])
        c.pop("_sizes", None)
        c.pop("_aops", None)
        bad = prop_oracle(c, canon_impl_obs(o))
        if al and not bad:
            bad = [(al[0][0], "memo entries %r share memory with the integrator buffer" % (al[0][1],))]
        if bad:
            ctx.violation(payload["site"], payload["signature"], bad[0][1],
                          {"kind": "propagator", "case": c, "wrong": bad[:3]})
    elif kind == "reuse":
        hist = [tuple(tuple(x) if isinstance(x, list) else x for x in op) for op in d["history"]]
        pr = dict(d["probe"])
        pr["state"] = tuple(pr["state"])
        pr["tl"] = tuple(pr["tl"])
        inter = tuple(d["interleave"]) if d.get("interleave") else None
        r = run_reuse_case(d["spec"], hist, pr, inter)
        if r is not None and r[0] != "skip":
            ctx.violation(r[0], r[1], r[2], d)
    elif kind == "memostab":
        c = d["case"]
        c["qs"] = [tuple(q) for q in c["qs"]]
        for sig, what in run_memo_stability_case(c):
            ctx.violation(payload["site"], sig, what, d)
    elif kind == "interleave":
        ops = [tuple(tuple(x) if isinstance(x, list) else x for x in o) for o in d["ops"]]
        suffix, wj = il_reference_suffix(ops)
        ref = il_exec(d["spec"], mk_solver(d["spec"], w=wj), suffix)
        got = il_exec(d["spec"], mk_solver(d["spec"], w=1), ops)
        bit, worst = same_states(got, ref)
        if not bit:
            ctx.violation(payload["site"], payload["signature"],
                          "interleaved history differs by %.3g from a new solver" % worst, d)
    elif kind == "optdict":
        c = d["case"]
        c["assign"] = [(a[0], a[1]) for a in c["assign"]]
        r = run_options_case(c)
        if r is not None:
            ctx.violation(payload["site"], r[0], r[1], d)
    elif kind == "special":
        r = run_special_case(d["case"])
        if r is not None and r[0] not in ("skip", "within"):
            ctx.violation(r[0], r[1], r[2], d)
    elif kind == "solverproto":
        c = d["case"]
        c["init"] = [tuple(p) for p in c["init"]]
        for op in c["ops"]:
            if op[0] == "opts":
                op[1] = [tuple(p) for p in op[1]]
        solver_protocol_part(ctx, random.Random(0), only=c)
    elif kind == "lsoda":
        lsoda_part(ctx, random.Random(0), only=d["case"])
    elif kind == "zvode":
        zvode_part(ctx, random.Random(0), only=d["case"])
    elif kind == "krylov":
        krylov_part(ctx, random.Random(0), only=d["case"])
    elif kind == "stochastic":
        stochastic_part(ctx, random.Random(0))
    elif kind == "rk":
        rk_part(ctx, random.Random(0), only=d.get("case"))
