"""C05 - time-dependent operators and coefficients evaluate pointwise in time.

Proof step: coq/Props/C05.v (theorems over Model/C05.v for every algebra, every
expression tree).

Tie (K): random and systematic expression trees - leaves: constant, pair
with function / constant / sampled (InterCoefficient.restore, orders 0-3 on
integer grids) coefficients and their sums (Coefficient.__add__, add_inter),
products, conj, norm, operator-valued functions and function coefficients with
pythonic signatures (required or defaulted parameters, possibly omitted at
construction), **kw and dict signatures; operations incl. QobjEvo(a, args=..),
a.arguments(**n), a.arguments(n), a(t, **n), a(t, n) - are
built simultaneously as real QobjEvo objects and as terms `qx G2 ZT` of the Coq
model; Coefficient.__add__ is also compared on its own (value and class of the
result: fused InterCoefficient or SumCoefficient); copy(), pickling and division
by a unit are tree operations of the model; states are operator states and kets
in Dense, CSR and Dia storage (a ket is compared with the first column of the
model's product and with the model's expectation on |ket><ket|); the
superoperator / tensor lifts (spre, spost, sprepost, liouvillian,
lindblad_dissipator, tensor, with Qobj or QobjEvo operands) are compared with
the model over a 4x4 universe (Model/C05_g4.v; values exact except where the
scalar 0.5 enters, there element kinds only); `__call__`, `_call`,
`matmul_data` (Dense and CSR state), `expect_data` (Dense and CSR state) and
the element kinds (type names, stack lengths, conj flags, recursively) are
compared exactly (Gaussian-integer entries, integer polynomials in t, integer
times).  The Coq side also evaluates the specification `sem` of the tree
theorem so that the NumPy oracle below is itself tied to the statement proved.

Oracle (always run): the same tree is evaluated pointwise with NumPy on the
constituents' values; the real object must agree for __call__, matmul_data,
expect_data, and - outside the modelled core - copy, pickle, division, tensor / superoperator lifts, ket states, Coefficient
algebra, and sampled (array) coefficients of orders 0-3 as leaves: their sums,
products, conj, norm and the merging of terms that share an operator
(compress / constructor / add_inter) for every relation between the two time
grids (identical, stretched or shifted by 2^-1 .. 2^-40, longer, refined,
other order) at time scales 1e-9 .. 1e3, at sample times, midpoints, quarter
points and outside the range.  The reference for a sampled leaf is that leaf
evaluated on its own, so only the algebra is judged (exactly for orders 0/1 on
power-of-two grids, to 1e-12 of the constituents' magnitude otherwise).
A disagreement is localised to a minimal failing sub-tree and
attributed to a site by inspecting the real elements.
"""
import json
import os
import pickle
import random
import re

import numpy as np

import vlib

SITE_MUL = "qutip/core/cy/_element.pyx:_ProdElement.__mul__"
SIG_MUL = "scalar-conjugated-by-antilinear-stack"
SITE_MDT = "qutip/core/cy/_element.pyx:_ProdElement.matmul_data_t"
SIG_MDT = "TypeError-out-None-with-transform"
SITE_ADDI = "qutip/core/cy/coefficient.pyx:add_inter"
SIG_ADDI_ABS = "different-grids-within-1e-15-absolute-fused"
SIG_ADDI_OTHER = "different-grids-beyond-1e-15-fused"

# The Coq model mirrors qutip after the two repairs found by this check
# (7dc9384: _ProdElement.__mul__ conjugates the factor under a conjugating
# stack; c657c42: _ProdElement.matmul_data_t handles out=None).  The former
# rules survive in the model only as old_scale / old_mdt / old_build with
# Examples; known_findings.json lists both as "fixed" (suppresses nothing).
MODEL_VARIANT = "post-7dc9384-c657c42"

LIMIT = 1 << 40          # magnitude bound keeping every float operation exact

HEADER = r"""From Coq Require Import List ZArith Bool.
Import ListNotations.
From QV Require Import Model.C05 Proofs.C05.
Open Scope Z_scope.
Definition fac (st : dstate) : Z := getd st 0 1 + 2 * getd st 1 0 + 4 * getd st 2 0.
Definition cfun (p : list GI) : coef G2 ZT :=
  @CFun G2 ZT (fun _ t => cpoly p t) (dinit (Some []) []).
Definition cfunw (p : list GI) (w : Z) : coef G2 ZT :=
  @CFun G2 ZT (fun a t => gmul (gofZ (getd a 0 1)) (cpoly p t)) (dinit (Some [0]) [(0, w)]).
Definition cfuns (p : list GI) (ps : option (list Z)) (a0 : dict) : coef G2 ZT :=
  @CFun G2 ZT (fun a t => gmul (gofZ (fac a)) (cpoly p t)) (dinit ps a0).
Definition cinter (g : list Z) (rows : list (list GI)) : coef G2 ZT :=
  @CInter G2 ZT (@Build_inter G2 ZT g rows).
Definition ccst (z : GI) : coef G2 ZT := @CConst G2 ZT z.
Definition cadd (a b : coef G2 ZT) : coef G2 ZT := coef_add G2 ZT a b.
Definition xconst (q : M2) : qx G2 ZT := @XConst G2 ZT q.
Definition xpair (q : M2) (c : coef G2 ZT) : qx G2 ZT := @XPair G2 ZT q c.
Definition xfunc (p : list M2) : qx G2 ZT :=
  @XFunc G2 ZT (fun _ t => (mpoly p t)) (dinit (Some []) []).
Definition xfuncw (p : list M2) (w : Z) : qx G2 ZT :=
  @XFunc G2 ZT (fun a t => (scale2 (gofZ (getd a 0 1)) (mpoly p t))) (dinit (Some [0]) [(0, w)]).
Definition xfuncs (p : list M2) (ps : option (list Z)) (a0 : dict) : qx G2 ZT :=
  @XFunc G2 ZT (fun a t => (scale2 (gofZ (fac a)) (mpoly p t))) (dinit ps a0).
Definition xlist (l : list (M2 * option (coef G2 ZT))) : qx G2 ZT := @XList G2 ZT l.
Definition xaddq (a : qx G2 ZT) (q : M2) : qx G2 ZT := @XAddQ G2 ZT a q.
Definition xaddnum (a : qx G2 ZT) (z : GI) : qx G2 ZT := @XAddNum G2 ZT a z.
Definition xmulnum (a : qx G2 ZT) (z : GI) : qx G2 ZT := @XMulNum G2 ZT a z.
Definition xmatmulq (a : qx G2 ZT) (q : M2) : qx G2 ZT := @XMatmulQ G2 ZT a q.
Definition xrmatmulq (q : M2) (a : qx G2 ZT) : qx G2 ZT := @XRmatmulQ G2 ZT q a.
Definition xargs (a : qx G2 ZT) (n : dict) : qx G2 ZT := @XArgs G2 ZT a n.
Definition xarguments (a : qx G2 ZT) (n : dict) : qx G2 ZT := @XArguments G2 ZT a n.
Definition tto : tr G2 := @TTo G2.
Definition tlmul (q : M2) : tr G2 := @TLmul G2 q.
Definition trmul (q : M2) : tr G2 := @TRmul G2 q.
Definition flatg (g : GI) : list Z := [fst g; snd g].
Definition flat2 (m : M2) : list Z :=
  flatg (e11 m) ++ flatg (e12 m) ++ flatg (e21 m) ++ flatg (e22 m).
(* s: operator state; sk: the ket (first column of s) as a matrix with a zero
   second column; pj: |ket><ket| *)
Definition obs (x : qx G2 ZT) (t : Z) (s sk pj : M2) :=
  let es := build G2 ZT x in
  (flat2 (qe_call G2 ZT es t), flat2 (qe__call G2 ZT es t),
   option_map flat2 (qe_matmul_data G2 ZT es t s),
   flatg (qe_expect G2 ZT es t s),
   map (kind_of G2 ZT) es,
   flat2 (sem G2 ZT x t),
   option_map flat2 (qe_matmul_data G2 ZT es t sk),
   flatg (qe_expect G2 ZT es t pj)).
(* Coefficient.__add__ : value at t and class of the result *)
Definition cobs (a b : coef G2 ZT) (t : Z) :=
  (flatg (ceval G2 ZT (coef_add G2 ZT a b) t), ckind_of G2 ZT (coef_add G2 ZT a b),
   flatg (gadd (ceval G2 ZT a t) (ceval G2 ZT b t))).
"""

HEADER4 = r"""From Coq Require Import List ZArith Bool.
Import ListNotations.
From QV Require Import Model.C05 Model.C05_g4 Proofs.C05 Proofs.C05_g4.
Open Scope Z_scope.
Definition fac4 (st : dstate) : Z := getd st 0 1 + 2 * getd st 1 0 + 4 * getd st 2 0.
Definition cfun4 (p : list GI) : coef G4 ZT4 :=
  @CFun G4 ZT4 (fun _ t => cpoly p t) (dinit (Some []) []).
Definition cfunw4 (p : list GI) (w : Z) : coef G4 ZT4 :=
  @CFun G4 ZT4 (fun a t => gmul (gofZ (getd a 0 1)) (cpoly p t)) (dinit (Some [0]) [(0, w)]).
Definition cfuns4 (p : list GI) (ps : option (list Z)) (a0 : dict) : coef G4 ZT4 :=
  @CFun G4 ZT4 (fun a t => gmul (gofZ (fac4 a)) (cpoly p t)) (dinit ps a0).
Definition cinter4 (g : list Z) (rows : list (list GI)) : coef G4 ZT4 :=
  @CInter G4 ZT4 (@Build_inter G4 ZT4 g rows).
Definition ccst4 (z : GI) : coef G4 ZT4 := @CConst G4 ZT4 z.
Definition cadd4 (a b : coef G4 ZT4) : coef G4 ZT4 := coef_add G4 ZT4 a b.
Definition xconst4 (q : M4) : qx G4 ZT4 := @XConst G4 ZT4 q.
Definition xpair4 (q : M4) (c : coef G4 ZT4) : qx G4 ZT4 := @XPair G4 ZT4 q c.
Definition xfunc4 (p : list M2) : qx G4 ZT4 :=
  @XFunc G4 ZT4 (fun _ t => (emb (mpoly p t))) (dinit (Some []) []).
Definition xfuncw4 (p : list M2) (w : Z) : qx G4 ZT4 :=
  @XFunc G4 ZT4 (fun a t => (emb (scale2 (gofZ (getd a 0 1)) (mpoly p t)))) (dinit (Some [0]) [(0, w)]).
Definition xfuncs4 (p : list M2) (ps : option (list Z)) (a0 : dict) : qx G4 ZT4 :=
  @XFunc G4 ZT4 (fun a t => (emb (scale2 (gofZ (fac4 a)) (mpoly p t)))) (dinit ps a0).
Definition xlist4 (l : list (M4 * option (coef G4 ZT4))) : qx G4 ZT4 := @XList G4 ZT4 l.
Definition xaddq4 (a : qx G4 ZT4) (q : M4) : qx G4 ZT4 := @XAddQ G4 ZT4 a q.
Definition xaddnum4 (a : qx G4 ZT4) (z : GI) : qx G4 ZT4 := @XAddNum G4 ZT4 a z.
Definition xmulnum4 (a : qx G4 ZT4) (z : GI) : qx G4 ZT4 := @XMulNum G4 ZT4 a z.
Definition xmatmulq4 (a : qx G4 ZT4) (q : M4) : qx G4 ZT4 := @XMatmulQ G4 ZT4 a q.
Definition xrmatmulq4 (q : M4) (a : qx G4 ZT4) : qx G4 ZT4 := @XRmatmulQ G4 ZT4 q a.
Definition xargs4 (a : qx G4 ZT4) (n : dict) : qx G4 ZT4 := @XArgs G4 ZT4 a n.
Definition xarguments4 (a : qx G4 ZT4) (n : dict) : qx G4 ZT4 := @XArguments G4 ZT4 a n.
Definition tto4 : tr G4 := @TTo G4.
Definition tlmul4 (q : M4) : tr G4 := @TLmul G4 q.
Definition trmul4 (q : M4) : tr G4 := @TRmul G4 q.
Definition mi4 : GI := (0, -1).
Definition h4 : GI := (1, 0).   (* stands for 0.5 where only the element kinds are compared *)
Definition l_spre (a : qx G4 ZT4) := XLinMap t_spre a.
Definition l_spost (a : qx G4 ZT4) := XLinMap t_spost a.
Definition l_sprepost (a b : qx G4 ZT4) := x_sprepost G4 ZT4 t_spre t_spost a b.
Definition l_sprepost_qb (q : M2) (b : qx G4 ZT4) := @XRmatmulQ G4 ZT4 (spre_f (emb q)) (XLinMap t_spost b).
Definition l_sprepost_aq (a : qx G4 ZT4) (q : M2) := @XMatmulQ G4 ZT4 (XLinMap t_spre a) (spost_f (emb q)).
Definition l_liouvillian (H : qx G4 ZT4) (cs : list (qx G4 ZT4)) :=
  x_liouvillian G4 ZT4 t_spre t_spost mi4 h4 H cs.
Definition l_dissipator (a b : qx G4 ZT4) := x_dissipator G4 ZT4 t_spre t_spost h4 a b.
Definition l_tensor (a b : qx G4 ZT4) := x_tensor G4 ZT4 t_tens_l t_tens_r a b.
Definition l_tensor_qb (q : M2) (b : qx G4 ZT4) := XLinMap (t_tens_ql q) b.
Definition l_tensor_aq (a : qx G4 ZT4) (q : M2) := XLinMap (t_tens_qr q) a.
Definition obs4 (x : qx G4 ZT4) (t : Z) (s : M4) :=
  let es := build G4 ZT4 x in
  (flat4 (qe_call G4 ZT4 es t), flat4 (qe__call G4 ZT4 es t),
   option_map flat4 (qe_matmul_data G4 ZT4 es t s),
   flatg4 (qe_expect G4 ZT4 es t s),
   map (kind_of G4 ZT4) es,
   flat4 (sem G4 ZT4 x t)).
"""
# --------------------------------------------------------------- leaf callables
# module-level classes so that objects built from them can be pickled
def _qobj(arr):
    import qutip
    return qutip.Qobj(np.array(arr, dtype=complex), dims=[[2], [2]])


def _m_np(m):
    return np.array([[complex(*m[0]), complex(*m[1])],
                     [complex(*m[2]), complex(*m[3])]], dtype=complex)


class MatPoly:
    """t -> Qobj(sum_k M_k t^k)"""
    def __init__(self, mats):
        self.mats = mats

    def __call__(self, t):
        out = np.zeros((2, 2), dtype=complex)
        for k, m in enumerate(self.mats):
            out = out + _m_np(m) * (t ** k)
        return _qobj(out)


class MatPolyW:
    """(t, w) -> Qobj(w * sum_k M_k t^k)"""
    def __init__(self, mats):
        self.mats = mats

    def __call__(self, t, w):
        out = np.zeros((2, 2), dtype=complex)
        for k, m in enumerate(self.mats):
            out = out + _m_np(m) * (t ** k)
        return _qobj(w * out)


def _fac(d):
    return d.get("w", 1) + 2 * d.get("phi", 0) + 4 * d.get("k", 0)


class MatPolyP:
    """pythonic signature with defaulted parameters: (t, w=1, phi=0)"""
    def __init__(self, mats):
        self.mats = mats

    def __call__(self, t, w=1, phi=0):
        return _qobj((w + 2 * phi) * mpoly_np(self.mats, t))


class MatPolyKW:
    """**kw signature: any argument name reaches the function"""
    def __init__(self, mats):
        self.mats = mats

    def __call__(self, t, **kw):
        return _qobj(_fac(kw) * mpoly_np(self.mats, t))


class MatPolyD:
    """QuTiP-4 dict signature f(t, args)"""
    def __init__(self, mats):
        self.mats = mats

    def __call__(self, t, args):
        return _qobj(_fac(args) * mpoly_np(self.mats, t))


class CoefPolyP:
    def __init__(self, cs):
        self.cs = cs

    def __call__(self, t, w=1, phi=0):
        return (w + 2 * phi) * sum(complex(*c) * (t ** k) for k, c in enumerate(self.cs))


class CoefPolyKW:
    def __init__(self, cs):
        self.cs = cs

    def __call__(self, t, **kw):
        return _fac(kw) * sum(complex(*c) * (t ** k) for k, c in enumerate(self.cs))


class CoefPolyD:
    def __init__(self, cs):
        self.cs = cs

    def __call__(self, t, args):
        return _fac(args) * sum(complex(*c) * (t ** k) for k, c in enumerate(self.cs))


MATCLS = {"py": MatPolyP, "kw": MatPolyKW, "dict": MatPolyD}
COEFCLS = {"py": CoefPolyP, "kw": CoefPolyKW, "dict": CoefPolyD}
KEYS = {"w": 0, "phi": 1, "k": 2}
PARAMS = {"req": ["w"], "py": ["w", "phi"], "kw": None, "dict": None}


def argd(n):
    """replacement dictionary of an "args" node (an int is the legacy {"w": n})"""
    return {"w": n} if isinstance(n, int) else dict(n)


def leaf_factor(style, a0, ov):
    """what a function leaf multiplies its polynomial with: the args given at
    construction restricted to its declared parameters, then every replacement of a
    declared parameter (every name for **kw / dict style), defaults otherwise"""
    ps = PARAMS[style]
    d = {k: v for k, v in a0.items() if ps is None or k in ps}
    for k, v in (ov or {}).items():
        if ps is None or k in ps:
            d[k] = v
    return d["w"] if style == "req" else _fac(d)


class CoefPoly:
    def __init__(self, cs):
        self.cs = cs

    def __call__(self, t):
        return sum(complex(*c) * (t ** k) for k, c in enumerate(self.cs))


class CoefPolyW:
    def __init__(self, cs):
        self.cs = cs

    def __call__(self, t, w):
        return w * sum(complex(*c) * (t ** k) for k, c in enumerate(self.cs))


class LMul:
    def __init__(self, m):
        self.m = m

    def __call__(self, q):
        return _qobj(_m_np(self.m)) @ q


class RMul:
    def __init__(self, m):
        self.m = m

    def __call__(self, q):
        return q @ _qobj(_m_np(self.m))


# ------------------------------------------------------------------ generators
def g_gi(rng, real=False, lim=2):
    if real or rng.random() < 0.35:
        return [rng.randint(-lim, lim), 0]
    return [rng.randint(-lim, lim), rng.randint(-lim, lim)]


def g_mat(rng):
    style = rng.random()
    if style < 0.15:
        return rng.choice([
            [[0, 0], [1, 0], [1, 0], [0, 0]],          # sigmax
            [[0, 0], [0, -1], [0, 1], [0, 0]],         # sigmay
            [[1, 0], [0, 0], [0, 0], [-1, 0]],         # sigmaz
            [[0, 0], [1, 0], [0, 0], [0, 0]],          # sigmam^T
            [[1, 0], [0, 0], [0, 0], [1, 0]]])         # identity
    return [g_gi(rng) for _ in range(4)]


GRIDS = [[-2, 0, 1, 3], [-3, -1, 2], [0, 2, 4], [-4, -2, 0, 2, 4], [-1, 1], [-2, 0, 1, 4]]


def g_ipoly(rng, grid=None, order=None):
    """InterCoefficient.restore(tlist, poly): integer grid, Gaussian-integer
    polynomial pieces of order 0-3 (no continuity required)"""
    grid = grid or (rng.choice(GRIDS) if rng.random() < 0.8
                    else sorted(rng.sample(range(-4, 5), rng.randint(2, 5))))
    order = rng.randint(0, 3) if order is None else order
    rows = [[g_gi(rng) for _ in grid] for _ in range(order + 1)]
    return ["ipoly", list(grid), rows]


def g_args0(rng):
    """args given at construction: often leaves the defaulted parameters out"""
    r = rng.random()
    d = {}
    if r < 0.45:
        d["w"] = rng.randint(-2, 3)
    elif r < 0.6:
        d["phi"] = rng.randint(-1, 1)
    elif r < 0.75:
        d = {"w": rng.randint(-2, 3), "phi": rng.randint(-1, 1)}
    if rng.random() < 0.2:
        d["k"] = rng.randint(-1, 1)      # not a parameter of the pythonic signature
    return d


def g_repl(rng):
    """replacement dictionary: often only parameters with a default"""
    r = rng.random()
    if r < 0.3:
        return {"phi": rng.randint(-1, 1)}
    if r < 0.45:
        return {"k": rng.randint(-1, 1)}
    if r < 0.65:
        return {"w": rng.randint(-2, 3)}
    if r < 0.85:
        return {"w": rng.randint(-2, 3), "phi": rng.randint(-1, 1)}
    return {"phi": rng.randint(-1, 1), "k": rng.randint(-1, 1)}


def g_coef(rng, depth=2, allow_w=False):
    r = rng.random()
    if r < 0.14:
        return g_ipoly(rng)
    if depth <= 0 or r < 0.5:
        deg = rng.randint(0, 2)
        cs = [g_gi(rng) for _ in range(deg + 1)]
        if all(c == [0, 0] for c in cs):
            cs[0] = [1, 1]
        if allow_w and rng.random() < 0.45:
            if rng.random() < 0.35:
                return ["funw", cs, rng.randint(1, 3)]
            return ["funs", cs, rng.choice(["py", "kw", "dict"]), g_args0(rng)]
        return ["fun", cs]
    if r < 0.58:
        return ["const", g_gi(rng)]
    if r < 0.72:
        return ["sum", g_coef(rng, depth - 1, allow_w), g_coef(rng, depth - 1, allow_w)]
    if r < 0.86:
        return ["mul", g_coef(rng, depth - 1, allow_w), g_coef(rng, depth - 1, allow_w)]
    if r < 0.95:
        return ["conj", g_coef(rng, depth - 1, allow_w)]
    return ["norm", g_coef(rng, depth - 1, allow_w)]


def g_leaf(rng, ext):
    ext = True            # function leaves with an argument `w` are part of the modelled core
    r = rng.random()
    if r < 0.2:
        return ["const", g_mat(rng)]
    if r < 0.45:
        return ["pair", g_mat(rng), g_coef(rng, 1, ext)]
    if r < 0.8:
        deg = rng.randint(0, 2)
        mats = [g_mat(rng) for _ in range(deg + 1)]
        if ext and rng.random() < 0.45:
            if rng.random() < 0.35:
                return ["funcw", mats, rng.randint(1, 3)]
            return ["funcs", mats, rng.choice(["py", "kw", "dict"]), g_args0(rng)]
        return ["func", mats]
    n = rng.randint(2, 4)
    items = []
    pool = [g_mat(rng) for _ in range(2)]
    for _ in range(n):
        m = rng.choice(pool) if rng.random() < 0.6 else g_mat(rng)
        items.append([m, None if rng.random() < 0.4 else g_coef(rng, 1, ext)])
    return ["list", items]


CORE_UN = ["neg", "trans", "conj", "dag", "compress", "ctor"]


def g_tree(rng, depth, ext=False):
    if depth <= 0 or rng.random() < 0.12:
        return g_leaf(rng, ext)
    r = rng.random()
    a = g_tree(rng, depth - 1, ext)
    if r < 0.13:
        return ["add", a, g_tree(rng, depth - 1, ext)]
    if r < 0.18:
        return ["sub", a, g_tree(rng, depth - 1, ext)]
    if r < 0.215:
        return ["addq", a, g_mat(rng)]
    if r < 0.24:
        return ["addnum", a, g_gi(rng)]
    if r < 0.36:
        z = g_gi(rng)
        if rng.random() < 0.5:
            z = rng.choice([[0, 1], [0, -1], [1, 1], [2, 0], [-1, 0], [1, -2]])
        return ["mulnum", a, z, rng.choice(["l", "r"])]
    if r < 0.42:
        return ["mulcoef", a, g_coef(rng, 1, True), rng.choice(["l", "r"])]
    if r < 0.52:
        return ["matmul", a, g_tree(rng, depth - 2, ext)]
    if r < 0.58:
        return ["matmulq", a, g_mat(rng)]
    if r < 0.64:
        return ["rmatmulq", g_mat(rng), a]
    if r < 0.84:
        return [rng.choice(["dag", "dag", "conj", "trans", "neg", "compress", "ctor"]), a]
    if r < 0.90:
        k = rng.random()
        if k < 0.4:
            f = ["to", rng.choice(["Dense", "CSR", "Dia"])]
        elif k < 0.7:
            f = ["lmul", g_mat(rng)]
        else:
            f = ["rmul", g_mat(rng)]
        return ["linmap", f, a]
    if r < 0.95:
        return ["args", a, g_repl(rng),
                rng.choice(["call", "calld", "arguments", "argumentsd", "ctor"])]
    k = rng.random()
    if k < 0.35:
        return ["copy", a]
    if k < 0.7:
        return ["pickle", a]
    units = [[0, 1], [0, -1], [-1, 0], [1, 0]]
    return ["div", a, rng.choice(units + [[2, 0], [4, 0], [0, 2]] if ext else units)]


def g_chain(rng, ext=False):
    """the nestings the term algebra is sensitive to: a product whose factors
    carry non-real coefficients, under a chain of unary operations"""
    def factor():
        r = rng.random()
        f = ["func", [g_mat(rng) for _ in range(rng.randint(1, 2))]]
        if r < 0.3:
            return f
        if r < 0.55:
            return ["mulnum", f, rng.choice([[0, 1], [1, 1], [1, -2], [2, 1]]), "r"]
        if r < 0.8:
            return ["pair", g_mat(rng), ["fun", [g_gi(rng), [rng.choice([-1, 1]), rng.choice([-2, -1, 1, 2])]]]]
        if r < 0.9:
            return [rng.choice(["dag", "conj", "trans"]), f]
        return ["const", g_mat(rng)]
    x = ["matmul", factor(), factor()]
    if rng.random() < 0.3:
        x = ["matmul", x, factor()] if rng.random() < 0.5 else ["matmul", factor(), x]
    for _ in range(rng.randint(2, 5)):
        r = rng.random()
        if r < 0.5:
            x = [rng.choice(["dag", "conj", "dag", "conj", "trans"]), x]
        elif r < 0.6:
            x = ["mulnum", x, rng.choice([[2, 0], [-1, 0], [0, 1], [1, 1], [-2, 0]]), rng.choice("lr")]
        elif r < 0.68:
            x = ["neg", x]
        elif r < 0.76:
            x = ["matmulq", x, g_mat(rng)]
        elif r < 0.84:
            x = ["rmatmulq", g_mat(rng), x]
        elif r < 0.9:
            x = ["mulcoef", x, g_coef(rng, 1), rng.choice("lr")]
        elif r < 0.95:
            x = ["linmap", ["to", rng.choice(["Dense", "CSR", "Dia"])], x]
        else:
            x = ["matmul", x, factor()] if rng.random() < 0.5 else ["matmul", factor(), x]
    if ext:
        k = rng.random()
        if k < 0.4:
            x = ["pickle", x]
        elif k < 0.7:
            x = ["copy", x]
        else:
            x = ["div", x, rng.choice([[2, 0], [0, 1], [0, -2]])]
    return x


EXT_OPS = {"arr"}
UNITS = {(1, 0): (1, 0), (-1, 0): (-1, 0), (0, 1): (0, -1), (0, -1): (0, 1)}   # z -> 1/z


def is_core(tree):
    if isinstance(tree, list):
        if tree and isinstance(tree[0], str) and tree[0] in EXT_OPS:
            return False
        if tree and tree[0] == "div" and len(tree) == 3 and tuple(tree[2]) not in UNITS:
            return False          # 1/z is not a Gaussian integer: NumPy oracle only
        return all(is_core(x) for x in tree)
    return True


def n_terms(tree):
    """number of elements the tree builds (upper bound)"""
    op = tree[0]
    if op in ("const", "pair", "func", "funcw", "funcs"):
        return 1
    if op == "list":
        return len(tree[1])
    if op in ("add", "sub"):
        return n_terms(tree[1]) + n_terms(tree[2])
    if op == "matmul":
        return n_terms(tree[1]) * n_terms(tree[2])
    if op in ("addq", "addnum"):
        return n_terms(tree[1]) + 1
    if op == "rmatmulq":
        return n_terms(tree[2])
    if op == "linmap":
        return n_terms(tree[2])
    return n_terms(tree[1])


# ---------------------------------------------------------------- NumPy oracle
def gi_c(z):
    return complex(z[0], z[1])


# ---- sampled (array) coefficients: leaf ["arr", samples, tlist, order]
_LEAF = {}
POLY_OPS = {"fun", "funw", "funs", "func", "funcw", "funcs"}


def _arr_new(c):
    from qutip.core.coefficient import coefficient
    return coefficient(np.array([gi_c(y) for y in c[1]], dtype=complex),
                       tlist=np.array(c[2], dtype=float), order=int(c[3]))


def arr_leaf(c):
    """the constituent itself: a stand-alone InterCoefficient (cached)"""
    k = json.dumps(c)
    if k not in _LEAF:
        _LEAF[k] = _arr_new(c)
    return _LEAF[k]


def arr_leaves(x, acc=None):
    acc = [] if acc is None else acc
    if isinstance(x, list):
        if x and x[0] == "arr" and len(x) == 4:
            if x not in acc:
                acc.append(x)
        else:
            for y in x:
                arr_leaves(y, acc)
    return acc


def _is_pow2(v):
    m, _ = np.frexp(v)
    return v > 0 and m == 0.5


def arr_exact(c):
    """order 0/1 on a grid whose gaps are powers of two and whose origin is a
    small multiple of the smallest gap: every operation on it is exact"""
    tl = np.array(c[2], dtype=float)
    gaps = np.diff(tl)
    if c[3] > 1 or not all(_is_pow2(g) for g in gaps):
        return False
    q = tl[0] / gaps.min()
    return q == int(q) and abs(q) < 1024


def cmp_mode(x):
    leaves = arr_leaves(x)
    if not leaves:
        return "exact"
    if all(arr_exact(l) for l in leaves) and not has_op(x, POLY_OPS):
        return "exact"
    return "tol"


def same(got, want, x, t, coef=False, scale=1.0):
    """exact equality where the arithmetic is exact, 1e-12 relative to the
    magnitude of the constituents otherwise (validation-grade comparison)"""
    got, want = np.asarray(got, dtype=complex), np.asarray(want, dtype=complex)
    if got.shape != want.shape:
        return False
    if cmp_mode(x) == "exact":
        return bool(np.array_equal(got, want))
    T = max(1.0, abs(t))
    mag = cbound(x, T) if coef else bound(x, T)
    return bool(np.max(np.abs(got - want)) <= 1e-12 * max(1.0, mag) * max(1.0, scale))


def ipoly_np(c, t):
    """InterCoefficient.restore(tlist, poly) evaluated independently of qutip"""
    tl, rows = c[1], c[2]
    last = [gi_c(v) for v in rows[-1]]
    if t <= tl[0]:
        return last[0]
    if t >= tl[-1]:
        return last[-1]
    k = max(i for i in range(len(tl)) if tl[i] <= t)
    out = 0j
    for row in rows:
        out = out * (t - tl[k]) + gi_c(row[k])
    return out


def coef_np(c, t, ov=None):
    op = c[0]
    if op == "arr":
        return complex(arr_leaf(c)(t))
    if op == "ipoly":
        return ipoly_np(c, t)
    if op == "fun":
        return sum(gi_c(k) * (t ** i) for i, k in enumerate(c[1]))
    if op == "funw":
        ww = leaf_factor("req", {"w": c[2]}, ov)
        return ww * sum(gi_c(k) * (t ** i) for i, k in enumerate(c[1]))
    if op == "funs":
        return leaf_factor(c[2], c[3], ov) * sum(gi_c(k) * (t ** i) for i, k in enumerate(c[1]))
    if op == "const":
        return gi_c(c[1])
    if op == "sum":
        return coef_np(c[1], t, ov) + coef_np(c[2], t, ov)
    if op == "mul":
        return coef_np(c[1], t, ov) * coef_np(c[2], t, ov)
    if op == "conj":
        return np.conj(coef_np(c[1], t, ov))
    if op == "norm":
        v = coef_np(c[1], t, ov)
        return v * np.conj(v)
    raise ValueError(op)


def mpoly_np(mats, t):
    out = np.zeros((2, 2), dtype=complex)
    for k, m in enumerate(mats):
        out = out + _m_np(m) * (t ** k)
    return out


def sem_np(x, t, ov=None):
    """the same combination applied to the constituents' values at t"""
    op = x[0]
    I2 = np.eye(2, dtype=complex)
    if op == "const":
        return _m_np(x[1])
    if op == "pair":
        return coef_np(x[2], t, ov) * _m_np(x[1])
    if op == "func":
        return mpoly_np(x[1], t)
    if op == "funcw":
        return leaf_factor("req", {"w": x[2]}, ov) * mpoly_np(x[1], t)
    if op == "funcs":
        return leaf_factor(x[2], x[3], ov) * mpoly_np(x[1], t)
    if op == "list":
        out = np.zeros((2, 2), dtype=complex)
        for m, c in x[1]:
            out = out + (_m_np(m) if c is None else coef_np(c, t, ov) * _m_np(m))
        return out
    if op == "add":
        return sem_np(x[1], t, ov) + sem_np(x[2], t, ov)
    if op == "sub":
        return sem_np(x[1], t, ov) - sem_np(x[2], t, ov)
    if op == "addq":
        return sem_np(x[1], t, ov) + _m_np(x[2])
    if op == "addnum":
        return sem_np(x[1], t, ov) + gi_c(x[2]) * I2
    if op == "mulnum":
        return gi_c(x[2]) * sem_np(x[1], t, ov)
    if op == "div":
        return sem_np(x[1], t, ov) / gi_c(x[2])
    if op == "mulcoef":
        return coef_np(x[2], t, ov) * sem_np(x[1], t, ov)
    if op == "matmul":
        return sem_np(x[1], t, ov) @ sem_np(x[2], t, ov)
    if op == "matmulq":
        return sem_np(x[1], t, ov) @ _m_np(x[2])
    if op == "rmatmulq":
        return _m_np(x[1]) @ sem_np(x[2], t, ov)
    if op == "neg":
        return -sem_np(x[1], t, ov)
    if op == "trans":
        return sem_np(x[1], t, ov).T
    if op == "conj":
        return np.conj(sem_np(x[1], t, ov))
    if op == "dag":
        return np.conj(sem_np(x[1], t, ov)).T
    if op == "linmap":
        f = x[1]
        v = sem_np(x[2], t, ov)
        if f[0] == "to":
            return v
        if f[0] == "lmul":
            return _m_np(f[1]) @ v
        return v @ _m_np(f[1])
    if op in ("compress", "ctor", "copy", "pickle"):
        return sem_np(x[1], t, ov)
    if op == "args":
        return sem_np(x[1], t, {**argd(x[2]), **(ov or {})})     # the outer replacement wins
    raise ValueError(op)


def cbound(c, T):
    op = c[0]
    if op == "arr":
        return max(abs(y[0]) + abs(y[1]) for y in c[1]) * (1 if c[3] <= 1 else 8)
    if op == "ipoly":
        span = max(1, c[1][-1] - c[1][0])
        return sum(max(abs(v[0]) + abs(v[1]) for v in row) * span ** (len(c[2]) - 1 - i)
                   for i, row in enumerate(c[2]))
    if op in ("fun", "funw", "funs"):
        b = sum((abs(k[0]) + abs(k[1])) * T ** i for i, k in enumerate(c[1]))
        return b * {"fun": 1, "funw": 3, "funs": 9}[op]
    if op == "const":
        return abs(c[1][0]) + abs(c[1][1])
    if op == "sum":
        return cbound(c[1], T) + cbound(c[2], T)
    if op == "mul":
        return cbound(c[1], T) * cbound(c[2], T)
    if op == "conj":
        return cbound(c[1], T)
    return cbound(c[1], T) ** 2


def bound(x, T):
    """upper bound on the magnitude of every intermediate entry"""
    def cb(c):
        return cbound(c, T)

    def mb(m):
        return max(abs(e[0]) + abs(e[1]) for e in m)

    op = x[0]
    if op == "const":
        return mb(x[1])
    if op == "pair":
        return cb(x[2]) * mb(x[1])
    if op in ("func", "funcw", "funcs"):
        return (sum(mb(m) * T ** k for k, m in enumerate(x[1]))
                * {"func": 1, "funcw": 3, "funcs": 9}[op])
    if op == "list":
        return sum(mb(m) * (1 if c is None else cb(c)) for m, c in x[1])
    if op in ("add", "sub"):
        return bound(x[1], T) + bound(x[2], T)
    if op == "addq":
        return bound(x[1], T) + mb(x[2])
    if op == "addnum":
        return bound(x[1], T) + abs(x[2][0]) + abs(x[2][1])
    if op in ("mulnum", "div"):
        return bound(x[1], T) * max(1, abs(x[2][0]) + abs(x[2][1]))
    if op == "mulcoef":
        return bound(x[1], T) * max(1, cb(x[2]))
    if op == "matmul":
        return 2 * bound(x[1], T) * bound(x[2], T)
    if op == "matmulq":
        return 2 * bound(x[1], T) * mb(x[2])
    if op == "rmatmulq":
        return 2 * bound(x[2], T) * mb(x[1])
    if op == "linmap":
        f = x[1]
        return bound(x[2], T) * (1 if f[0] == "to" else 2 * mb(f[1]))
    if op == "args":        # leaves are bounded with their largest factor already
        return bound(x[1], T) * 3
    return bound(x[1], T)


# ------------------------------------------------------------ implementation
def coef_impl(c):
    import qutip
    from qutip.core.coefficient import coefficient, const, conj as cconj, norm as cnorm
    op = c[0]
    if op == "arr":
        return _arr_new(c)
    if op == "ipoly":
        from qutip.core.cy.coefficient import InterCoefficient
        return InterCoefficient.restore(
            np.array(c[1], dtype=float),
            np.array([[gi_c(v) for v in row] for row in c[2]], dtype=complex))
    if op == "fun":
        return coefficient(CoefPoly(c[1]))
    if op == "funw":
        return coefficient(CoefPolyW(c[1]), args={"w": c[2]})
    if op == "funs":
        return coefficient(COEFCLS[c[2]](c[1]), args=dict(c[3]))
    if op == "const":
        return const(gi_c(c[1]))
    if op == "sum":
        return coef_impl(c[1]) + coef_impl(c[2])
    if op == "mul":
        return coef_impl(c[1]) * coef_impl(c[2])
    if op == "conj":
        return coef_impl(c[1]).conj()
    if op == "norm":
        return cnorm(coef_impl(c[1]))
    raise ValueError(op)


def num_py(z, rng_bit=0):
    if z[1] == 0 and rng_bit:
        return int(z[0])
    return complex(z[0], z[1])


def build_impl(x, root=True):
    import qutip
    from qutip import QobjEvo
    op = x[0]
    if op == "const":
        return QobjEvo(_qobj(_m_np(x[1])))
    if op == "pair":
        return QobjEvo([_qobj(_m_np(x[1])), coef_impl(x[2])])
    if op == "func":
        return QobjEvo(MatPoly(x[1]))
    if op == "funcw":
        return QobjEvo(MatPolyW(x[1]), args={"w": x[2]})
    if op == "funcs":
        return QobjEvo(MATCLS[x[2]](x[1]), args=dict(x[3]))
    if op == "list":
        return QobjEvo([_qobj(_m_np(m)) if c is None else [_qobj(_m_np(m)), coef_impl(c)]
                        for m, c in x[1]])
    if op == "add":
        return build_impl(x[1], False) + build_impl(x[2], False)
    if op == "sub":
        return build_impl(x[1], False) - build_impl(x[2], False)
    if op == "addq":
        return build_impl(x[1], False) + _qobj(_m_np(x[2]))
    if op == "addnum":
        return build_impl(x[1], False) + num_py(x[2])
    if op == "mulnum":
        a = build_impl(x[1], False)
        z = num_py(x[2], 1)
        return z * a if x[3] == "l" else a * z
    if op == "div":
        return build_impl(x[1], False) / num_py(x[2])
    if op == "mulcoef":
        a = build_impl(x[1], False)
        c = coef_impl(x[2])
        return c * a if x[3] == "l" else a * c
    if op == "matmul":
        return build_impl(x[1], False) @ build_impl(x[2], False)
    if op == "matmulq":
        return build_impl(x[1], False) @ _qobj(_m_np(x[2]))
    if op == "rmatmulq":
        return _qobj(_m_np(x[1])) @ build_impl(x[2], False)
    if op == "neg":
        return -build_impl(x[1], False)
    if op == "trans":
        return build_impl(x[1], False).trans()
    if op == "conj":
        return build_impl(x[1], False).conj()
    if op == "dag":
        return build_impl(x[1], False).dag()
    if op == "linmap":
        f = x[1]
        a = build_impl(x[2], False)
        if f[0] == "to":
            return a.to(getattr(qutip.data, f[1]))
        if f[0] == "lmul":
            return a.linear_map(LMul(f[1]))
        return a.linear_map(RMul(f[1]))
    if op == "compress":
        a = build_impl(x[1], False).copy()
        a.compress()
        return a
    if op == "ctor":
        return QobjEvo(build_impl(x[1], False))
    if op == "copy":
        return build_impl(x[1], False).copy()
    if op == "pickle":
        return pickle.loads(pickle.dumps(build_impl(x[1], False)))
    if op == "args":
        a = build_impl(x[1], False)
        probe = [np.asarray(a(tt).full()) for tt in (1.0, -2.0)]
        n = argd(x[2])
        if x[3] == "arguments":
            b = a.copy()
            b.arguments(**n)
        elif x[3] == "argumentsd":
            b = a.copy()
            b.arguments(n)
        elif x[3] == "ctor" or not root:
            b = QobjEvo(a, args=n)
        else:
            b = _ArgsCall(a, n, x[3] == "calld")
            b(1.0)
        # the object the arguments were replaced on must be unchanged
        for tt, v in zip((1.0, -2.0), probe):
            if not np.array_equal(np.asarray(a(tt).full()), v):
                raise OriginalChanged("operand of argument replacement changed its value")
        return b
    raise ValueError(op)


class OriginalChanged(Exception):
    pass


class _ArgsCall:
    """a(t, **n) / a(t, n): argument replacement at call time"""
    def __init__(self, a, n, positional=False):
        self.a, self.n, self.positional = a, n, positional
        self._b = QobjEvo_with(a, n)

    def __call__(self, t):
        return self.a(t, self.n) if self.positional else self.a(t, **self.n)

    def __getattr__(self, k):
        return getattr(self._b, k)


def QobjEvo_with(a, n):
    from qutip import QobjEvo
    return QobjEvo(a, args=n)


def elements_of(obj):
    return obj._getstate()["elements"]


CKIND = {"FunctionCoefficient": "CKFun", "InterCoefficient": "CKInter",
         "ConstantCoefficient": "CKConst", "SumCoefficient": "CKSum",
         "MulCoefficient": "CKMul", "ConjCoefficient": "CKConj", "NormCoefficient": "CKNorm"}


def kind_impl(e):
    n = type(e).__name__
    if n == "_ConstantElement":
        return "KConst"
    if n == "_EvoElement":
        return ("KEvo", CKIND.get(type(e._coefficient).__name__,
                                  "?" + type(e._coefficient).__name__))
    if n == "_FuncElement":
        return "KFunc"
    if n == "_MapElement":
        return ("KMap", len(e._transform))
    if n == "_ProdElement":
        return ("KProd", kind_impl(e._left), kind_impl(e._right),
                len(e._transform), bool(e._conj))
    return ("?" + n,)


def conj_parity(e):
    """model's scale_twist: number of conjugating products on the right spine"""
    p = False
    while type(e).__name__ == "_ProdElement":
        p ^= bool(e._conj)
        e = e._right
    return p


def py_mdt_safe(e, out_none):
    """model's mdt_safe on the real element structure"""
    if type(e).__name__ != "_ProdElement":
        return True
    if not e._transform:
        return py_mdt_safe(e._right, True) and py_mdt_safe(e._left, out_none)
    return not out_none


def to_gi_list(arr):
    """exact conversion of a complex array to a flat list of integers; raises
    ValueError when an entry is not a Gaussian integer"""
    out = []
    for v in np.asarray(arr, dtype=complex).reshape(-1):
        re_, im_ = float(v.real), float(v.imag)
        if re_ != int(re_) or im_ != int(im_):
            raise ValueError("non-integer entry %r" % (v,))
        out += [int(re_), int(im_)]
    return out


def state_data(s, fmt):
    import qutip
    q = _qobj(_m_np(s))
    return q.to(getattr(qutip.data, fmt)).data


def ket_of(s):
    """the ket (first column of s), as a matrix with a zero second column, and |ket><ket|"""
    k1, k2 = complex(*s[0]), complex(*s[2])
    def g(z):
        return [int(z.real), int(z.imag)]
    sk = [s[0], [0, 0], s[2], [0, 0]]
    pj = [g(k1 * k1.conjugate()), g(k1 * k2.conjugate()), g(k2 * k1.conjugate()),
          g(k2 * k2.conjugate())]
    return sk, pj


FORMATS = ("Dense", "CSR", "Dia")


def observe_impl(obj, t, s):
    """everything the correspondence compares, canonicalised"""
    import qutip
    r = {}
    tf = float(t)
    r["call"] = to_gi_list(obj(tf).full())
    r["_call"] = to_gi_list(obj._call(tf).to_array())
    ket = qutip.Qobj(_m_np(s)[:, :1], dims=[[2], [1]])
    for fmt in FORMATS:
        try:
            r["md_" + fmt] = to_gi_list(obj.matmul_data(tf, state_data(s, fmt)).to_array())
        except Exception as e:            # canonicalised error
            r["md_" + fmt] = "ERR:" + type(e).__name__
            r["md_msg"] = str(e)[:200]
        v = obj.expect_data(tf, state_data(s, fmt))
        r["ex_" + fmt] = to_gi_list(np.array([v]))
        kd = ket.to(getattr(qutip.data, fmt)).data
        try:      # a ket: the product is a column, the expectation is <ket|A|ket>
            col = to_gi_list(obj.matmul_data(tf, kd).to_array())
            r["mdk_" + fmt] = [col[0], col[1], 0, 0, col[2], col[3], 0, 0]
        except Exception as e:
            r["mdk_" + fmt] = "ERR:" + type(e).__name__
        r["exk_" + fmt] = to_gi_list(np.array([obj.expect_data(tf, kd)]))
    r["kinds"] = [kind_impl(e) for e in elements_of(obj)]
    return r


# -------------------------------------------------------------------- Coq terms
def c_gi(z):
    return "(%d, %d)" % (z[0], z[1])


def c_z(n):
    return "(%d)" % n


def c_dict(d):
    return vlib.clist(sorted(d.items()), lambda kv: "(%d, %d)" % (KEYS[kv[0]], kv[1]))


def c_ps(style):
    ps = PARAMS[style]
    return "None" if ps is None else "(Some %s)" % vlib.clist(ps, lambda k: "%d" % KEYS[k])


def c_mat(m, u=""):
    r = "(mk2 %s %s %s %s)" % tuple(c_gi(e) for e in m)
    return "(emb %s)" % r if u else r


def c_coef(c, u=""):
    op = c[0]
    if op == "fun":
        return "(cfun%s %s)" % (u, vlib.clist(c[1], c_gi))
    if op == "funw":
        return "(cfunw%s %s %s)" % (u, vlib.clist(c[1], c_gi), c_z(c[2]))
    if op == "funs":
        return "(cfuns%s %s %s %s)" % (u, vlib.clist(c[1], c_gi), c_ps(c[2]), c_dict(c[3]))
    if op == "ipoly":
        return "(cinter%s %s %s)" % (u, vlib.clist(c[1], c_z),
                                      vlib.clist(c[2], lambda r: vlib.clist(r, c_gi)))
    if op == "const":
        return "(ccst%s %s)" % (u, c_gi(c[1]))
    if op == "sum":        # built with `+`: Coefficient.__add__ (add_inter for two sampled ones)
        return "(cadd%s %s %s)" % (u, c_coef(c[1], u), c_coef(c[2], u))
    if op == "mul":
        return "(CMul %s %s)" % (c_coef(c[1], u), c_coef(c[2], u))
    if op == "conj":
        return "(CConj %s)" % c_coef(c[1], u)
    if op == "norm":
        return "(CNorm %s)" % c_coef(c[1], u)
    raise ValueError(op)


def c_tree(x, u=""):
    """Coq term of a tree; u = "4" emits it over the 4x4 universe G4 (operators of the
    2-dimensional space embedded in the top-left block)"""
    op = x[0]
    T = lambda y: c_tree(y, u)
    Mx = lambda m: c_mat(m, u)
    if op == "const":
        return "(xconst%s %s)" % (u, Mx(x[1]))
    if op == "pair":
        return "(xpair%s %s %s)" % (u, Mx(x[1]), c_coef(x[2], u))
    if op == "func":
        return "(xfunc%s %s)" % (u, vlib.clist(x[1], c_mat))
    if op == "funcw":
        return "(xfuncw%s %s %s)" % (u, vlib.clist(x[1], c_mat), c_z(x[2]))
    if op == "funcs":
        return "(xfuncs%s %s %s %s)" % (u, vlib.clist(x[1], c_mat), c_ps(x[2]), c_dict(x[3]))
    if op == "args":
        return "(%s%s %s %s)" % ("xarguments" if x[3].startswith("arguments") else "xargs", u,
                                 T(x[1]), c_dict(argd(x[2])))
    if op == "list":
        return "(xlist%s %s)" % (u, vlib.clist(
            x[1], lambda p: "(%s, %s)" % (Mx(p[0]),
                                          "None" if p[1] is None else "Some %s" % c_coef(p[1], u))))
    if op == "add":
        return "(XAdd %s %s)" % (T(x[1]), T(x[2]))
    if op == "sub":
        return "(XSub %s %s)" % (T(x[1]), T(x[2]))
    if op == "addq":
        return "(xaddq%s %s %s)" % (u, T(x[1]), Mx(x[2]))
    if op == "addnum":
        return "(xaddnum%s %s %s)" % (u, T(x[1]), c_gi(x[2]))
    if op == "mulnum":
        return "(xmulnum%s %s %s)" % (u, T(x[1]), c_gi(x[2]))
    if op == "div":        # a / z = a * (1/z), 1/z computed by Python (units only here)
        return "(xmulnum%s %s %s)" % (u, T(x[1]), c_gi(UNITS[tuple(x[2])]))
    if op == "mulcoef":
        return "(XMulCoef %s %s)" % (T(x[1]), c_coef(x[2], u))
    if op == "matmul":
        return "(XMatmul %s %s)" % (T(x[1]), T(x[2]))
    if op == "matmulq":
        return "(xmatmulq%s %s %s)" % (u, T(x[1]), Mx(x[2]))
    if op == "rmatmulq":
        return "(xrmatmulq%s %s %s)" % (u, Mx(x[1]), T(x[2]))
    if op == "neg":
        return "(XNeg %s)" % T(x[1])
    if op == "trans":
        return "(XTrans %s)" % T(x[1])
    if op == "conj":
        return "(XConj %s)" % T(x[1])
    if op == "dag":
        return "(XDag %s)" % T(x[1])
    if op == "linmap":
        f = x[1]
        ft = ("tto" + u) if f[0] == "to" else "(%s%s %s)" % (
            "tlmul" if f[0] == "lmul" else "trmul", u, Mx(f[1]))
        return "(XLinMap %s %s)" % (ft, T(x[2]))
    if op == "compress":
        return "(XCompress %s)" % T(x[1])
    if op == "ctor":
        return "(XCtor %s)" % T(x[1])
    if op in ("copy", "pickle"):
        return "(XCopy %s)" % T(x[1])
    raise ValueError(op)


def canon_kind(k):
    if isinstance(k, tuple):
        return tuple(canon_kind(a) for a in k)
    return k


# ---------------------------------------------------- oracle + attribution
def subtrees(x):
    """children that are trees"""
    op = x[0]
    if op in ("add", "sub", "matmul"):
        return [x[1], x[2]]
    if op in ("rmatmulq", "linmap"):
        return [x[2]]
    if op in ("const", "pair", "func", "funcw", "funcs", "list"):
        return []
    return [x[1]]


def check_call(x, t):
    """does the real object built from x evaluate to sem(x) at t?"""
    try:
        got = np.asarray(build_impl(x)(float(t)).full())
    except Exception as e:
        return False, "raises %s: %s" % (type(e).__name__, str(e)[:120])
    want = sem_np(x, float(t))
    if same(got, want, x, t):
        return True, ""
    return False, "got %s want %s" % (got.tolist(), want.tolist())


def minimal_failing(x, t):
    """list of (subtree, message): nodes that fail while all their children pass"""
    ok, msg = check_call(x, t)
    if ok:
        return []
    res = []
    for ch in subtrees(x):
        res += minimal_failing(ch, t)
    if not res:
        res = [(x, msg)]
    return res


def attribute_call(node, t):
    """site, signature for a minimal failing node"""
    op = node[0]
    if op in ("mulnum", "div"):
        try:
            a = build_impl(node[1])
            z = gi_c(node[2])
            if op == "div":
                z = 1 / z
            ok = True
            seen_twist = False
            for e in elements_of(a):
                base = np.asarray(e(float(t)).full())
                got = np.asarray((e * z)(float(t)).full())
                if np.array_equal(got, z * base):
                    continue
                if (type(e).__name__ == "_ProdElement" and conj_parity(e)
                        and np.array_equal(got, np.conj(z) * base)):
                    seen_twist = True
                    continue
                ok = False
                return ("qutip/core/cy/_element.pyx:%s.__mul__" % type(e).__name__,
                        "element-times-number-wrong")
            if ok and seen_twist:
                return SITE_MUL, SIG_MUL
        except Exception as e:     # fall through to the generic site
            pass
    r = attribute_arr(node, [float(t)])
    if r:
        return r
    return "QobjEvo:" + op, "value-differs-from-pointwise-meaning"


def attribute_arr(x, times):
    """is a failure explained by the sum of two sampled coefficients (the
    fusion of their grids by add_inter)?  Returns (site, signature) or None."""
    leaves = arr_leaves(x)
    found = None
    for a in leaves:
        for b in leaves:
            if a is b or len(a[2]) != len(b[2]) or a[3] != b[3]:
                continue
            ta, tb = np.array(a[2], dtype=float), np.array(b[2], dtype=float)
            if np.array_equal(ta, tb):
                continue
            try:
                csum = _arr_new(a) + _arr_new(b)
                ca, cb_ = arr_leaf(a), arr_leaf(b)
                ts = list(times) + list(ta) + list(tb) + list((ta[1:] + ta[:-1]) / 2)
                mag = cbound(a, 1) + cbound(b, 1)
                bad = any(abs(complex(csum(tt)) - (complex(ca(tt)) + complex(cb_(tt))))
                          > 1e-12 * max(1.0, mag) for tt in ts)
            except Exception:
                bad = True
            if not bad:
                continue
            if np.allclose(ta, tb, rtol=1e-15, atol=1e-15):
                found = found or (SITE_ADDI, SIG_ADDI_ABS)
            else:
                return SITE_ADDI, SIG_ADDI_OTHER
    return found


def oracle_case(ctx, x, t, s, where):
    """the property on one tree: returns number of violations reported"""
    n = 0
    tf = float(t)
    sscale = 4.0 * max(abs(e[0]) + abs(e[1]) for e in s) ** 2

    def site_for(site, sig):
        # a failure explained by the fusion of two sampled coefficients' grids
        r = attribute_arr(x, [tf]) if arr_leaves(x) else None
        return r if r else (site, sig)

    fails = minimal_failing(x, t)
    for node, msg in fails[:3]:
        site, sig = attribute_call(node, t)
        ctx.violation(site, sig,
                      "QobjEvo built from a tree does not evaluate to the same combination "
                      "of its constituents' values: %s" % msg,
                      {"kind": "call", "tree": node, "t": t, "found_in": where,
                       "python": "tools/c05.py: build_impl(tree)(t).full() vs sem_np(tree, t)"})
        n += 1
    if fails:
        return n
    # value is right: now applying to a state / expectation, every format
    obj = build_impl(x)
    val = sem_np(x, tf)
    # the same object queried again at other / repeated times (the memo
    # _FuncElement._previous must not show)
    for k, tk in enumerate([-t, t, 0, -t, -t, t]):
        want_k = sem_np(x, float(tk))
        try:
            got_k = np.asarray(obj(float(tk)).full())
            if k % 2:
                got_k2 = obj.matmul_data(float(tk), state_data(s, "Dense")).to_array() \
                    if all(py_mdt_safe(e, False) for e in elements_of(obj)) else want_k @ _m_np(s)
            else:
                got_k2 = want_k @ _m_np(s)
            bad = not (same(got_k, want_k, x, tk) and same(got_k2, want_k @ _m_np(s), x, tk, scale=sscale))
            msg = "got %s want %s" % (got_k.tolist(), want_k.tolist())
        except Exception as e:
            bad, msg = True, "raises %s: %s" % (type(e).__name__, str(e)[:120])
        if bad:
            fresh = minimal_failing(x, tk)
            if fresh:        # wrong at that time on a fresh object too: a plain value defect
                for node, msg2 in fresh[:2]:
                    site, sig = attribute_call(node, tk)
                    ctx.violation(site, sig,
                                  "QobjEvo built from a tree does not evaluate to the same "
                                  "combination of its constituents' values: %s" % msg2,
                                  {"kind": "call", "tree": node, "t": tk, "found_in": where})
                    n += 1
                break
            ctx.violation(*site_for("QobjEvo.__call__:history", "value-depends-on-previous-calls"),
                          "query %d (t=%d; __call__ or matmul_data) after earlier queries of the same object: %s"
                          % (k, tk, msg),
                          {"kind": "call", "tree": x, "t": t, "state": s, "found_in": where})
            n += 1
            break
    S = _m_np(s)
    ket = S[:, :1]
    import qutip
    for fmt in ("Dense", "CSR", "Dia"):
        for name, st in (("oper", S), ("ket", ket)):
            q = qutip.Qobj(st, dims=[[2], [2]] if name == "oper" else [[2], [1]])
            d = q.to(getattr(qutip.data, fmt)).data
            want = val @ st
            try:
                got = obj.matmul_data(tf, d).to_array()
                bad = not same(got, want, x, tf, scale=sscale)
                msg = "got %s want %s" % (np.asarray(got).tolist(), want.tolist())
                exc = None
            except Exception as e:
                bad, exc = True, e
                msg = "raises %s: %s" % (type(e).__name__, str(e)[:120])
            if bad:
                site, sig = "QobjEvo.matmul_data", "differs-from-value-times-state"
                if (exc is not None and isinstance(exc, TypeError) and "NoneType" in str(exc)
                        and not all(py_mdt_safe(e, False) for e in elements_of(obj))):
                    site, sig = SITE_MDT, SIG_MDT
                site, sig = site_for(site, sig)
                ctx.violation(site, sig,
                              "matmul_data(t, state) is not value(t) @ state (%s state, %s): %s"
                              % (fmt, name, msg),
                              {"kind": "matmul_data", "tree": x, "t": t, "state": s,
                               "format": fmt, "state_kind": name, "found_in": where})
                n += 1
            if name == "ket":
                wante = (np.conj(st).T @ val @ st)[0, 0]
            else:
                wante = np.trace(val @ st)
            try:
                gote = obj.expect_data(tf, d)
                bad = not same([gote], [wante], x, tf, scale=sscale)
                msg = "got %r want %r" % (gote, wante)
            except Exception as e:
                bad = True
                msg = "raises %s: %s" % (type(e).__name__, str(e)[:120])
            if bad:
                ctx.violation(*site_for("QobjEvo.expect_data", "differs-from-expectation-of-value"),
                              "expect_data(t, state) differs (%s state, %s): %s" % (fmt, name, msg),
                              {"kind": "expect_data", "tree": x, "t": t, "state": s,
                               "format": fmt, "state_kind": name, "found_in": where})
                n += 1
    return n


class ValueOf:
    """t -> Qobj(value of the tree at t): same values, one plain function term"""
    def __init__(self, tree):
        self.tree = tree

    def __call__(self, t):
        return _qobj(sem_np(self.tree, float(t)))


def lifts_case(ctx, x, y, t, where):
    """tensor / superoperator lifts over terms (root level, 4x4 results)"""
    import qutip
    from qutip import QobjEvo
    tf = float(t)
    X, Y = sem_np(x, tf), sem_np(y, tf)
    if minimal_failing(x, t) or minimal_failing(y, t):
        return 0          # reported elsewhere
    a, b = build_impl(x, False), build_impl(y, False)
    qa = qutip.Qobj(X, dims=[[2], [2]])
    qb = qutip.Qobj(Y, dims=[[2], [2]])
    checks = [
        ("tensor(A,B)", lambda: qutip.tensor(a, b), lambda: qutip.tensor(qa, qb)),
        ("tensor(A,q)", lambda: qutip.tensor(a, qb), lambda: qutip.tensor(qa, qb)),
        ("tensor(q,B)", lambda: qutip.tensor(qa, b), lambda: qutip.tensor(qa, qb)),
        ("spre", lambda: qutip.spre(a), lambda: qutip.spre(qa)),
        ("spost", lambda: qutip.spost(a), lambda: qutip.spost(qa)),
        ("sprepost", lambda: qutip.sprepost(a, b), lambda: qutip.sprepost(qa, qb)),
        ("liouvillian", lambda: qutip.liouvillian(a), lambda: qutip.liouvillian(qa)),
        ("liouvillian+c", lambda: qutip.liouvillian(a, [b]),
         lambda: qutip.liouvillian(qa, [qb])),
        ("lindblad_dissipator", lambda: qutip.lindblad_dissipator(a, b),
         lambda: qutip.lindblad_dissipator(qa, qb)),
        ("operator_to_vector", lambda: qutip.operator_to_vector(a),
         lambda: qutip.operator_to_vector(qa)),
    ]
    n = 0
    for name, f_evo, f_q in checks:
        try:
            got = np.asarray(f_evo()(tf).full())
            want = np.asarray(f_q().full())
            # lindblad_dissipator halves: dyadic values, still exact
            bad = not np.array_equal(got, want)
            msg = "" if not bad else "max diff %g" % np.max(np.abs(got - want))
        except Exception as e:
            bad, msg = True, "raises %s: %s" % (type(e).__name__, str(e)[:120])
        if bad:
            site, sig = "lift:" + name, "lift-differs-from-lift-of-value"
            # the same number-times-product defect reached through -1j * spre(H)
            # (the lift itself is right on objects with the same values but
            # without conjugating product terms)
            if _reaches_known_mul(a) or _reaches_known_mul(b):
                try:
                    a, b = QobjEvo(ValueOf(x)), QobjEvo(ValueOf(y))
                    clean = np.array_equal(np.asarray(f_evo()(tf).full()), want)
                except Exception:
                    clean = False
                if clean:
                    site, sig = SITE_MUL, SIG_MUL
                a, b = build_impl(x, False), build_impl(y, False)
            ctx.violation(site, sig, "%s over a QobjEvo differs from %s of its value: %s"
                          % (name, name, msg),
                          {"kind": "lift", "lift": name, "tree": x, "tree2": y, "t": t,
                           "found_in": where})
            n += 1
    return n


def _reaches_known_mul(a, times=(1.0, 2.0, -3.0)):
    """multiplying this object by 1j hits the known defect (a product term
    with odd conjugation parity on its right spine) and nothing else"""
    try:
        has = False
        for e in elements_of(a):
            twisted = type(e).__name__ == "_ProdElement" and conj_parity(e)
            has = has or twisted
            for tt in times:
                base = np.asarray(e(tt).full())
                got = np.asarray((e * 1j)(tt).full())
                if np.array_equal(got, 1j * base):
                    continue
                if twisted and np.array_equal(got, -1j * base):
                    continue
                return False
        return has
    except Exception:
        return False


def coef_case(ctx, c, t):
    """Coefficient.__call__(t) of a combination = combination of the values
    of its constituents; t may be a list of times (one object, many queries)"""
    times = t if isinstance(t, list) else [t]
    try:
        obj = coef_impl(c)
    except Exception as e:
        ctx.violation("Coefficient.__call__", "combination-raises",
                      "coefficient algebra: raises %s: %s" % (type(e).__name__, str(e)[:120]),
                      {"kind": "coef", "coef": c, "t": times})
        return 1
    for tk in times:
        tf = float(tk)
        try:
            got = complex(obj(tf))
            want = complex(coef_np(c, tf))
            bad = not same([got], [want], c, tf, coef=True)
            msg = "got %r want %r" % (got, want)
        except Exception as e:
            bad, msg = True, "raises %s: %s" % (type(e).__name__, str(e)[:120])
        if bad:
            site, sig = "Coefficient.__call__", "combination-differs-from-pointwise-value"
            r = attribute_arr(c, [tf])
            if r:
                site, sig = r
            ctx.violation(site, sig, "coefficient algebra at t=%r: %s" % (tf, msg),
                          {"kind": "coef", "coef": c, "t": tf})
            return 1
    return 0


def malformed_case(ctx, x, t, which):
    """malformed operations raise (or return NotImplemented -> TypeError) and
    leave the operand's value unchanged"""
    import qutip
    a = build_impl(x, False)
    tf = float(t)
    before = np.asarray(a(tf).full())
    q3 = qutip.Qobj(np.eye(3))
    ops = {
        "add-wrong-dims": lambda: a + q3,
        "iadd-wrong-dims": lambda: a.__iadd__(q3),
        "matmul-wrong-dims": lambda: a @ q3,
        "mul-string": lambda: a * "x",
        "add-none": lambda: a + None,
        "add-evo-wrong-dims": lambda: a + qutip.QobjEvo(q3),
        "imatmul-evo-wrong-dims": lambda: a.__imatmul__(qutip.QobjEvo(q3)),
    }
    raised = False
    try:
        r = ops[which]()
        raised = r is NotImplemented
    except (TypeError, ValueError):
        raised = True
    after = np.asarray(a(tf).full())
    if not raised or not np.array_equal(before, after) or a.shape != (2, 2):
        ctx.violation("QobjEvo:malformed:" + which, "accepted-or-operand-changed",
                      "malformed operation %s: raised=%s operand unchanged=%s"
                      % (which, raised, np.array_equal(before, after)),
                      {"kind": "malformed", "tree": x, "t": t, "which": which})
        return 1
    return 0


# --------------------------------------------------------- source structure
EXPECTED_CLASSES = {
    "_BaseElement": {"data", "qobj", "coeff", "matmul_data_t", "linear_map",
                     "replace_arguments", "__call__", "dtype"},
    "_ConstantElement": {"__init__", "__mul__", "__matmul__", "data", "qobj", "coeff",
                         "linear_map", "replace_arguments", "__call__", "dtype"},
    "_EvoElement": {"__init__", "__mul__", "__matmul__", "data", "qobj", "coeff",
                    "linear_map", "replace_arguments", "dtype"},
    "_FuncElement": {"__init__", "__mul__", "__matmul__", "data", "qobj", "coeff",
                     "linear_map", "replace_arguments"},
    "_MapElement": {"__init__", "__mul__", "__matmul__", "data", "qobj", "coeff",
                    "linear_map", "replace_arguments"},
    "_ProdElement": {"__init__", "__mul__", "__matmul__", "data", "qobj", "coeff",
                     "matmul_data_t", "linear_map", "replace_arguments"},
}


def source_structure():
    """classes and method names of _element.pyx (fails closed on anything new)"""
    txt = open(os.path.join(vlib.REPO, "qutip/core/cy/_element.pyx")).read()
    classes = {}
    cur = None
    for line in txt.split("\n"):
        m = re.match(r"cdef class (\w+)", line)
        if m:
            cur = m.group(1)
            classes[cur] = set()
            continue
        m = re.match(r"    (?:def|cpdef \w+|cpdef|cdef \w+(?: \w+)?)\s+(\w+)\(", line)
        if m and cur:
            classes[cur].add(m.group(1))
    return classes


# ------------------------------------------------------------------------ run
def gen_case(rng, ext, quick):
    for _ in range(200):
        depth = rng.choice([1, 2, 2, 3, 3, 4] if quick else [1, 2, 3, 3, 4, 4, 5])
        if rng.random() < 0.35:
            x = g_chain(rng, ext)
        else:
            x = g_tree(rng, depth, ext)
        t = rng.choice([-3, -2, -1, 0, 1, 2, 3])
        s = g_mat(rng)
        if n_terms(x) > 12:
            continue
        if bound(x, max(1, abs(t))) * 8 > LIMIT:
            continue
        if ext and is_core(x):     # extended stream: a division whose 1/z is not a Gaussian integer
            x = ["div", x, rng.choice([[2, 0], [4, 0], [0, 2], [0, -2]])]
            if rng.random() < 0.5:
                x = [rng.choice(["dag", "conj", "trans", "neg", "copy"]), x]
        return {"tree": x, "t": t, "state": s}
    raise RuntimeError("generator could not produce a bounded tree")


SCALES = [2.0 ** -30, 2.0 ** -20, 2.0 ** -10, 1.0, 2.0 ** 10, 1e-9, 1e-6, 1e-3, 3.0, 1e3]
RELATIONS = (["identical", "longer", "refined", "order"]
             + [["stretch", k] for k in (1, 4, 10, 17, 20, 30, 40)]
             + [["shift", m] for m in (1, 10, 20, 30)])


def g_arr(rng, scale, order=None, n=None):
    """sampled coefficient: integer samples on a grid of the given time scale
    (uniform, or with gaps dt/2, dt, 2dt)"""
    n = n or rng.choice([2, 3, 5, 9, 17, 51])
    order = rng.randint(0, 3) if order is None else order
    dt = scale / 8
    if rng.random() < 0.65:
        gaps = [dt] * (n - 1)
    else:
        gaps = [dt * rng.choice([0.5, 1.0, 1.0, 2.0]) for _ in range(n - 1)]
    t0 = dt * rng.choice([0, 0, -2, 3, 8])
    tl = [t0]
    for g in gaps:
        tl.append(tl[-1] + g)
    ys = [g_gi(rng, lim=3) for _ in range(n)]
    return ["arr", ys, [float(v) for v in tl], order]


def arr_partner(rng, a, rel):
    """a second sampled coefficient whose grid stands in relation `rel` to a's"""
    tl = np.array(a[2], dtype=float)
    n, order = len(tl), a[3]
    dt = float(np.min(np.diff(tl)))
    if rel == "identical":
        t2 = tl
    elif rel == "longer":
        t2 = np.concatenate([tl, [tl[-1] + dt]])
    elif rel == "refined":
        t2 = np.sort(np.concatenate([tl, (tl[1:] + tl[:-1]) / 2]))
    elif rel == "order":
        t2 = tl
        order = (order + rng.randint(1, 3)) % 4
    elif rel[0] == "stretch":
        t2 = tl * (1 + 2.0 ** -rel[1])
    else:
        t2 = tl + dt * 2.0 ** -rel[1]
    ys = [g_gi(rng, lim=3) for _ in range(len(t2))]
    return ["arr", ys, [float(v) for v in t2], order]


def arr_times(rng, leaves, k=4):
    """sample times, midpoints, quarter points and times outside the range"""
    ts = []
    for a in leaves:
        tl = np.array(a[2], dtype=float)
        idx = sorted(set([0, len(tl) - 1] + [rng.randrange(len(tl)) for _ in range(k)]))
        ts += [float(tl[i]) for i in idx]
        for _ in range(k):
            i = rng.randrange(len(tl) - 1)
            ts.append(float((tl[i] + tl[i + 1]) / 2))
            ts.append(float(tl[i] + (tl[i + 1] - tl[i]) / 4))
        span = float(tl[-1] - tl[0])
        ts += [float(tl[0] - span / 2), float(tl[-1] + span / 2)]
    return ts


def sampled_cases(rng, quick):
    """algebra of sampled coefficients: every grid relation at every scale"""
    out = []
    for scale in SCALES:
        for rel in RELATIONS:
            for order in ([rng.randint(0, 3)] if quick else [0, 1, 2, 3]):
                a = g_arr(rng, scale, order=order, n=rng.choice([3, 5, 9, 17, 51]))
                b = arr_partner(rng, a, rel)
                times = arr_times(rng, [a, b], 3)
                extra = rng.choice([["const", g_gi(rng)], ["fun", [g_gi(rng), [1, 0]]],
                                    g_arr(rng, scale)])
                coefs = [["sum", a, b], ["sum", b, a], ["mul", a, b],
                         ["sum", ["conj", a], b], ["norm", ["sum", a, b]],
                         ["sum", ["sum", a, b], extra], ["mul", ["sum", a, b], ["conj", b]]]
                for c in (coefs if not quick else [coefs[0]] + rng.sample(coefs[1:], 2)):
                    out.append({"coef": c, "times": times, "rel": rel, "scale": scale})
                M, M2 = g_mat(rng), g_mat(rng)
                trees = [
                    ["list", [[M, a], [M, b], [M2, None]]],
                    ["compress", ["add", ["pair", M, a], ["pair", M, b]]],
                    ["ctor", ["add", ["add", ["pair", M, a], ["const", M2]], ["pair", M, b]]],
                    ["add", ["pair", M, a], ["pair", M, b]],
                    ["dag", ["list", [[M, a], [M2, extra], [M, b]]]],
                    ["mulnum", ["ctor", ["add", ["pair", M, b], ["pair", M, a]]], [1, 1], "l"],
                    ["matmul", ["list", [[M, a], [M, b]]], ["pair", M2, a]],
                    ["mulcoef", ["pair", M, a], b, "r"],
                ]
                for x in (trees if not quick else rng.sample(trees, 2)):
                    for t in rng.sample(times, 2):
                        out.append({"tree": x, "t": t, "state": g_mat(rng), "rel": rel,
                                    "scale": scale})
    return out


LIFTS = ["spre", "spost", "sprepost", "sprepost_qb", "sprepost_aq", "liouvillian",
         "liouvillian_c", "dissipator", "tensor", "tensor_qb", "tensor_aq"]
HALF = {"liouvillian_c", "dissipator"}      # involve the scalar 0.5: kinds compared, values by NumPy


def flat16(arr):
    return to_gi_list(np.asarray(arr).reshape(4, 4))


def c_mat4(m16):
    """4x4 Gaussian matrix (row-major list of 16 [re, im]) as a term of M4"""
    def blk(r0, c0):
        return "(mk2 %s %s %s %s)" % tuple(c_gi(m16[4 * (r0 + i) + c0 + j])
                                           for i in (0, 1) for j in (0, 1))
    return "(blk %s %s %s %s)" % (blk(0, 0), blk(0, 2), blk(2, 0), blk(2, 2))


def lift_correspondence(ctx, rng, n):
    """superoperator / tensor lifts of QobjEvo: real objects against the model over the
    4x4 universe (exact: __call__, _call, matmul_data with 4x4 Dense/CSR states, element
    kinds; expect_data for tensor)"""
    import qutip
    cases = []
    tries = 0
    while len(cases) < n and tries < 20 * n:
        tries += 1
        a = gen_case(rng, False, True)
        b = gen_case(rng, False, True)
        if has_op(a["tree"], {"addnum"}) or has_op(b["tree"], {"addnum"}):
            continue          # a + z adds z on the whole universe in the model
        if not (is_core(a["tree"]) and is_core(b["tree"])):
            continue
        if n_terms(a["tree"]) * n_terms(b["tree"]) > 12:
            continue
        if (bound(a["tree"], 3) * bound(b["tree"], 3)) ** 2 * 256 > LIMIT:
            continue
        kind = LIFTS[len(cases) % len(LIFTS)]
        cases.append({"lift": kind, "a": a["tree"], "b": b["tree"], "t": a["t"],
                      "q": g_mat(rng), "s4": [g_gi(rng) for _ in range(16)]})
    exprs, impl = [], []
    for c in cases:
        A, B, q = c["a"], c["b"], c["q"]
        ta, tb, tq = c_tree(A, "4"), c_tree(B, "4"), c_mat(q)
        k = c["lift"]
        term = {"spre": "(l_spre %s)" % ta, "spost": "(l_spost %s)" % ta,
                "sprepost": "(l_sprepost %s %s)" % (ta, tb),
                "sprepost_qb": "(l_sprepost_qb %s %s)" % (tq, tb),
                "sprepost_aq": "(l_sprepost_aq %s %s)" % (ta, tq),
                "liouvillian": "(l_liouvillian %s [])" % ta,
                "liouvillian_c": "(l_liouvillian %s [%s])" % (ta, tb),
                "dissipator": "(l_dissipator %s %s)" % (ta, tb),
                "tensor": "(l_tensor %s %s)" % (ta, tb),
                "tensor_qb": "(l_tensor_qb %s %s)" % (tq, tb),
                "tensor_aq": "(l_tensor_aq %s %s)" % (ta, tq)}[k]
        exprs.append("obs4 %s (%d) %s" % (term, c["t"], c_mat4(c["s4"])))
        r = {}
        try:
            ea, eb = build_impl(A, False), build_impl(B, False)
            qq = _qobj(_m_np(q))
            obj = {"spre": lambda: qutip.spre(ea), "spost": lambda: qutip.spost(ea),
                   "sprepost": lambda: qutip.sprepost(ea, eb),
                   "sprepost_qb": lambda: qutip.sprepost(qq, eb),
                   "sprepost_aq": lambda: qutip.sprepost(ea, qq),
                   "liouvillian": lambda: qutip.liouvillian(ea),
                   "liouvillian_c": lambda: qutip.liouvillian(ea, [eb]),
                   "dissipator": lambda: qutip.lindblad_dissipator(ea, eb),
                   "tensor": lambda: qutip.tensor(ea, eb),
                   "tensor_qb": lambda: qutip.tensor(qq, eb),
                   "tensor_aq": lambda: qutip.tensor(ea, qq)}[k]()
            tf = float(c["t"])
            r["kinds"] = [kind_impl(e) for e in elements_of(obj)]
            if k not in HALF:
                r["call"] = flat16(obj(tf).full())
                r["_call"] = flat16(obj._call(tf).to_array())
                S = np.array([gi_c(v) for v in c["s4"]], dtype=complex).reshape(4, 4)
                for fmt in ("Dense", "CSR"):
                    d = qutip.Qobj(S).to(getattr(qutip.data, fmt)).data
                    r["md_" + fmt] = flat16(obj.matmul_data(tf, d).to_array())
                    if k.startswith("tensor"):
                        r["ex_" + fmt] = to_gi_list(np.array([obj.expect_data(tf, d)]))
        except Exception as e:
            r = {"error": "%s: %s" % (type(e).__name__, str(e)[:200])}
        impl.append(r)
    try:
        vals = vlib.coq_eval_values("cases_C05_lift", HEADER4, exprs, chunk=100)
    except RuntimeError as e:
        ctx.violation("corr:C05:model-eval", "coqc-lift", "model evaluation failed",
                      {"log": str(e)[-2500:]}, found_input=False)
        return len(cases), 0
    mism = 0
    for c, r, mv in zip(cases, impl, vals):
        m_call, m__call, m_md, m_ex, m_kinds, m_sem = vlib.parse_coq_value(mv)
        m_md = None if m_md is None else list(m_md[1])
        ctx.count_case(("lift", json.dumps(c, sort_keys=True)))
        ctx.cov["traces_validated_against_impl"] += 1
        diffs = []
        if "error" in r:
            diffs.append(("build", r["error"], None))
        else:
            if [canon_kind(k) for k in r["kinds"]] != [canon_kind(k) for k in m_kinds]:
                diffs.append(("element kinds", repr(r["kinds"]), repr(m_kinds)))
            if c["lift"] not in HALF:
                if r["call"] != list(m_call):
                    diffs.append(("__call__", r["call"], list(m_call)))
                if r["_call"] != list(m__call):
                    diffs.append(("_call", r["_call"], list(m__call)))
                if list(m_call) != list(m_sem):
                    diffs.append(("model: call vs sem", list(m_call), list(m_sem)))
                for fmt in ("Dense", "CSR"):
                    if r["md_" + fmt] != m_md:
                        diffs.append(("matmul_data/" + fmt, r["md_" + fmt], m_md))
                    if "ex_" + fmt in r and r["ex_" + fmt] != list(m_ex):
                        diffs.append(("expect_data/" + fmt, r["ex_" + fmt], list(m_ex)))
        if diffs:
            mism += 1
            if mism <= 3:
                n0 = lifts_case(ctx, c["a"], c["b"], c["t"], "lift-correspondence")
                ctx.violation("corr:C05:lift:" + c["lift"], "model-differs",
                              "model and implementation disagree on %s (%s)"
                              % (c["lift"], diffs[0][0]),
                              {"kind": "liftcorr", "case": c, "diffs": diffs[:3]},
                              found_input=bool(n0))
    return len(cases), mism


def systematic_cases(maxlen):
    import itertools
    F = ["func", [[[0, 0], [1, 0], [0, 0], [2, 0]], [[1, 0], [0, 0], [0, 1], [0, 0]]]]
    G = ["func", [[[1, 0], [0, 0], [0, 0], [2, 0]], [[0, 0], [1, 0], [0, 0], [1, 0]]]]
    B = [[1, 0], [0, 2], [3, 0], [4, 0]]
    P = ["pair", [[0, 1], [1, 0], [2, 0], [0, -1]], ["fun", [[1, 1], [0, 1]]]]
    bases = [["matmulq", F, B], ["matmul", F, P], ["matmul", P, G],
             ["matmul", ["mulnum", F, [1, 1], "r"], G]]
    ops = [lambda x: ["dag", x], lambda x: ["conj", x], lambda x: ["trans", x],
           lambda x: ["mulnum", x, [0, 1], "r"], lambda x: ["neg", x],
           lambda x: ["matmulq", x, B]]
    out = []
    for base in bases:
        for n in range(1, maxlen + 1):
            for chain in itertools.product(range(len(ops)), repeat=n):
                x = base
                for k in chain:
                    x = ops[k](x)
                out.append({"tree": x, "t": 2, "state": [[1, 0], [0, 0], [2, 0], [0, 1]],
                            "corpus": "systematic"})
    return out


def systematic_inter_args_cases(rng, quick=True):
    """sampled coefficients sharing an operator (fused / summed / multiplied) and
    argument replacement over every leaf kind, at several times"""
    M = [[0, 1], [1, 0], [2, 0], [0, -1]]
    M2 = [[1, 0], [0, 2], [0, 0], [-1, 0]]
    S = [[1, 0], [0, 0], [2, 0], [0, 1]]
    out = []
    for grid in ([-2, 0, 1, 3], [-1, 1], [-4, -2, 0, 2, 4]):
        for order in (0, 1, 2, 3):
            I1, I2 = g_ipoly(rng, grid, order), g_ipoly(rng, grid, order)
            I3 = g_ipoly(rng, grid, (order + 1) % 4)
            g4 = list(grid)
            g4[0] -= 1
            I4 = g_ipoly(rng, g4, order)
            trees = [
                ["list", [[M, I1], [M, I2], [M2, None]]],
                ["list", [[M, I1], [M, I3]]],
                ["list", [[M, I1], [M, I4], [M, I2]]],
                ["compress", ["add", ["pair", M, I1], ["pair", M, I2]]],
                ["ctor", ["add", ["add", ["pair", M, I1], ["const", M2]], ["pair", M, I2]]],
                ["mulcoef", ["pair", M, I1], I2, "r"],
                ["dag", ["matmul", ["pair", M, I1], ["pair", M2, ["sum", I2, I1]]]],
                ["mulnum", ["list", [[M, ["conj", I1]], [M, I2], [M, I1]]], [0, 1], "l"],
            ]
            for x in trees:
                for t in rng.sample([-3, -2, -1, 0, 1, 2, 3], 2):
                    out.append({"tree": x, "t": t, "state": S, "corpus": "systematic-inter"})
    F = ["funcw", [[[0, 0], [1, 0], [0, 0], [2, 0]], [[1, 0], [0, 0], [0, 1], [0, 0]]], 2]
    G = ["func", [[[1, 0], [0, 0], [0, 0], [2, 0]], [[0, 0], [1, 0], [0, 0], [1, 0]]]]
    P = ["pair", M, ["funw", [[1, 1], [0, 1]], 2]]
    Q = ["pair", M2, ["mul", ["funw", [[1, 0], [1, 0]], 3], ["conj", ["fun", [[0, 1], [1, 0]]]]]]
    bases = [F, ["matmul", F, P], ["dag", ["matmul", G, F]], ["list", [[M, P[2]], [M, Q[2]], [M2, None]]],
             ["mulcoef", ["mulnum", F, [1, 1], "r"], Q[2], "l"], ["add", ["matmul", P, F], Q]]
    mats = F[1]
    for style in ("py", "kw", "dict"):
        for a0 in ({"w": 2}, {}, {"phi": 1}, {"w": 2, "k": 1}):
            L = ["funcs", mats, style, a0]
            Lc = ["pair", M, ["funs", [[1, 1], [0, 1]], style, a0]]
            for n in (({"phi": 1}, {"phi": -1, "k": 1}, {"w": 3}) if quick else
                      ({"phi": 1}, {"k": -1}, {"phi": -1, "k": 1}, {"w": 3})):
                for mode in (("ctor", "call", "argumentsd") if quick else
                             ("ctor", "arguments", "call", "calld", "argumentsd")):
                    for x in (["args", L, n, mode],
                              ["args", ["add", ["dag", ["matmul", L, G]], Lc], n, mode]):
                        out.append({"tree": x, "t": rng.choice([-2, -1, 1, 2]), "state": S,
                                    "corpus": "systematic-args-defaults"})
                out.append({"tree": ["args", ["args", ["matmul", Lc, L], n, "ctor"],
                                     {"w": -1}, "arguments"],
                            "t": 2, "state": S, "corpus": "systematic-args-defaults"})
    for b in bases:
        for mode in ("ctor", "arguments", "call"):
            for x in (["args", b, 3, mode], ["args", ["args", b, 3, "ctor"], -2, mode],
                      ["dag", ["args", ["mulnum", b, [0, 1], "l"], 0, mode]],
                      ["matmul", ["args", b, -1, mode], G]):
                out.append({"tree": x, "t": rng.choice([-2, -1, 1, 2, 3]), "state": S,
                            "corpus": "systematic-args"})
    return out


def has_op(x, names):
    if isinstance(x, list):
        if x and isinstance(x[0], str) and x[0] in names:
            return True
        return any(has_op(y, names) for y in x)
    return False


def tree_depth(x):
    ch = subtrees(x)
    return 1 + (max(tree_depth(c) for c in ch) if ch else 0)


def tree_ops(x, acc):
    acc[x[0]] = acc.get(x[0], 0) + 1
    for c in subtrees(x):
        tree_ops(c, acc)
    return acc


def run(ctx):
    rng = random.Random(ctx.seed * 7919 + 5)
    ctx.cov["rule"] = (
        "case = (expression tree over the QobjEvo constructions, integer time, 2x2 "
        "Gaussian-integer state); the tree is built as a real QobjEvo and as a Coq term; "
        "compared exactly: __call__, _call, matmul_data (Dense, CSR), expect_data (Dense, "
        "CSR), recursive element kinds, and the Coq `sem` against the NumPy oracle; a case "
        "is non-trivial when the tree has depth >= 2; distinct by (tree, t, state)")
    ctx.cov["trusted_base"] += [
        "Model/C05.v is hand-written (mirrors _element.pyx, the QobjEvo algebra of "
        "qobjevo.pyx incl. arguments(), replace_arguments of the five element classes, the "
        "Function/Inter/Sum/Mul/Conj/Norm/Constant coefficient classes and add_inter); tied to the "
        "source by the exact correspondence run below, not verified against it",
        "Theorems hold for any structure Alg (commutative ring with additive involution, "
        "module with associative bilinear product, unit, linear trace, additive (anti)"
        "homogeneous trans/conj/dag, sound equality test); that complex matrices as "
        "implemented by the data layer form such a structure up to rounding is assumed "
        "(it is property C01/C02's subject); laws are proved for the 2x2 Gaussian instance",
        "Qobj.__eq__ (tolerant isequal) used by compress is modelled as exact equality",
        "A map given to linear_map is additive and homogeneous (tr_ok), the documented "
        "contract of QobjEvo.linear_map; Qobj.to is the identity on values",
        "Python callables at the leaves are pure functions of t and of their args; each "
        "function leaf carries its declared parameter set (None for **kw / dict style) and "
        "the _f_parameters filter of __init__ / replace_arguments is modelled (dinit, dmerge); "
        "the replace_arguments cache (sharing of equal results) is not: it does not change values",
        "TimeS: on the times in play add_inter's closeness test (rtol=1e-15, atol=0) is "
        "equality (law tclose_sep, proved for integer ticks below 1e15); two distinct doubles "
        "within 4 ulp of each other are outside the theorem (rounding level)",
        "InterCoefficient's index search returns the interval of t for an increasing grid "
        "(find_idx); construction of the polynomial pieces from samples (splines) is C06",
        "lifts: operators of the 2-dimensional space are the top-left block of the 4x4 "
        "universe G4 and spre/spost/tensor read that block (so `a + number` is excluded from "
        "lifted operands); the scalar 0.5 of lindblad_dissipator is not a Gaussian integer: "
        "for it and liouvillian with c_ops the correspondence compares element kinds and the "
        "NumPy oracle compares values; expect_data of superoperators (column-stacked states) "
        "is outside the model",
        "a ket is read as the matrix with that column and a zero second column; "
        "<ket|A|ket> as tr(A |ket><ket|)",
        "NumPy as the independent evaluator of the oracle (exact on the integer payloads)",
    ]

    def search(failed, log):
        r2 = random.Random(ctx.seed + 17)
        for _ in range(400):
            c = gen_case(r2, False, True)
            if oracle_case(ctx, c["tree"], c["t"], c["state"], "search-after-proof-failure"):
                return

    vlib.standard_proof_step(ctx, ["Props/C05.vo", "Props/C05_mx.vo", "Props/C05_lifts.vo"],
                             ["Props/C05.v", "Props/C05_mx.v", "Props/C05_lifts.v"], search)

    if not ctx.quick:
        # independent re-check of the compiled property file by coqchk
        with vlib.Lock("coq"):
            rc, out = vlib.sh("timeout 900 coqchk -silent -o -Q . QV QV.Props.C05",
                              timeout=930, cwd=vlib.COQ)
        okc = rc == 0 and "* Axioms: <none>" in out
        ctx.add_obligation("coqchk -o QV.Props.C05: checked, Axioms: <none>", okc)
        ctx.cov["coqchk"] = re.sub(r"\s+", " ", out[-600:])
        if not okc:
            ctx.violation("proof:coqchk", "Props.C05", "coqchk does not accept Props/C05.vo "
                          "without assumptions", {"log": out[-2500:]}, found_input=False)

    # -- source structure the model mirrors (fail closed on new classes/methods)
    try:
        got = source_structure()
        ok = got == EXPECTED_CLASSES
    except Exception as e:
        got, ok = {"error": str(e)}, False
    ctx.add_obligation("structure:_element.pyx classes/methods are the modelled ones", ok)
    struct_ok = ok
    struct_diff = None
    if not ok:
        struct_diff = {k: sorted(set(got.get(k, ())) ^ set(EXPECTED_CLASSES.get(k, ())))
                       for k in set(got) | set(EXPECTED_CLASSES)
                       if set(got.get(k, ())) != set(EXPECTED_CLASSES.get(k, ()))}

    nviol0 = len(ctx.violations)
    # -- corpus first
    cases = []
    cdir = os.path.join(vlib.VERIF, "corpus", "C05")
    if os.path.isdir(cdir):
        for f in sorted(os.listdir(cdir)):
            if f.endswith(".json"):
                c = json.load(open(os.path.join(cdir, f)))
                c["corpus"] = f
                cases.append(c)
    # systematic stream (seed independent): every chain of unary operations up to
    # length 2 (quick) / 3 (thorough) over four product bases
    cases += systematic_cases(2 if ctx.quick else 3)
    cases += systematic_inter_args_cases(random.Random(ctx.seed + 505), ctx.quick)
    ncorpus = len(cases)
    ncore = 260 if ctx.quick else 6000
    while len(cases) < ncorpus + ncore:
        cases.append(gen_case(rng, False, ctx.quick))
    core_cases = [c for c in cases if is_core(c["tree"])]
    ext_corpus = [c for c in cases if not is_core(c["tree"])]

    # -- correspondence: implementation vs model
    dist = {"depth": {}, "ops": {}, "t": {}, "terms": {}}
    impl = []
    for c in core_cases:
        x, t, s = c["tree"], c["t"], c["state"]
        try:
            r = observe_impl(build_impl(x), t, s)
        except Exception as e:
            r = {"error": "%s: %s" % (type(e).__name__, str(e)[:200])}
        impl.append(r)
        d = tree_depth(x)
        dist["depth"][d] = dist["depth"].get(d, 0) + 1
        dist["t"][t] = dist["t"].get(t, 0) + 1
        tree_ops(x, dist["ops"])
        nt = len(r.get("kinds", []))
        dist["terms"][nt] = dist["terms"].get(nt, 0) + 1
        ctx.count_case(json.dumps(c, sort_keys=True), nontrivial=d >= 2)
    ctx.cov["model_variant"] = MODEL_VARIANT
    exprs = ["obs %s (%d) %s %s %s" % ((c_tree(c["tree"]), c["t"], c_mat(c["state"]))
                                       + tuple(c_mat(m) for m in ket_of(c["state"])))
             for c in core_cases]
    model_vals = None
    try:
        model_vals = vlib.coq_eval_values("cases_C05", HEADER, exprs, chunk=200)
    except RuntimeError as e:
        ctx.violation("corr:C05:model-eval", "coqc", "model evaluation failed",
                      {"log": str(e)[-2500:]}, found_input=False)
    mism = 0
    n_oracle_sem = 0
    if model_vals is not None:
        for c, r, mv in zip(core_cases, impl, model_vals):
            v = vlib.parse_coq_value(mv)
            m_call, m__call, m_md, m_ex, m_kinds, m_sem, m_mdk, m_exk = v
            m_md = None if m_md is None else list(m_md[1])
            m_mdk = None if m_mdk is None else list(m_mdk[1])
            m_kinds = [canon_kind(k) for k in m_kinds]
            diffs = []
            if "error" in r:
                diffs.append(("build", r["error"], None))
            else:
                if r["call"] != list(m_call):
                    diffs.append(("__call__", r["call"], list(m_call)))
                if r["_call"] != list(m__call):
                    diffs.append(("_call", r["_call"], list(m__call)))
                for fmt in FORMATS:
                    im = r["md_" + fmt]
                    mo = "ERR:TypeError" if m_md is None else m_md
                    if im != mo:
                        diffs.append(("matmul_data/" + fmt, im, mo))
                    if r["ex_" + fmt] != list(m_ex):
                        diffs.append(("expect_data/" + fmt, r["ex_" + fmt], list(m_ex)))
                    mo = "ERR:TypeError" if m_mdk is None else m_mdk
                    if r["mdk_" + fmt] != mo:
                        diffs.append(("matmul_data/ket/" + fmt, r["mdk_" + fmt], mo))
                    if r["exk_" + fmt] != list(m_exk):
                        diffs.append(("expect_data/ket/" + fmt, r["exk_" + fmt], list(m_exk)))
                if [canon_kind(k) for k in r["kinds"]] != m_kinds:
                    diffs.append(("element kinds", repr(r["kinds"]), repr(m_kinds)))
            # the NumPy oracle is the Coq `sem`
            try:
                o = to_gi_list(sem_np(c["tree"], float(c["t"])))
            except ValueError as e:
                o = str(e)
            n_oracle_sem += 1
            if o != list(m_sem):
                ctx.violation("harness:oracle-vs-sem", "oracle-differs-from-coq-sem",
                              "NumPy oracle and Coq sem disagree (harness defect)",
                              {"case": c, "oracle": o, "sem": list(m_sem)}, found_input=False)
            ctx.cov["traces_validated_against_impl"] += 1
            if diffs:
                mism += 1
                if mism <= 3:
                    # look for the property violation behind the disagreement
                    n = oracle_case(ctx, c["tree"], c["t"], c["state"], "correspondence")
                    ctx.violation("corr:C05:" + diffs[0][0], "model-differs",
                                  "model and implementation disagree on %s" % diffs[0][0]
                                  + ("" if n else " (the oracle finds no property violation "
                                     "on this input)"),
                                  {"case": c, "diffs": diffs[:4]}, found_input=bool(n))
    nlc, lm = lift_correspondence(ctx, rng, 60 if ctx.quick else 900)

    # Coefficient.__add__ (add_inter: fuse or SumCoefficient): value and class
    ncadd = 120 if ctx.quick else 1500
    cadd_cases = []
    for k in range(ncadd):
        r = rng.random()
        if r < 0.6:
            a = g_ipoly(rng)
            rel = rng.random()
            if rel < 0.4:        # same grid, same order: fused
                b = g_ipoly(rng, grid=a[1], order=len(a[2]) - 1)
            elif rel < 0.6:      # same grid, other order
                b = g_ipoly(rng, grid=a[1], order=(len(a[2]) + rng.randint(0, 2)) % 4)
            elif rel < 0.8:      # same length, one point moved
                g2 = list(a[1])
                g2[-1] += 1
                b = g_ipoly(rng, grid=g2, order=len(a[2]) - 1)
            else:
                b = g_ipoly(rng)
        else:
            a, b = g_coef(rng, 1, True), g_coef(rng, 1, True)
        cadd_cases.append((a, b, rng.randint(-5, 5)))
    try:
        cvals = vlib.coq_eval_values(
            "cases_C05_cadd", HEADER,
            ["cobs %s %s (%d)" % (c_coef(a), c_coef(b), t) for a, b, t in cadd_cases], chunk=300)
    except RuntimeError as e:
        cvals = None
        ctx.violation("corr:C05:model-eval", "coqc-cadd", "model evaluation failed",
                      {"log": str(e)[-2500:]}, found_input=False)
    cm = 0
    for (a, b, t), mv in zip(cadd_cases, cvals or []):
        m_val, m_kind, m_sum = vlib.parse_coq_value(mv)
        ctx.count_case(("cadd", json.dumps([a, b]), t), nontrivial=a[0] == "ipoly" == b[0])
        ctx.cov["traces_validated_against_impl"] += 1
        try:
            obj = coef_impl(a) + coef_impl(b)
            i_val = to_gi_list(np.array([obj(float(t))]))
            i_kind = CKIND.get(type(obj).__name__, "?" + type(obj).__name__)
        except Exception as e:
            i_val, i_kind = "ERR:" + type(e).__name__, str(e)[:100]
        want = to_gi_list(np.array([coef_np(a, float(t)) + coef_np(b, float(t))]))
        if list(m_sum) != want:
            ctx.violation("harness:oracle-vs-sem", "coef-oracle-differs-from-coq",
                          "NumPy coefficient oracle and Coq ceval disagree (harness defect)",
                          {"a": a, "b": b, "t": t}, found_input=False)
        if i_val != list(m_val) or i_kind != m_kind:
            cm += 1
            if cm <= 3:
                n = coef_case(ctx, ["sum", a, b], t)
                ctx.violation("corr:C05:Coefficient.__add__", "model-differs",
                              "model and implementation disagree on Coefficient.__add__: "
                              "impl %r %s, model %r %s" % (i_val, i_kind, list(m_val), m_kind),
                              {"kind": "coef", "coef": ["sum", a, b], "t": t},
                              found_input=bool(n))
    ctx.log("correspondence: %d trees (%d mismatches), %d lifts (%d mismatches), "
            "%d coefficient sums (%d mismatches)"
            % (len(core_cases), mism, nlc, lm, len(cadd_cases), cm))

    # -- oracle on the same trees + extended trees + lifts + coefficients + malformed
    nor = 0
    for c in core_cases:
        nor += oracle_case(ctx, c["tree"], c["t"], c["state"], c.get("corpus", "core-stream"))
    next_ = 120 if ctx.quick else 3000
    ext_cases = list(ext_corpus)
    while len(ext_cases) < len(ext_corpus) + next_:
        ext_cases.append(gen_case(rng, True, ctx.quick))
    for c in ext_cases:
        ctx.count_case(json.dumps(c, sort_keys=True), nontrivial=tree_depth(c["tree"]) >= 2)
        nor += oracle_case(ctx, c["tree"], c["t"], c["state"], c.get("corpus", "extended-stream"))
        tree_ops(c["tree"], dist["ops"])
    nl = 40 if ctx.quick else 800
    for k in range(nl):
        a = gen_case(rng, False, True)
        b = gen_case(rng, False, True)
        if n_terms(a["tree"]) * n_terms(b["tree"]) > 16:
            continue
        if bound(a["tree"], 3) * bound(b["tree"], 3) * 64 > LIMIT:
            continue
        ctx.count_case(("lift", json.dumps(a, sort_keys=True), json.dumps(b, sort_keys=True)))
        nor += lifts_case(ctx, a["tree"], b["tree"], a["t"], "lift-stream")
    nc = 150 if ctx.quick else 3000
    for k in range(nc):
        c = g_coef(rng, 3, True)
        t = rng.choice([-3, -2, -1, 0, 1, 2, 3])
        ctx.count_case(("coef", json.dumps(c), t), nontrivial=c[0] not in ("fun", "const"))
        nor += coef_case(ctx, c, t)
    # sampled (array) coefficients: their algebra and the merging of terms that
    # share an operator (compress / constructor / add_inter), all grid relations
    ns = 0
    sdist = {}
    for c in sampled_cases(rng, ctx.quick):
        key = "%s@%g" % (c["rel"] if isinstance(c["rel"], str) else "%s%d" % tuple(c["rel"]),
                         c["scale"])
        sdist[key] = sdist.get(key, 0) + 1
        ns += 1
        if "coef" in c:
            ctx.count_case(("sampled-coef", json.dumps(c["coef"])))
            nor += coef_case(ctx, c["coef"], c["times"])
        else:
            ctx.count_case(("sampled-tree", json.dumps(c["tree"]), c["t"]))
            nor += oracle_case(ctx, c["tree"], c["t"], c["state"], "sampled-stream")
    dist["sampled"] = {"cases": ns, "relations": len(RELATIONS), "scales": SCALES,
                       "orders": "0-3", "compare": "exact for order 0/1 on power-of-two grids "
                       "without polynomial leaves, else 1e-12 relative"}
    kinds = ["add-wrong-dims", "iadd-wrong-dims", "matmul-wrong-dims", "mul-string",
             "add-none", "add-evo-wrong-dims", "imatmul-evo-wrong-dims"]
    nm = 28 if ctx.quick else 210
    for k in range(nm):
        c = gen_case(rng, False, True)
        ctx.count_case(("malformed", kinds[k % len(kinds)], json.dumps(c, sort_keys=True)))
        nor += malformed_case(ctx, c["tree"], c["t"], kinds[k % len(kinds)])
    ctx.log("oracle: %d core + %d extended trees, %d lift pairs, %d coefficient trees, "
            "%d sampled-coefficient cases, %d malformed; %d violation reports"
            % (len(core_cases), len(ext_cases), nl, nc, ns, nm, nor))

    if not struct_ok:
        # the set of classes / methods changed: the model may no longer mirror the source
        found = len(ctx.violations) > nviol0
        if not found:
            ctx.violation("structure:_element.pyx", sorted(struct_diff or {}),
                          "element classes/methods differ from the modelled ones: %r" % struct_diff,
                          {"diff": struct_diff}, found_input=False)

    dist["streams"] = {"core": len(core_cases), "extended": len(ext_cases), "lift_pairs": nl,
                       "coefficient": nc, "malformed": nm, "corpus": ncorpus}
    dist["entries"] = "Gaussian integers in [-2,2]^2; polynomial degree <= 2; t in -3..3"
    ctx.cov["input_distribution"] = dist
    if core_cases:
        ctx.sample({"case": core_cases[-1], "impl": impl[-1],
                    "model": model_vals[-1] if model_vals else None})
        ctx.sample({"case": core_cases[0], "impl": impl[0],
                    "model": model_vals[0] if model_vals else None})
    if ext_cases:
        ctx.sample({"extended_case": ext_cases[-1]})
    ctx.cov["oracle_vs_sem_checked"] = n_oracle_sem
    ctx.cov["explanation"] = (
        "Theorems (Props/C05.v) are proved for every algebra, every element and every "
        "expression tree of the model (structural induction).  The model is tied to the "
        "source by exact equality of __call__/_call/matmul_data/expect_data/element kinds on "
        "generated trees (vm_compute on the 2x2 Gaussian instance).  Independently the "
        "property itself is checked on the real objects against NumPy; operations outside "
        "the modelled core (division by non-units, values of lindblad_dissipator, "
        "operator_to_vector, Coefficient algebra including sampled "
        "coefficients and add_inter, malformed operands) are covered by that oracle only and "
        "are exploration, not obligations; comparisons involving sampled coefficients of "
        "order >= 2 or non power-of-two grids use a 1e-12 relative tolerance (validation).")


def replay(ctx, payload):
    d = payload["detail"]
    kind = d.get("kind")
    if kind in ("call", "matmul_data", "expect_data"):
        oracle_case(ctx, d["tree"], d["t"], d.get("state", [[1, 0], [0, 0], [0, 0], [1, 0]]),
                    "replay")
    elif kind == "lift":
        lifts_case(ctx, d["tree"], d["tree2"], d["t"], "replay")
    elif kind == "coef":
        coef_case(ctx, d["coef"], d["t"])
    elif kind == "malformed":
        malformed_case(ctx, d["tree"], d["t"], d["which"])
    elif "case" in d:
        c = d["case"]
        oracle_case(ctx, c["tree"], c["t"], c["state"], "replay")
