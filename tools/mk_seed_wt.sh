#!/bin/sh
# tools/mk_seed_wt.sh <dir>: worktree of /repo HEAD with build products, for an independent mutant writer
set -e
D="$1"
git -C /repo worktree add --detach "$D" HEAD >/dev/null 2>&1
cd /repo
find qutip -name '*.so' -o -name '*.cpp' | while read f; do cp "$f" "$D/$f"; done
mkdir -p "$D/build" && cp -r build/. "$D/build/" 2>/dev/null || true
# make sure nothing needs rebuilding
(cd "$D" && /venv/bin/python setup.py build_ext --inplace -j 4 >/dev/null 2>&1) || true
echo "$D ready"
