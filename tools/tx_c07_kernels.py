"""Translator for the loop kernels of qutip/core/_brtensor.pyx (C07).

Reads, from the CURRENT source,
  _br_term_dense   _br_cterm_dense    pre-sum loops (ac_term / bd_term) and the
                                      four-fold element loop -> a MathComp
                                      matrix comprehension
  _br_term_sparse  _br_cterm_sparse   the same pre-sums and element statements
                                      (the loop-skipping devices `break`,
                                      `d_min`, `elif ...` are NOT modelled: the
                                      emitted definition is what the kernel
                                      computes if no kept entry is skipped)
  _br_term_data    _br_cterm_data     the secular mask loop after
                                      `if cutoff == np.inf: return out`
  _br_cterm_data                      the Kronecker-product part, as an Sexpr
and writes coq/Gen/C07_kernels.v.  Cython declarations (`cdef` lines, typed
signatures) are stripped; everything else must parse as Python and match the
expected statement shapes, otherwise `Unsupported` is raised (fail closed).

Conventions of the emitted Coq (section variables):
  h        the literal 0.5
  G, near  skew values live in an abelian group G; `fabs(x) < cutoff` is the
           abstract predicate `near x` (cutoff = +inf is `near = xpredT`)
  out[a*nrows + b, c*nrows + d] is entry (mxtens_index (a,b), mxtens_index (c,d))
"""
import ast
import os
import re
import sys

HERE = os.path.dirname(os.path.abspath(__file__))
sys.path.insert(0, os.path.join(os.path.dirname(HERE), "lib"))
import vlib  # noqa: E402
import tx_c07_superop as txs  # noqa: E402

Unsupported = txs.Unsupported


def _src(n):
    return ast.unparse(n)


def bad(node, why):
    raise Unsupported("kernel translator: %s: %s" % (why, _src(node)[:120]
                                                    if isinstance(node, ast.AST) else node))


# --------------------------------------------------------- source extraction
def kernel_source(txt, name):
    m = re.search(r"^cpdef \w+ %s\((.*?)\):\n(.*?)(?=^(?:@cython|cpdef |cdef class |def |class )|\Z)"
                  % re.escape(name), txt, re.S | re.M)
    if not m:
        raise Unsupported("kernel %s not found" % name)
    sig, body = m.group(1), m.group(2)
    flat = re.sub(r"\[[^\]]*\]", "", sig.replace("\n", " "))    # drop memoryview specs
    params = [p.strip().split()[-1] for p in flat.split(",")]
    lines = []
    for ln in body.split("\n"):
        if re.match(r"\s*cdef ", ln):
            if "=" in ln and not re.match(
                    r"\s*cdef (size_t|int) nrows = A\.shape\[0\](, \w+)*( #.*)?$", ln) \
                    and ln.strip() != "cdef type cls = type(A)":
                raise Unsupported("%s: cdef with initialiser: %s" % (name, ln.strip()))
            continue
        lines.append(ln)
    src = "def %s(%s):\n%s\n" % (name, ", ".join(params), "\n".join(lines))
    try:
        fn = ast.parse(src).body[0]
    except SyntaxError as e:
        raise Unsupported("%s does not parse after stripping: %s" % (name, e))
    body = [s for s in fn.body
            if not (isinstance(s, ast.Expr) and isinstance(s.value, ast.Constant))]
    return params, body


# ------------------------------------------------------- scalar expressions
ARRAYS = {"A_mat", "B_mat", "spectrum", "ac_term", "bd_term"}


def sc(node, idx):
    """scalar expression over the field R -> Coq text."""
    if isinstance(node, ast.Constant):
        if node.value == 0.5:
            return "h"
        if node.value in (1, 1.0) and not isinstance(node.value, bool):
            return "1"
        bad(node, "literal")
    if isinstance(node, ast.Name):
        if node.id == "elem":
            return "elem"
        bad(node, "name")
    if isinstance(node, ast.Subscript):
        arr = node.value
        if isinstance(arr, ast.Name) and arr.id in ARRAYS and isinstance(node.slice, ast.Tuple) \
                and len(node.slice.elts) == 2 and all(
                    isinstance(e, ast.Name) and e.id in idx for e in node.slice.elts):
            return "(%s %s %s)" % (arr.id, node.slice.elts[0].id, node.slice.elts[1].id)
        bad(node, "subscript")
    if isinstance(node, ast.BinOp) and type(node.op) in (ast.Mult, ast.Add, ast.Sub):
        op = {ast.Mult: "*", ast.Add: "+", ast.Sub: "-"}[type(node.op)]
        return "(%s %s %s)" % (sc(node.left, idx), op, sc(node.right, idx))
    bad(node, "scalar expression")


def gexpr(node, idx):
    """expression over the group G of skew values."""
    if isinstance(node, ast.Subscript) and isinstance(node.value, ast.Name) \
            and node.value.id == "skew" and isinstance(node.slice, ast.Tuple) \
            and all(isinstance(e, ast.Name) and e.id in idx for e in node.slice.elts):
        return "(skew %s %s)" % tuple(e.id for e in node.slice.elts)
    if isinstance(node, ast.BinOp) and isinstance(node.op, ast.Sub):
        return "(%s - %s)" % (gexpr(node.left, idx), gexpr(node.right, idx))
    if isinstance(node, ast.Name) and node.id == "dskew":
        return "dskew"
    bad(node, "skew expression")


def near_test(test, idx):
    """`fabs(E) < cutoff` -> near (E)"""
    if isinstance(test, ast.Compare) and len(test.ops) == 1 and isinstance(test.ops[0], ast.Lt) \
            and _src(test.comparators[0]) == "cutoff" and isinstance(test.left, ast.Call) \
            and _src(test.left.func) == "fabs" and len(test.left.args) == 1:
        return "near %s" % gexpr(test.left.args[0], idx)
    bad(test, "secular test")


def is_range(node, var, text):
    return (isinstance(node, ast.For) and isinstance(node.target, ast.Name)
            and node.target.id == var and _src(node.iter) == text and not node.orelse)


# ------------------------------------------------------------ loop patterns
def presum_nest(stmt, sparse):
    """for a: for b (descending): if fabs(skew[a,b]) < cutoff: for k: X[a,b] += e
    returns (guard, {name: summand})"""
    if not is_range(stmt, "a", "range(nrows)") or len(stmt.body) != 1:
        bad(stmt, "pre-sum outer loop")
    fb = stmt.body[0]
    if not is_range(fb, "b", "range(nrows - 1, -1, -1)") or len(fb.body) != 1:
        bad(fb, "pre-sum loop over b")
    cond = fb.body[0]
    if not isinstance(cond, ast.If):
        bad(cond, "pre-sum guard")
    guard = near_test(cond.test, {"a", "b"})
    if sparse:
        # elif skew[a, b] > cutoff: break     (loop-skipping, not modelled)
        if not (len(cond.orelse) == 1 and isinstance(cond.orelse[0], ast.If)
                and ocmp(cond.orelse[0].test)
                and len(cond.orelse[0].body) == 1
                and isinstance(cond.orelse[0].body[0], ast.Break)
                and not cond.orelse[0].orelse):
            bad(cond, "sparse pre-sum skip")
    elif cond.orelse:
        bad(cond, "unexpected else in pre-sum")
    if len(cond.body) != 1 or not is_range(cond.body[0], "k", "range(nrows)"):
        bad(cond, "pre-sum loop over k")
    sums = {}
    for s in cond.body[0].body:
        if not (isinstance(s, ast.AugAssign) and isinstance(s.op, ast.Add)
                and isinstance(s.target, ast.Subscript)
                and _src(s.target) in ("ac_term[a, b]", "bd_term[a, b]")):
            bad(s, "pre-sum statement")
        name = s.target.value.id
        if name in sums:
            bad(s, "pre-sum assigned twice")
        sums[name] = sc(s.value, {"a", "b", "k"})
    if set(sums) != {"ac_term", "bd_term"}:
        bad(stmt, "pre-sums")
    return guard, sums


def elem_block(stmts, sparse):
    """statements of the kept branch -> nested lets ending in `elem`."""
    idx = {"a", "b", "c", "d"}
    lets = []
    store = None
    for s in stmts:
        if store is not None:
            bad(s, "statement after the store")
        if isinstance(s, ast.Assign) and _src(s.targets[0]) == "elem":
            lets.append("let elem := %s in" % sc(s.value, idx))
        elif isinstance(s, ast.AugAssign) and _src(s.target) == "elem" \
                and type(s.op) in (ast.Mult, ast.Sub, ast.Add):
            op = {ast.Mult: "*", ast.Sub: "-", ast.Add: "+"}[type(s.op)]
            lets.append("let elem := (elem %s %s) in" % (op, sc(s.value, idx)))
        elif isinstance(s, ast.If) and isinstance(s.test, ast.Compare) \
                and _src(s.test) in ("a == c", "b == d") and not s.orelse and len(s.body) == 1:
            t = s.body[0]
            if isinstance(t, ast.Assign) and _src(t.targets[0]) == "elem":
                e = sc(t.value, idx)
            elif isinstance(t, ast.AugAssign) and _src(t.target) == "elem" \
                    and isinstance(t.op, ast.Sub):
                e = "(elem - %s)" % sc(t.value, idx)
            else:
                bad(t, "conditional update")
            lets.append("let elem := (if %s then %s else elem) in" % (_src(s.test), e))
        elif not sparse and isinstance(s, ast.Assign) and \
                _src(s.targets[0]) == "out_array[a * nrows + b, c * nrows + d]":
            if _src(s.value) != "elem":
                lets.append("let elem := %s in" % sc(s.value, idx))
            store = "dense"
        elif sparse and isinstance(s, ast.If) and _src(s.test) == "elem != 0" and not s.orelse:
            got = [_src(x) for x in s.body]
            if got != ["coo_rows.push_back(a * nrows + b)", "coo_cols.push_back(c * nrows + d)",
                       "coo_data.push_back(elem)"]:
                bad(s, "COO push")
            store = "sparse"
        else:
            bad(s, "element statement")
    if store is None:
        raise Unsupported("element block without a store")
    return lets


def full_nest(stmt):
    """for a: for b: for c: for d: <one statement>   (all range(nrows))"""
    cur = stmt
    for v in "abcd":
        if not is_range(cur, v, "range(nrows)") or len(cur.body) != 1:
            bad(cur, "loop over " + v)
        cur = cur.body[0]
    return cur


def sparse_nest(stmt):
    """the element loop of the sparse kernels; returns the kept-branch
    statements and checks the (unmodelled) skipping devices textually."""
    if not is_range(stmt, "a", "range(nrows)") or len(stmt.body) != 1:
        bad(stmt, "sparse loop a")
    fb = stmt.body[0]
    if not is_range(fb, "b", "range(nrows)") or len(fb.body) != 2 \
            or _src(fb.body[0]) != "d_min = 0":
        bad(fb, "sparse loop b")
    fc = fb.body[1]
    if not is_range(fc, "c", "range(nrows)") or len(fc.body) != 2:
        bad(fc, "sparse loop c")
    skip = fc.body[0]
    if not (isinstance(skip, ast.If) and not skip.orelse and len(skip.body) == 1
            and isinstance(skip.body[0], ast.Break) and ocmp(skip.test)):
        bad(skip, "sparse skip over c")
    fd = fc.body[1]
    if not is_range(fd, "d", "range(d_min, nrows)") or len(fd.body) != 2 \
            or _src(fd.body[0]) != "dskew = skew[a, b] - skew[c, d]":
        bad(fd, "sparse loop d")
    br = fd.body[1]
    if not (isinstance(br, ast.If) and ocmp(br.test)
            and [_src(x) for x in br.body] == ["d_min = d"] and len(br.orelse) == 1):
        bad(br, "sparse d_min device")
    keep = br.orelse[0]
    if not (isinstance(keep, ast.If) and _src(keep.test) == "fabs(dskew) < cutoff"
            and len(keep.orelse) == 1):
        bad(keep, "sparse kept branch")
    last = keep.orelse[0]
    if not (isinstance(last, ast.If) and ocmp(last.test)
            and len(last.body) == 1 and isinstance(last.body[0], ast.Break)
            and not last.orelse):
        bad(last, "sparse break")
    return keep.body


# ----------------------------------------------------------------- kernels
def prologue(body, cross, name):
    """leading statements: transposition, array views, zero-initialised
    buffers.  Returns (index after the prologue, transposition kind)."""
    i = 0
    want_t = "A, B = (B.transpose(), A.transpose())" if cross else "A = A.transpose()"
    if _src(body[0]) != want_t:
        tr = None
    else:
        tr = "swapT" if cross else "T"
        i = 1
    allowed = [
        r"if type\(A\) is Dense:\n\s+A_mat = A\.as_ndarray\(\)\nelse:\n\s+A_mat = A\.to_array\(\)",
        r"if type\(B\) is Dense:\n\s+B_mat = B\.as_ndarray\(\)\nelse:\n\s+B_mat = B\.to_array\(\)",
        r"out = _data\.dense\.zeros\(nrows \* nrows, nrows \* nrows\)",
        r"out_array = out\.as_ndarray\(\)",
        r"np2term = np\.zeros\(\(nrows, nrows, 2\), dtype=np\.complex128\)",
        r"ac_term = np2term\[:, :, 0\]",
        r"bd_term = np2term\[:, :, 1\]",
    ]
    while i < len(body) and not isinstance(body[i], ast.For):
        t = _src(body[i])
        if not any(re.fullmatch(p, t) for p in allowed):
            bad(body[i], "%s: prologue statement" % name)
        i += 1
    return i, tr


def tx_loop_kernel(txt, name, cross, sparse):
    params, body = kernel_source(txt, name)
    want = ["A", "B", "spectrum", "skew", "cutoff"] if cross else ["A", "spectrum", "skew", "cutoff"]
    if params != want:
        raise Unsupported("%s: parameters %r" % (name, params))
    i, tr = prologue(body, cross, name)
    rest = body[i:]
    if len(rest) != 3 or not isinstance(rest[2], ast.Return):
        raise Unsupported("%s: expected two loop nests and a return" % name)
    guard, sums = presum_nest(rest[0], sparse)
    if sparse:
        kept = sparse_nest(rest[1])
        test = "near (skew a b - skew c d)"
        if not _src(rest[2].value).startswith("csr.from_coo_pointers(coo_rows.data(), "
                                               "coo_cols.data(), coo_data.data(), "
                                               "nrows * nrows, nrows * nrows"):
            bad(rest[2], "sparse return")
    else:
        inner = full_nest(rest[1])
        if not isinstance(inner, ast.If) or inner.orelse:
            bad(inner, "element guard")
        test = near_test(inner.test, {"a", "b", "c", "d"})
        kept = inner.body
        if _src(rest[2].value) != "out":
            bad(rest[2], "dense return")
    lets = elem_block(kept, sparse)
    return {"name": name, "cross": cross, "sparse": sparse, "transpose": tr,
            "guard": guard, "sums": sums, "test": test, "lets": lets}


def tx_mask(txt, name):
    """the secular mask of the matrix route: statements after
    `if cutoff == np.inf: return out`."""
    params, body = kernel_source(txt, name)
    k = None
    for j, s in enumerate(body):
        if isinstance(s, ast.If) and _src(s.test) == "cutoff == np.inf":
            if [_src(x) for x in s.body] != ["return out"] or s.orelse:
                bad(s, "cut-off test")
            k = j
    if k is None:
        raise Unsupported("%s: no cutoff == np.inf test" % name)
    rest = body[k + 1:]
    if len(rest) != 4:
        raise Unsupported("%s: mask part has %d statements" % (name, len(rest)))
    if _src(rest[0]) != "cutoff_arr = np.zeros((nrows * nrows, nrows * nrows), dtype=np.complex128)":
        bad(rest[0], "mask buffer")
    inner = full_nest(rest[1])
    if not isinstance(inner, ast.If) or inner.orelse or len(inner.body) != 1:
        bad(inner, "mask guard")
    test = near_test(inner.test, {"a", "b", "c", "d"})
    if _src(inner.body[0]) != "cutoff_arr[a * nrows + b, c * nrows + d] = 1.0":
        bad(inner.body[0], "mask store")
    if _src(rest[2]) != "C = _data.to(cls, _data.Dense(cutoff_arr, copy=False))" or \
            _src(rest[3]) != "return _data.multiply(out, C)":
        bad(rest[3], "mask application")
    return {"name": name, "test": test}


def tx_cterm_data(txt):
    """Kronecker part of _br_cterm_data as an Sexpr (reuses the superoperator
    translator)."""
    params, body = kernel_source(txt, "_br_cterm_data")
    if params != ["A", "B", "spectrum", "skew", "cutoff"]:
        raise Unsupported("_br_cterm_data: parameters %r" % params)
    stmts = []
    for s in body:
        if isinstance(s, ast.If) and _src(s.test) == "cutoff == np.inf":
            break
        stmts.append(s)
    else:
        raise Unsupported("_br_cterm_data: no cutoff test")
    if _src(stmts[0]) != "A, B = (B.transpose(), A.transpose())":
        pre = []
    else:
        # tuple assignment: rewrite as two assignments through temporaries
        pre = ast.parse("A_in = A\nA = B.transpose()\nB = A_in.transpose()").body
        stmts = stmts[1:]
    tr = txs.Tr({'A': 'O', 'B': 'O', 'spectrum': 'O'}, {})
    return txs.block(tr, pre + stmts + [ast.Return(value=ast.Name(id="out"))])


# ------------------------------------------- eigenbasis change (_brtools.pyx)
def _method_src(txt, header_re):
    m = re.search(r"^    (?:cdef|cpdef) \w+ %s\(self, double t(?:, Data (\w+))?\):\n(.*?)(?=^    (?:cdef|cpdef|def) |\Z)"
                  % header_re, txt, re.S | re.M)
    if not m:
        raise Unsupported("method %s not found" % header_re)
    body = "\n".join(ln[4:] if ln.startswith("    ") else ln for ln in m.group(2).split("\n"))
    body = re.sub(r'^\s*""".*?"""\s*$', "", body, flags=re.S | re.M)
    lines = [re.sub(r"<\w+>\s*", "", ln)           # Cython casts
             for ln in body.split("\n") if not re.match(r"\s*cdef ", ln)]
    try:
        fn = ast.parse("def f(self, t, %s):\n%s\n" % (m.group(1) or "_x", "\n".join(lines))).body[0]
    except SyntaxError as e:
        raise Unsupported("method %s does not parse: %s" % (header_re, e))
    return m.group(1), [s for s in fn.body
                        if not (isinstance(s, ast.Expr) and isinstance(s.value, ast.Constant))]


TRANS = {0: "%s", 1: "(%s)^T", 2: "(cj conj %s)", 3: "(dag conj %s)"}


class BasisTr:
    def __init__(self, txt):
        self.txt = txt
        _, inv = _method_src(txt, "_inv")
        got = [_src(s) for s in inv]
        want_tail = ["if self._evecs_inv is None:\n    self._evecs_inv = self.evecs(t).adjoint()",
                     "return self._evecs_inv"]
        if got[-2:] != want_tail or any(g != "self._compute_eigen(t)" for g in got[:-2]):
            raise Unsupported("_EigenBasisTransform._inv changed: %r" % got)
        _, conv = _method_src(txt, "_S_converter_inverse")
        if len(conv) != 1 or not isinstance(conv[0], ast.Return):
            raise Unsupported("_S_converter_inverse changed")
        self.conv = conv[0].value

    def expr(self, node, env):
        t = _src(node)
        if t == "self.evecs(t)":
            return "V"
        if t == "self._inv(t)":
            return "(dag conj V)"          # checked above: cached evecs(t).adjoint()
        if t == "self._S_converter_inverse(t)":
            return self.expr(self.conv, {})
        if isinstance(node, ast.Name) and node.id in env:
            return env[node.id]
        if isinstance(node, ast.Call):
            f = _src(node.func)
            kws = {k.arg for k in node.keywords}
            if f == "_data.kron_transpose" and len(node.args) == 2 and not kws:
                return "(kronT %s %s)" % (self.expr(node.args[0], env), self.expr(node.args[1], env))
            if f == "_data.matmul" and len(node.args) == 2 and kws <= {"dtype"}:
                return "(%s *m %s)" % (self.expr(node.args[0], env), self.expr(node.args[1], env))
            if f == "matmul_var_data" and len(node.args) == 4 and not kws and all(
                    isinstance(a, ast.Constant) and a.value in TRANS for a in node.args[2:]):
                l = TRANS[node.args[2].value] % self.expr(node.args[0], env)
                r = TRANS[node.args[3].value] % self.expr(node.args[1], env)
                return "(%s *m %s)" % (l, r)
        bad(node, "basis-change expression")

    def branch(self, meth, arg, test):
        a, body = _method_src(self.txt, meth)
        if a != arg:
            raise Unsupported("%s: argument %r" % (meth, a))
        found = None

        def walk(stmts):
            nonlocal found
            for s in stmts:
                if isinstance(s, ast.If):
                    if _src(s.test) == test:
                        found = s.body
                    walk(s.orelse)
        walk(body)
        if found is None:
            raise Unsupported("%s: branch `%s` not found" % (meth, test))
        env = {arg: arg}
        lets = []
        for s in found[:-1]:
            if not (isinstance(s, ast.Assign) and isinstance(s.targets[0], ast.Name)):
                bad(s, "basis-change statement")
            e = self.expr(s.value, env)
            env[s.targets[0].id] = s.targets[0].id
            lets.append("let %s := %s in" % (s.targets[0].id, e))
        if not isinstance(found[-1], ast.Return):
            bad(found[-1], "basis-change return")
        return " ".join(lets + [self.expr(found[-1].value, env)])


def tx_basis():
    txt = open(os.path.join(vlib.REPO, "qutip/core/_brtools.pyx")).read()
    bt = BasisTr(txt)
    sup_f = "fock.shape[0] == self.size ** 2 and fock.shape[0] == fock.shape[1]"
    op_f = "fock.shape[0] == self.size and fock.shape[0] == fock.shape[1]"
    return {
        "conv": bt.expr(bt.conv, {}),
        "to_super": bt.branch("to_eigbasis", "fock", sup_f),
        "from_super": bt.branch("from_eigbasis", "eig", sup_f.replace("fock", "eig")),
        "to_oper": bt.branch("to_eigbasis", "fock", op_f),
        "from_oper": bt.branch("from_eigbasis", "eig", op_f.replace("fock", "eig")),
    }


def emit_basis(b):
    return """
Section GenBasis.
Variable R : fieldType.
Variable conj : {rmorphism R -> R}.
Variable n : nat.
(* _EigenBasisTransform: V = evecs(t), _inv(t) = V.adjoint() *)
Definition gen_S_converter_inverse (V : 'M[R]_n) : 'M[R]_(n * n) := %(conv)s.
Definition gen_to_eigbasis_super (V : 'M[R]_n) (fock : 'M[R]_(n * n)) : 'M[R]_(n * n) :=
  %(to_super)s.
Definition gen_from_eigbasis_super (V : 'M[R]_n) (eig : 'M[R]_(n * n)) : 'M[R]_(n * n) :=
  %(from_super)s.
Definition gen_to_eigbasis_oper (V fock : 'M[R]_n) : 'M[R]_n :=
  %(to_oper)s.
Definition gen_from_eigbasis_oper (V eig : 'M[R]_n) : 'M[R]_n :=
  %(from_oper)s.
End GenBasis.
""" % b


# ----------------------------------- loop-skipping devices of sparse kernels
def oexpr(node):
    """expression over the ordered field of skew values / cutoff."""
    if isinstance(node, ast.Name) and node.id in ("cutoff", "dskew"):
        return node.id
    if isinstance(node, ast.UnaryOp) and isinstance(node.op, ast.USub):
        return "(- %s)" % oexpr(node.operand)
    if isinstance(node, ast.BinOp) and isinstance(node.op, ast.Sub):
        return "(%s - %s)" % (oexpr(node.left), oexpr(node.right))
    if isinstance(node, ast.Call) and _src(node.func) == "fabs" and len(node.args) == 1:
        return "`|%s|" % oexpr(node.args[0])
    if isinstance(node, ast.Subscript) and _src(node.value) == "skew" \
            and isinstance(node.slice, ast.Tuple) and len(node.slice.elts) == 2:
        ix = []
        for e in node.slice.elts:
            if isinstance(e, ast.Name) and e.id in "abcd":
                ix.append(e.id)
            elif _src(e) == "nrows - 1":
                ix.append("nrows.-1")
            elif isinstance(e, ast.Constant) and e.value == 0 and not isinstance(e.value, bool):
                ix.append("0%N")
            else:
                bad(e, "skew index")
        return "(skew %s %s)" % tuple(ix)
    bad(node, "ordered expression")


def ocmp(test):
    if isinstance(test, ast.Compare) and len(test.ops) == 1:
        op = {ast.Lt: "<", ast.LtE: "<=", ast.Gt: ">", ast.GtE: ">="}.get(type(test.ops[0]))
        if op:
            return "%s %s %s" % (oexpr(test.left), op, oexpr(test.comparators[0]))
    bad(test, "comparison")


def tx_sparse_loops(txt, name, cross):
    """conditions of the skipping devices, read from the AST (the loop
    skeleton itself is the one accepted by presum_nest / sparse_nest)."""
    params, body = kernel_source(txt, name)
    i, _ = prologue(body, cross, name)
    rest = body[i:]
    presum_nest(rest[0], True)
    sparse_nest(rest[1])
    pcond = rest[0].body[0].body[0]                 # if fabs(skew[a,b]) < cutoff ... elif ...
    fc = rest[1].body[0].body[1]                    # for c
    fd = fc.body[1]
    br = fd.body[1]
    keep = br.orelse[0]
    last = keep.orelse[0]
    return {"pre_keep": ocmp(pcond.test), "pre_break": ocmp(pcond.orelse[0].test),
            "skip_c": ocmp(fc.body[0].test), "dskew": oexpr(fd.body[0].value),
            "dmin": ocmp(br.test), "keep": ocmp(keep.test), "brk": ocmp(last.test)}


SPARSE_TMPL = """(* GENERATED by tools/tx_c07_kernels.py from qutip/core/_brtensor.pyx - do not edit.
   The loop-skipping devices of _br_term_sparse / _br_cterm_sparse (identical
   in both kernels) as executable loops over an ordered field of skew values:
     for c in range(nrows): if <skip_c>: break
       for d in range(d_min, nrows): dskew = ...;
         if <dmin>: d_min = d  elif <keep>: emit (c, d)  elif <brk>: break
   and the pre-sum loop  for b in range(nrows-1, -1, -1):
         if <pre_keep>: compute  elif <pre_break>: break                      *)
From mathcomp Require Import all_ssreflect all_algebra.
Set Implicit Arguments. Unset Strict Implicit. Unset Printing Implicit Defensive.
Import GRing.Theory Num.Theory.
Local Open Scope ring_scope.

Section GenSparseLoops.
Variable F : realDomainType.
Variable cutoff : F.
Variable nrows : nat.
Variable skew : nat -> nat -> F.

Section AB.
Variables a b : nat.

Fixpoint gen_sparse_loop_d (c d fuel d_min : nat) : seq nat * nat :=
  if fuel is fuel'.+1 then
    let dskew := %(dskew)s in
    if %(dmin)s then gen_sparse_loop_d c d.+1 fuel' d
    else if %(keep)s then
      let: (l, m) := gen_sparse_loop_d c d.+1 fuel' d_min in (d :: l, m)
    else if %(brk)s then ([::], d_min)
    else gen_sparse_loop_d c d.+1 fuel' d_min
  else ([::], d_min).

Fixpoint gen_sparse_loop_c (c fuel d_min : nat) : seq (nat * nat) :=
  if fuel is fuel'.+1 then
    if %(skip_c)s then [::]
    else
      let: (l, m) := gen_sparse_loop_d c d_min (nrows - d_min) d_min in
      [seq (c, d) | d <- l] ++ gen_sparse_loop_c c.+1 fuel' m
  else [::].

Definition gen_sparse_kept : seq (nat * nat) := gen_sparse_loop_c 0 nrows 0.
End AB.

Fixpoint gen_sparse_presum_loop (a : nat) (fuel : nat) : seq nat :=
  if fuel is b.+1 then
    if %(pre_keep)s then b :: gen_sparse_presum_loop a b
    else if %(pre_break)s then [::]
    else gen_sparse_presum_loop a b
  else [::].
Definition gen_sparse_presum_computed (a : nat) : seq nat := gen_sparse_presum_loop a nrows.
End GenSparseLoops.
"""


def generate_sparse(path=None):
    txt = open(os.path.join(vlib.REPO, "qutip/core/_brtensor.pyx")).read()
    c1 = tx_sparse_loops(txt, "_br_term_sparse", False)
    c2 = tx_sparse_loops(txt, "_br_cterm_sparse", True)
    if c1 != c2:
        raise Unsupported("the skipping devices of _br_term_sparse and _br_cterm_sparse differ: "
                          "%r vs %r" % (c1, c2))
    out = SPARSE_TMPL % c1
    p = path or os.path.join(vlib.COQ, "Gen", "C07_sparse.v")
    old = open(p).read() if os.path.exists(p) else None
    if old != out:
        with open(p, "w") as f:
            f.write(out)
    return c1


# ----------------------------------------------------------------- emission
HEADER = """(* GENERATED by tools/tx_c07_kernels.py from qutip/core/_brtensor.pyx - do not edit.
   Loop kernels of the Bloch-Redfield tensor as MathComp definitions.
   The sparse kernels are emitted WITHOUT their loop-skipping devices. *)
From mathcomp Require Import all_ssreflect all_algebra.
From mathcomp Require Import mxtens.
From QV Require Import Base.MxHerm Model.C07 Model.C07_kernels.
Set Implicit Arguments. Unset Strict Implicit. Unset Printing Implicit Defensive.
Import GRing.Theory.
Local Open Scope ring_scope.

Section GenKernels.
Variable R : fieldType.
Variable n : nat.
Variable h : R.                       (* 0.5 *)
Variable G : zmodType.                (* values of skew *)
Variable near : G -> bool.            (* fabs(x) < cutoff *)
Local Notation M := 'M[R]_n.
Local Notation Sk := ('I_n -> 'I_n -> G).
"""


def emit_kernel(k):
    nm = k["name"].lstrip("_")
    arrs = "(A_mat B_mat spectrum : M)" if k["cross"] else "(A_mat spectrum : M)"
    args = "A_mat B_mat spectrum skew" if k["cross"] else "A_mat spectrum skew"
    out = []
    for t in ("ac_term", "bd_term"):
        out.append("Definition gen_%s_%s %s (skew : Sk) (a b : 'I_n) : R :=\n"
                   "  if %s then \\sum_k %s else 0.\n" % (nm, t, arrs, k["guard"], k["sums"][t]))
    out.append("Definition gen_%s_elem %s (skew : Sk) (a b c d : 'I_n) : R :=\n"
               "  let ac_term := gen_%s_ac_term %s in\n"
               "  let bd_term := gen_%s_bd_term %s in\n"
               "  if %s then\n    %s\n    elem\n  else 0.\n" % (
                   nm, arrs, nm, args, nm, args, k["test"], "\n    ".join(k["lets"])))
    if k["cross"]:
        sig = "(A B spectrum : M) (skew : Sk)"
        if k["transpose"] == "swapT":
            pre = "  let A_mat := B^T in let B_mat := A^T in\n"
        else:
            pre = "  let A_mat := A in let B_mat := B in\n"
    else:
        sig = "(A spectrum : M) (skew : Sk)"
        pre = "  let A_mat := A^T in\n" if k["transpose"] == "T" else "  let A_mat := A in\n"
    out.append("Definition gen_%s %s : 'M[R]_(n * n) :=\n%s"
               "  \\matrix_(I, J) gen_%s_elem %s\n"
               "    (mxtens_unindex I).1 (mxtens_unindex I).2 (mxtens_unindex J).1 (mxtens_unindex J).2.\n"
               % (nm, sig, pre, nm, args))
    return "\n".join(out)


def emit_mask(mk):
    nm = mk["name"].lstrip("_")
    return ("Definition gen_%s_mask (skew : Sk) : 'M[R]_(n * n) :=\n"
            "  \\matrix_(I, J)\n"
            "    (let a := (mxtens_unindex I).1 in let b := (mxtens_unindex I).2 in\n"
            "     let c := (mxtens_unindex J).1 in let d := (mxtens_unindex J).2 in\n"
            "     if %s then 1 else 0).\n" % (nm, mk["test"]))


def translate():
    txt = open(os.path.join(vlib.REPO, "qutip/core/_brtensor.pyx")).read()
    ks = [tx_loop_kernel(txt, "_br_term_dense", False, False),
          tx_loop_kernel(txt, "_br_term_sparse", False, True),
          tx_loop_kernel(txt, "_br_cterm_dense", True, False),
          tx_loop_kernel(txt, "_br_cterm_sparse", True, True)]
    masks = [tx_mask(txt, "_br_term_data"), tx_mask(txt, "_br_cterm_data")]
    cdata = tx_cterm_data(txt)
    return ks, masks, (cdata, tx_basis())


def emit(ks, masks, extra):
    cdata, basis = extra
    out = [HEADER]
    for k in ks:
        out.append(emit_kernel(k))
    for mk in masks:
        out.append(emit_mask(mk))
    out.append("Definition gen_br_cterm_data (v_A v_B v_spectrum : Oexpr R n) : Sexpr R n := %s.\n"
               % txs.coq(cdata))
    out.append("End GenKernels.\n")
    out.append(emit_basis(basis))
    return "\n".join(out)


def generate(path=None):
    if path is None:
        generate_sparse()
    ks, masks, cdata = translate()
    txt = emit(ks, masks, cdata)
    p = path or os.path.join(vlib.COQ, "Gen", "C07_kernels.v")
    os.makedirs(os.path.dirname(p), exist_ok=True)
    old = open(p).read() if os.path.exists(p) else None
    if old != txt:
        with open(p, "w") as f:
            f.write(txt)
    return ks, masks, cdata


if __name__ == "__main__":
    generate(sys.argv[1] if len(sys.argv) > 1 else None)
    print(open(sys.argv[1] if len(sys.argv) > 1 else
               os.path.join(vlib.COQ, "Gen", "C07_kernels.v")).read())
