#!/bin/sh
# tools/final_pass.sh <logfile> <ids...> : quick (seed 1, seed 0) then thorough for each id, sequentially; one summary line per run
L="$1"; shift
cd /verif
for p in "$@"; do
  for mode in "quick 1" "quick 0" "thorough 0"; do
    set -- $mode; tier=$1; seed=$2
    s=$(date +%s)
    VERIF_SEED=$seed ./check $p --tier $tier > /tmp/c03/final_${p}_${tier}_${seed}.log 2>&1; rc=$?
    e=$(date +%s)
    v=$(grep -c "^VIOLATION" /tmp/c03/final_${p}_${tier}_${seed}.log); k=$(grep -c "^KNOWN-FINDING" /tmp/c03/final_${p}_${tier}_${seed}.log)
    echo "$p $tier seed=$seed rc=$rc violations=$v known=$k $(($e-$s))s $(tail -1 /tmp/c03/final_${p}_${tier}_${seed}.log | cut -c1-110)" >> "$L"
  done
done
echo DONE >> "$L"
