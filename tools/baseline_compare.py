"""Compare a pytest junit xml with the stable_pass list of BASELINE.json.
usage: baseline_compare.py <junit.xml> [prefix-filter ...]
Prints the stable tests that did not pass (restricted to classnames starting
with one of the filters, when given)."""
import json
import sys
import xml.etree.ElementTree as ET

base = json.load(open("/root/.vp/BASELINE.json"))
stable = set(base["stable_pass"])
root = ET.parse(sys.argv[1]).getroot()
filters = sys.argv[2:]
seen = {}
for tc in root.iter("testcase"):
    cn = tc.get("classname")
    if not cn.startswith("qutip."):
        # pytest invoked with explicit file paths roots classnames at the
        # rootdir (qutip/tests has its own conftest): normalise
        cn = "qutip.tests." + cn
    tid = cn + "::" + tc.get("name")
    bad = any(ch.tag in ("failure", "error", "skipped") for ch in tc)
    seen[tid] = not bad
missing = []
for s in stable:
    if filters and not any(s.startswith(f) for f in filters):
        continue
    if s not in seen:
        if not filters:
            missing.append(("not-run", s))
    elif not seen[s]:
        missing.append(("FAILED", s))
matched = sum(1 for s in stable if s in seen)
print("stable tests matched to this run:", matched)
print("stable tests considered:", sum(1 for s in stable if (not filters or any(s.startswith(f) for f in filters))),
      "ran:", len(seen), "problems:", len(missing))
for m in sorted(missing)[:60]:
    print(*m)
sys.exit(1 if missing else 0)
