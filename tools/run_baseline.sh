#!/bin/sh
# tools/run_baseline.sh : full baseline pytest run of /repo HEAD in a scratch worktree (guard off), compared with the stable list
set -e
W=/tmp/base_wt; H=/tmp/base_home
git -C /repo worktree remove --force $W 2>/dev/null || true; rm -rf $W $H /tmp/base_run.xml
/verif/tools/mk_seed_wt.sh $W >/dev/null
mkdir -p $H
cd $W
env -u QUTIP_VERIF_HOOKS HOME=$H OMP_NUM_THREADS=1 OPENBLAS_NUM_THREADS=1 MKL_NUM_THREADS=1 PYTHONPATH=$W \
  /venv/bin/python -m pytest -ra -q -p no:cacheprovider --timeout=900 --continue-on-collection-errors -n 8 \
  --junitxml=/tmp/base_run.xml > /tmp/base_run.log 2>&1 || true
tail -1 /tmp/base_run.log
git -C /repo rev-parse --short HEAD
/venv/bin/python /verif/tools/baseline_compare.py /tmp/base_run.xml qutip.tests | head -12
cd /; git -C /repo worktree remove --force $W; rm -rf $W $H /tmp/base_run.xml
